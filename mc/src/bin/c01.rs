//! C01 — reading any octet string as a DNS message is total.
//!
//! gramx: every message derivable from a token grammar (header variants x
//! items x per-field menus x pointer targets at every landmark) plus every
//! raw byte string over a 9-symbol alphabet after the header. For each the
//! complete read-side script is run twice under catch_unwind and a hang
//! watchdog; transcripts must be equal, parsed names must agree with an
//! independent decompressor.
//!
//! Length axis x selector axis x every accessor: per record type the product
//! of its selector octets (algorithm, digest type, flags, gateway type,
//! parameter key, ...) with every tail length to a bound and around every
//! defined size; per EDNS option code every OPTION-LENGTH. Every record /
//! OPT record of these (and of the one-item family) goes through every public
//! read-side method of its type (`deep_rdata`, `deep_opt`), and the typed
//! route and the zone-data route are compared with the any-route
//! (`typed_routes`).
use domain::base::name::{Label, ParsedName, ToLabelIter, ToName};
use domain::base::opt::AllOptData;
use domain::base::{Message, MessageBuilder, ParsedRecord};
use domain::net::xfr::protocol::XfrResponseInterpreter;
use domain::base::opt::Opt;
use domain::rdata::{AllRecordData, Cname, Soa, Txt, A};
use mc::*;
use rayon::prelude::*;
use serde_json::{json, Value};
use std::fmt::Write as _;
use std::sync::Arc;
use std::time::Duration;

const LIMIT: usize = 70_000; // above any legal count (65535)
static NAMES: std::sync::atomic::AtomicU64 = std::sync::atomic::AtomicU64::new(0);
static DERIVED: std::sync::atomic::AtomicU64 = std::sync::atomic::AtomicU64::new(0);
static BATTERIES: std::sync::atomic::AtomicU64 = std::sync::atomic::AtomicU64::new(0);
static DEEP_READS: std::sync::atomic::AtomicU64 = std::sync::atomic::AtomicU64::new(0);
/// names at / next to the label-count limit handed out by the library: [126, 127, 128 labels]
static LABEL_LIMIT_NAMES: [std::sync::atomic::AtomicU64; 3] = [std::sync::atomic::AtomicU64::new(0), std::sync::atomic::AtomicU64::new(0), std::sync::atomic::AtomicU64::new(0)];
static NAME_PAIRS: std::sync::atomic::AtomicU64 = std::sync::atomic::AtomicU64::new(0);

// ------------------------------------------------------------ the script

struct T {
    s: String,
    names: u32,
    ptr_names: u32,
    rdata_parsed: u32,
    errs: Vec<String>,
    /// derived name objects (suffixes, parents, split_first remainders) put through the battery
    derived: u32,
    batteries: u32,
    /// derive name objects in this run of the script (first of the two runs)
    derive: bool,
    /// derived objects get the full battery, not only its core
    full_derived: bool,
    /// thorough tier: derivations of derived names
    deep: bool,
    /// every accessor of every record data / option type, typed routes (deep reads)
    rd: bool,
    deep_reads: u32,
    /// names of 126 / 127 / 128 labels (root included) handed out
    limit_names: [u32; 3],
}
impl T {
    fn ev(&mut self, k: &str) {
        self.s.push_str(k);
        self.s.push(';');
    }
}

/// What the independent label list says about one name object: its labels
/// (root label included), their uncompressed wire form and the lowercased
/// wire form. For a suffix these are sub-slices of the original's.
#[derive(Clone, Copy)]
struct Exp<'a> {
    labels: &'a [Vec<u8>],
    want: &'a [u8],
    lower: &'a [u8],
}
impl<'a> Exp<'a> {
    /// The expectation for the name with the first `k` labels dropped.
    fn suffix(&self, k: usize) -> Exp<'a> {
        let off: usize = self.labels[..k].iter().map(|l| 1 + l.len()).sum();
        Exp { labels: &self.labels[k..], want: &self.want[off..], lower: &self.lower[off..] }
    }
}

/// Exercise a parsed name: everything must work, the labels must be the
/// independent decompression (mc::wire) of some position of the message, and
/// every name object DERIVED from it (each item of iter_suffixes(), each step
/// of a parent() walk, each remainder of a split_first() walk, alternating
/// walks) must pass the same battery as the name itself, against the
/// corresponding suffix of the independent label list.
fn use_name(t: &mut T, n: &ParsedName<&[u8]>, msg: &[u8]) {
    t.names += 1;
    if n.is_compressed() {
        t.ptr_names += 1;
    }
    let fwd: Vec<Vec<u8>> = n.iter().take(300).map(|l| l.as_slice().to_vec()).collect();
    if fwd.len() >= 300 {
        t.errs.push("name|label-iteration-does-not-end".into());
        return;
    }
    if fwd.last().map(|l| l.len()) != Some(0) {
        t.errs.push("name|does-not-end-with-root".into());
        return;
    }
    if (126..=128).contains(&fwd.len()) {
        t.limit_names[fwd.len() - 126] += 1;
    }
    let want = wire_of(&fwd);
    if mc::wire::validate_name(&want, true).is_err() {
        t.errs.push("name|parsed-name-is-not-a-valid-name".into());
        return;
    }
    let lower = want.to_ascii_lowercase();
    // independent decompression: a name handed out for this message is the decompression of at
    // least one position of the message (candidates: positions holding a pointer or the first label)
    if t.derive && msg.len() <= 4096 {
        let first = &want[..1 + want[0] as usize];
        let found = (0..msg.len()).any(|p| {
            if msg[p] < 0xC0 && !msg[p..].starts_with(first) {
                return false;
            }
            let mut ptrs = Vec::new();
            match mc::wire::read_name(msg, p, &mut ptrs) {
                Ok((labels, _)) => labels.len() + 1 == fwd.len() && labels.iter().zip(&fwd).all(|(a, b)| a == b),
                Err(_) => false,
            }
        });
        if !found {
            t.errs.push("name|not-the-independent-decompression-of-any-position".into());
        }
    }
    let e = Exp { labels: &fwd, want: &want, lower: &lower };
    battery(t, n, e, "name", true);
    if t.derive {
        let depth = if t.deep { 2 } else { 1 };
        derived(t, n, e, depth, "");
    }
    let d = format!("{}", n);
    let _ = write!(t.s, "n({},{});", fwd.len(), d.len());
}

/// Uncompressed wire form of a label list that includes the root label.
fn wire_of(labels: &[Vec<u8>]) -> Vec<u8> {
    let mut want = Vec::new();
    for l in labels {
        want.push(l.len() as u8);
        want.extend_from_slice(l);
    }
    want
}

/// Every way of deriving a name object from `n`, each derived object put
/// through the battery against the suffix of the expectation (k = number of
/// labels dropped). `depth` > 1 repeats the derivations on every derived
/// object.
fn derived(t: &mut T, n: &ParsedName<&[u8]>, e: Exp<'_>, depth: u32, via: &str) {
    let count = e.labels.len();
    let full = t.full_derived;
    let tag = |route: &str| if via.is_empty() { route.to_string() } else { format!("{via}{route}") };
    // route A: iter_suffixes()
    let mut sufs: [Option<ParsedName<&[u8]>>; 12] = [None; 12];
    let mut nsuf = 0usize;
    for (k, s) in n.iter_suffixes().take(300).enumerate() {
        nsuf += 1;
        if k >= count {
            continue;
        }
        if k < sufs.len() {
            sufs[k] = Some(s);
        }
        t.derived += 1;
        battery(t, &s, e.suffix(k), "iter_suffixes", full);
        if !n.ends_with(&s) {
            t.errs.push(format!("derived-name|{}|name-does-not-end-with-its-suffix", tag("iter_suffixes")));
        }
        if depth > 1 && k > 0 {
            derived(t, &s, e.suffix(k), depth - 1, &format!("{via}iter_suffixes>"));
        }
    }
    if nsuf != count {
        t.errs.push(format!("derived-name|{}|number-of-suffixes-differs-from-number-of-labels", tag("iter_suffixes")));
    }
    // routes B, C: parent() walk, split_first() walk; D, E: the two alternating walks (their
    // first step is the first step of B or C, so their objects count from the second step)
    for (route, pattern) in [("parent", [true, true]), ("split_first", [false, false]), ("parent+split_first", [true, false]), ("split_first+parent", [false, true])] {
        let pure = pattern[0] == pattern[1];
        if !pure && count < 3 {
            continue;
        }
        let mut p = *n;
        let mut k = 0usize;
        loop {
            let more = if pattern[k % 2] {
                p.parent()
            } else {
                let exp_label = &e.labels[k];
                match p.split_first() {
                    Some(f) => {
                        let f = f.as_slice();
                        if k + 1 >= count || f.len() != 1 + exp_label.len() || f[0] as usize != exp_label.len() || f[1..] != exp_label[..] {
                            t.errs.push(format!("derived-name|{}|split_first-returns-wrong-label", tag(route)));
                            break;
                        }
                        true
                    }
                    None => false,
                }
            };
            if more != (k + 1 < count) {
                t.errs.push(format!("derived-name|{}|walk-ends-at-wrong-label", tag(route)));
                break;
            }
            if !more {
                // a refused step must leave the name as it was
                t.derived += 1;
                battery(t, &p, e.suffix(k), &format!("{route}(refused-step)"), full);
                break;
            }
            k += 1;
            if !pure && k < 2 {
                continue;
            }
            t.derived += 1;
            battery(t, &p, e.suffix(k), route, full);
            // the same suffix reached by different routes is the same name
            if let Some(Some(s)) = sufs.get(k) {
                use std::cmp::Ordering::Equal;
                if !(p == *s) || !(*s == p) || p.cmp(s) != Equal || p.composed_cmp(s) != Equal || s.composed_cmp(&p) != Equal || p.lowercase_composed_cmp(s) != Equal {
                    t.errs.push(format!("derived-name|{}|differs-from-same-suffix-by-iter_suffixes", tag(route)));
                }
            }
            if !n.ends_with(&p) {
                t.errs.push(format!("derived-name|{}|name-does-not-end-with-its-suffix", tag(route)));
            }
            if depth > 1 && pure {
                derived(t, &p, e.suffix(k), depth - 1, &format!("{via}{route}>"));
            }
        }
    }
}

/// The battery on one name object: the operations of ParsedName's public API
/// and of the ToName / ToLabelIter / FlattenInto / comparison / hash traits,
/// each result compared with what the independent label list says. The flat
/// partner names are built from the independent labels, not from the object
/// under test. The core part (everything that depends on the cached
/// position / length / compressed-flag of the object) always runs; `full`
/// adds the remaining conversions, views and the comparisons with further
/// different names.
fn battery<O: octseq::Octets>(t: &mut T, n: &ParsedName<O>, e: Exp<'_>, tag: &str, full: bool) {
    use domain::base::cmp::CanonicalOrd;
    use domain::base::name::{FlattenInto, Name};
    use std::cmp::Ordering::{self, Equal, Greater};
    use std::hash::{Hash, Hasher};
    t.batteries += 1;
    let (exp, want, lower) = (e.labels, e.want, e.lower);
    let mut errs: Vec<String> = Vec::new();
    let mut bad = |k: &str| errs.push(if tag == "name" { format!("name-api|{k}") } else { format!("derived-name|{tag}|{k}") });
    // ---- core
    // label iteration, both directions (bounded: a name has at most 128 labels)
    if n.iter().take(300).count() >= 300 || n.iter().rev().take(300).count() >= 300 {
        bad("label-iteration-does-not-end");
        t.errs.extend(errs);
        return;
    }
    if !n.iter().map(|l| l.as_slice()).eq(exp.iter().map(|v| v.as_slice())) {
        bad("labels-differ-from-independent-labels");
    }
    if !n.iter().rev().map(|l| l.as_slice()).eq(exp.iter().rev().map(|v| v.as_slice())) {
        bad("labels-iterated-backwards-differ-from-independent-labels");
    }
    if n.iter_labels().count() != exp.len() || n.label_count() != exp.len() {
        bad("label_count");
    }
    if n.is_root() != (exp.len() == 1) {
        bad("is_root");
    }
    if n.first().as_slice() != exp[0].as_slice() || !n.last().is_root() {
        bad("first-or-last");
    }
    // octet forms
    if usize::from(n.compose_len()) != want.len() {
        bad("compose_len-wrong");
    }
    if let Some(s) = n.as_flat_slice() {
        if s != want {
            bad("as_flat_slice-differs-from-independent-labels");
        }
    }
    let mut buf = Vec::with_capacity(want.len() + 8);
    n.compose(&mut buf).unwrap();
    if buf != want {
        bad("compose-differs-from-independent-labels");
    }
    buf.clear();
    n.compose_canonical(&mut buf).unwrap();
    if buf != lower {
        bad("compose_canonical");
    }
    if n.to_vec().as_slice() != want {
        bad("to_vec-differs-from-independent-labels");
    }
    if n.to_cow().as_slice() != want {
        bad("to_cow-differs-from-independent-labels");
    }
    match n.ref_octets().try_flatten_into() {
        Ok::<Name<Vec<u8>>, _>(f) => {
            if f.as_slice() != want {
                bad("try_flatten_into-differs-from-independent-labels");
            }
        }
        Err(_) => bad("try_flatten_into-failed"),
    }
    // comparisons with itself and with the flat names made from the independent labels
    if !(n == n) || n.cmp(n) != Equal || n.canonical_cmp(n) != Equal || n.composed_cmp(n) != Equal || !n.name_eq(n) {
        bad("not-equal-to-itself");
    }
    let (flat, flat_lower): (Name<&[u8]>, Name<&[u8]>) = match (Name::from_octets(want), Name::from_octets(lower)) {
        (Ok(a), Ok(b)) => (a, b),
        _ => {
            bad("independent-labels-are-not-a-name");
            t.errs.extend(errs);
            return;
        }
    };
    if !(*n == flat) || !(flat == *n) || !n.name_eq(&flat) || !flat.name_eq(n) || !n.name_eq(&flat_lower) {
        bad("not-equal-to-flat-name-of-same-labels");
    }
    if n.name_cmp(&flat) != Equal || flat.name_cmp(n) != Equal || n.canonical_cmp(&flat) != Equal || n.partial_cmp(&flat) != Some(Equal) || n.name_cmp(&flat_lower) != Equal {
        bad("orders-vs-flat-name-of-same-labels");
    }
    if n.composed_cmp(&flat) != Equal || flat.composed_cmp(n) != Equal || n.lowercase_composed_cmp(&flat_lower) != Equal || flat_lower.lowercase_composed_cmp(n) != Equal || flat.lowercase_composed_cmp(n) != Equal {
        bad("composed-orders-vs-flat-name-of-same-labels");
    }
    if !n.starts_with(&flat) || !n.ends_with(&flat) || !flat.ends_with(n) || !flat.starts_with(n) || !n.ends_with(&Name::root_ref()) {
        bad("starts_with-or-ends_with-same-labels");
    }
    // ... and with a different one: the independent parent (RFC 4034 6.1: a name sorts after its parent)
    if exp.len() > 1 {
        let pw = &want[1 + exp[0].len()..];
        let parent: Name<&[u8]> = Name::from_octets(pw).unwrap();
        if *n == parent || parent == *n || n.name_eq(&parent) || parent.name_eq(n) {
            bad("equal-to-its-parent");
        }
        if n.name_cmp(&parent) != Greater || parent.name_cmp(n) != Ordering::Less || n.canonical_cmp(&parent) != Greater || n.partial_cmp(&parent) != Some(Greater) {
            bad("order-relative-to-its-parent");
        }
        if n.composed_cmp(&parent) != want.cmp(pw) || parent.composed_cmp(n) != pw.cmp(want) {
            bad("composed-order-relative-to-its-parent");
        }
        if !n.ends_with(&parent) || n.starts_with(&parent) {
            bad("ends_with-or-starts_with-its-parent");
        }
    }
    // hash
    let (mut h1, mut h2) = (std::collections::hash_map::DefaultHasher::new(), std::collections::hash_map::DefaultHasher::new());
    n.hash(&mut h1);
    flat.hash(&mut h2);
    if h1.finish() != h2.finish() {
        bad("hash-differs-from-equal-flat-name");
    }
    let want_rrsig = exp.len() as u8 - 1 - (exp[0].as_slice() == b"*") as u8;
    if n.rrsig_label_count() != want_rrsig {
        bad("rrsig_label_count");
    }
    // display must work
    let d = format!("{}", n);
    if d.is_empty() {
        bad("display-empty");
    }
    if !full {
        t.errs.extend(errs);
        return;
    }
    // ---- full
    {
        // mixed front/back pulls meet in the middle
        let mut it = n.iter();
        let mut front: Vec<&[u8]> = Vec::new();
        let mut back: Vec<&[u8]> = Vec::new();
        let mut turn = 0;
        loop {
            let x = if turn % 2 == 0 { it.next().map(|l| (true, l.as_slice())) } else { it.next_back().map(|l| (false, l.as_slice())) };
            match x {
                Some((true, l)) => front.push(l),
                Some((false, l)) => back.push(l),
                None => break,
            }
            turn += 1;
            if turn > 300 {
                break;
            }
        }
        back.reverse();
        front.extend(back);
        if !front.iter().cloned().eq(exp.iter().map(|v| v.as_slice())) {
            bad("labels-iterated-from-both-ends-differ-from-independent-labels");
        }
    }
    if n.to_bytes().as_slice() != want || n.to_name::<Vec<u8>>().as_slice() != want {
        bad("to_bytes-or-to_name-differs-from-independent-labels");
    }
    {
        let f: Name<Vec<u8>> = n.ref_octets().flatten_into();
        let g: Name<bytes::Bytes> = n.ref_octets().flatten_into();
        if f.as_slice() != want || g.as_slice() != want {
            bad("flatten_into-differs-from-independent-labels");
        }
    }
    {
        // the views are the same name
        let r = n.ref_octets();
        let dr = r.deref_octets();
        if dr.to_vec().as_slice() != want || !(r == flat) || !(dr == flat) || r.as_flat_slice().map(|s| s == want) == Some(false) || dr.as_flat_slice().map(|s| s == want) == Some(false) || r.composed_cmp(&flat) != Equal || dr.composed_cmp(&flat) != Equal {
            bad("ref_octets-or-deref_octets-view-differs-from-independent-labels");
        }
        buf.clear();
        dr.compose(&mut buf).unwrap();
        if buf != want {
            bad("deref_octets-view-composes-differently");
        }
    }
    let canon: Name<Vec<u8>> = n.to_canonical_name();
    if canon.as_slice() != lower {
        bad("to_canonical_name");
    }
    // comparisons with further different names: the root, one more label in front / before the root
    let mut others: Vec<Vec<Vec<u8>>> = vec![vec![vec![]]];
    if want.len() + 2 <= 255 {
        let mut o = vec![b"q".to_vec()];
        o.extend_from_slice(exp);
        others.push(o);
        let mut o = exp.to_vec();
        let last = o.len() - 1;
        o.insert(last, b"q".to_vec());
        others.push(o);
    }
    for o in &others {
        let ow = wire_of(o);
        let olow = ow.to_ascii_lowercase();
        let on: Name<&[u8]> = Name::from_octets(ow.as_slice()).unwrap();
        let same = mc::wire::labels_eq_ci(&exp[..exp.len() - 1], &o[..o.len() - 1]);
        let ord: Ordering = mc::wire::canonical_name_cmp(&exp[..exp.len() - 1], &o[..o.len() - 1]);
        if (*n == on) != same || (on == *n) != same || n.name_eq(&on) != same {
            bad("equality-with-a-different-flat-name");
        }
        if n.name_cmp(&on) != ord || on.name_cmp(n) != ord.reverse() || n.canonical_cmp(&on) != ord || n.partial_cmp(&on) != Some(ord) {
            bad("order-relative-to-a-different-flat-name");
        }
        if n.composed_cmp(&on) != want.cmp(ow.as_slice()) || on.composed_cmp(n) != ow.as_slice().cmp(want) {
            bad("composed-order-relative-to-a-different-flat-name");
        }
        if n.lowercase_composed_cmp(&on) != lower.cmp(olow.as_slice()) || on.lowercase_composed_cmp(n) != olow.as_slice().cmp(lower) {
            bad("lowercase-composed-order-relative-to-a-different-flat-name");
        }
        if n.ends_with(&on) != (o.len() <= exp.len() && mc::wire::labels_eq_ci(&exp[exp.len() - o.len()..], o)) {
            bad("ends_with-a-different-flat-name");
        }
        if n.starts_with(&on) != (o.len() <= exp.len() && mc::wire::labels_eq_ci(&exp[..o.len()], o)) {
            bad("starts_with-a-different-flat-name");
        }
    }
    // displays: with and without trailing dot agree
    let dd = format!("{}", n.fmt_with_dot());
    let _ = format!("{:?}", n);
    if dd.is_empty() || !(dd == d || dd.strip_suffix('.') == Some(d.as_str())) {
        bad("display-with-dot-is-not-display-plus-dot");
    }
    t.errs.extend(errs);
}

fn script(msg: &[u8], t: &mut T) {
    let m = match Message::from_slice(msg) {
        Ok(m) => m,
        Err(_) => {
            t.ev("short");
            if msg.len() >= 12 {
                t.errs.push("message|from_octets-rejects-12+".into());
            }
            if Message::from_octets(msg).is_ok() {
                t.errs.push("message|from_slice-vs-from_octets".into());
            }
            return;
        }
    };
    let h = m.header();
    let c = m.header_counts();
    let _ = write!(t.s, "h{}:{:?}:{:?}:{}{}{};c{},{},{},{};", h.id(), h.opcode(), h.rcode(), h.qr() as u8, h.tc() as u8, h.aa() as u8, c.qdcount(), c.ancount(), c.nscount(), c.arcount());
    let _ = (m.no_error(), m.is_error(), m.header_section());
    // independent parse for cross-checking
    let indep = mc::wire::read_message(msg);

    // questions
    let mut qs = 0;
    for q in m.question().take(LIMIT) {
        match q {
            Ok(q) => {
                qs += 1;
                use_name(t, q.qname(), msg);
                let _ = write!(t.s, "q{}:{};", q.qtype().to_int(), q.qclass().to_int());
                let _ = format!("{} {:?}", q, q);
                {
                    use domain::base::cmp::CanonicalOrd;
                    use std::hash::{Hash, Hasher};
                    let mut hh = std::collections::hash_map::DefaultHasher::new();
                    q.hash(&mut hh);
                    let _ = hh.finish();
                    if !(q == q) || q.cmp(&q) != std::cmp::Ordering::Equal || q.canonical_cmp(&q) != std::cmp::Ordering::Equal {
                        t.errs.push("question|not-equal-to-itself".into());
                    }
                    let mut qb = Vec::new();
                    let _ = q.compose(&mut qb);
                }
            }
            Err(_) => {
                t.ev("qerr");
                break;
            }
        }
    }
    let _ = write!(t.s, "qs{};", qs);
    // sections()
    match m.sections() {
        Ok((q, an, ns, ar)) => {
            t.ev("sections-ok");
            let _ = q.count();
            let mut all: Vec<(usize, Vec<Vec<u8>>, u16, u16, u32, usize)> = Vec::new();
            for (si, sec) in [an, ns, ar].into_iter().enumerate() {
                let mut n = 0;
                for r in sec.take(LIMIT) {
                    match r {
                        Ok(r) => {
                            n += 1;
                            record(t, &r, msg);
                            all.push((si, r.owner().iter().filter(|l| !l.is_root()).map(|l| l.as_slice().to_vec()).collect(), r.rtype().to_int(), r.class().to_int(), r.ttl().as_secs(), usize::from(r.rdlen())));
                        }
                        Err(_) => {
                            t.ev("rerr");
                            break;
                        }
                    }
                }
                let _ = write!(t.s, "s{}={};", si, n);
            }
            // cross-check against the independent reader when it accepts the whole message
            if let Ok(im) = &indep {
                let mut want = Vec::new();
                for (si, s) in im.sections.iter().enumerate() {
                    for r in s {
                        want.push((si, r.owner.clone(), r.rtype, r.class, r.ttl, r.rdata.len()));
                    }
                }
                if want != all {
                    t.errs.push("sections|records-differ-from-independent-reader".into());
                }
                if qs != im.questions.len() {
                    t.errs.push("sections|question-count-differs-from-independent-reader".into());
                }
            }
        }
        Err(_) => {
            t.ev("sections-err");
            if indep.is_ok() {
                t.errs.push("sections|error-on-message-the-independent-reader-accepts".into());
            }
        }
    }
    // per-section accessors and typed iteration
    for (name, sec) in [("an", m.answer()), ("ns", m.authority()), ("ar", m.additional())] {
        match sec {
            Ok(sec) => {
                let a = sec.limit_to::<A>().take(LIMIT).map(|r| r.is_ok() as u32).sum::<u32>();
                let cn = sec.limit_to::<Cname<_>>().take(LIMIT).map(|r| r.is_ok() as u32).sum::<u32>();
                let so = sec.limit_to_in::<Soa<_>>().take(LIMIT).map(|r| r.is_ok() as u32).sum::<u32>();
                let tx = sec.limit_to::<Txt<_>>().take(LIMIT).map(|r| r.is_ok() as u32).sum::<u32>();
                let op = sec.limit_to::<Opt<_>>().take(LIMIT).map(|r| r.is_ok() as u32).sum::<u32>();
                let all = sec.limit_to::<AllRecordData<_, _>>().take(LIMIT).map(|r| r.is_ok() as u32).sum::<u32>();
                let any = sec.into_records::<AllRecordData<_, _>>().take(LIMIT).map(|r| r.is_ok() as u32).sum::<u32>();
                let _ = write!(t.s, "{name}:{a},{cn},{so},{tx},{op},{all},{any};");
                // next_section chain
                let mut cur = Some(sec);
                let mut hops = 0;
                while let Some(s) = cur {
                    hops += 1;
                    cur = match s.next_section() {
                        Ok(n) => n,
                        Err(_) => {
                            t.ev("next-err");
                            None
                        }
                    };
                    if hops > 5 {
                        t.errs.push("sections|next_section-does-not-end".into());
                        break;
                    }
                }
            }
            Err(_) => t.ev(&format!("{name}-err")),
        }
    }
    // RFC 2136 views of the same sections, slice view, typed iterator hand-over
    {
        let z = m.zone().take(LIMIT).filter(|q| q.is_ok()).count();
        let pr = m.prerequisite().map(|s| s.take(LIMIT).filter(|r| r.is_ok()).count());
        let up = m.update().map(|s| s.take(LIMIT).filter(|r| r.is_ok()).count());
        let _ = write!(t.s, "upd{z}:{:?}:{:?};", pr.ok(), up.ok());
        let sl = m.for_slice();
        if sl.header_counts().as_slice() != m.header_counts().as_slice() {
            t.errs.push("message|for_slice-differs".into());
        }
        if let Ok(an) = m.answer() {
            let p0 = an.pos();
            let mut it = an.limit_to::<A>();
            let mut k = 0;
            while let Some(r) = it.next() {
                k += 1;
                if r.is_err() || k > LIMIT {
                    break;
                }
            }
            let back = it.clone().unwrap();
            let nxt = it.next_section().map(|s| s.map(|s| s.pos()));
            let _ = write!(t.s, "typed{k}:{p0}:{}:{:?};", back.pos(), nxt.ok());
        }
        let mut qs2 = m.question();
        let _ = qs2.next();
        let _ = write!(t.s, "qpos{};", qs2.pos());
    }
    // message iterator
    let mut n = 0;
    for item in m.iter().take(LIMIT) {
        match item {
            Ok((r, sec)) => {
                n += 1;
                let _ = (r.rtype(), sec);
            }
            Err(_) => {
                t.ev("iter-err");
                break;
            }
        }
    }
    let _ = write!(t.s, "it{};", n);
    // every iterator must END, also for a caller that keeps pulling after an error (count(), flatten(),
    // a `continue` in the loop): more items than any message can hold means it never ends
    {
        let mut endless = |what: &str, n: usize| {
            if n >= LIMIT {
                t.errs.push(format!("iterator-never-ends-when-pulled-past-an-error|{what}"));
            }
        };
        endless("Message::iter", m.iter().take(LIMIT).count());
        endless("Message::question", m.question().take(LIMIT).count());
        endless("Message::zone", m.zone().take(LIMIT).count());
        if let Ok(s) = m.answer() {
            endless("RecordSection(answer)", s.take(LIMIT).count());
            endless("RecordIter(answer)", s.limit_to::<AllRecordData<_, _>>().take(LIMIT).count());
            endless("AnyRecordIter(answer)", s.into_records::<AllRecordData<_, _>>().take(LIMIT).count());
        }
        if let Ok(s) = m.authority() {
            endless("RecordSection(authority)", s.take(LIMIT).count());
            endless("RecordIter(authority)", s.limit_to::<Soa<_>>().take(LIMIT).count());
        }
        if let Ok(s) = m.additional() {
            endless("RecordSection(additional)", s.take(LIMIT).count());
            endless("RecordIter(additional)", s.limit_to::<Opt<_>>().take(LIMIT).count());
        }
        if let Ok(s) = m.prerequisite() {
            endless("RecordSection(prerequisite)", s.take(LIMIT).count());
        }
        if let Ok(s) = m.update() {
            endless("RecordSection(update)", s.take(LIMIT).count());
        }
        if let Some(opt) = m.opt() {
            endless("OptIter", opt.opt().iter::<AllOptData<_, _>>().take(LIMIT).count());
        }
    }
    // helpers
    let _ = write!(t.s, "xfr{};", m.is_xfr() as u8);
    if let Some(q) = m.first_question() {
        use_name(t, q.qname(), msg);
    }
    let _ = write!(t.s, "sole{};qt{:?};", m.sole_question().is_ok() as u8, m.qtype().map(|x| x.to_int()));
    let _ = write!(t.s, "ca{};", m.contains_answer::<A>() as u8);
    if let Some(cn) = m.canonical_name() {
        t.ev("canon");
        use_name(t, &cn, msg);
    }
    let _ = write!(t.s, "ia{};", m.is_answer(&m) as u8);
    for other in others() {
        let o = Message::from_octets(other.as_slice()).unwrap();
        let _ = write!(t.s, "{}{}", m.is_answer(&o) as u8, o.is_answer(&m) as u8);
    }
    if let Some(opt) = m.opt() {
        t.ev("opt");
        let _ = (opt.udp_payload_size(), opt.rcode(h), opt.version(), opt.dnssec_ok());
        let mut k = 0;
        for o in opt.opt().iter::<AllOptData<_, _>>().take(LIMIT) {
            k += 1;
            match o {
                Ok(o) => {
                    let _ = format!("{:?}", o);
                    t.rdata_parsed += 1;
                }
                Err(_) => {
                    t.ev("optdata-err");
                }
            }
        }
        let _ = write!(t.s, "o{};", k);
        if t.rd {
            let rec = opt.as_record();
            let _ = write!(t.s, "or{}:{};", format!("{}", rec).len(), format!("{:?}", rec).len());
            deep_opt(t, opt.opt(), msg);
        }
    }
    let _ = write!(t.s, "orc{:?};", m.opt_rcode());
    match m.get_last_additional::<AllRecordData<_, _>>() {
        Some(r) => {
            let _ = write!(t.s, "last{};", r.rtype().to_int());
        }
        None => t.ev("last-none"),
    }
    // copy_records
    let target = MessageBuilder::new_vec().question();
    match m.copy_records(target.answer(), |rr: ParsedRecord<'_, _>| rr.into_record::<AllRecordData<_, ParsedName<_>>>().ok().flatten()) {
        Ok(b) => {
            let out = b.into_message();
            let _ = write!(t.s, "cp{};", out.as_slice().len());
        }
        Err(_) => t.ev("cp-err"),
    }
    // displays
    let dig = format!("{}", m.for_slice_ref().display_dig_style());
    let _ = write!(t.s, "dig{};", dig.len());
    let dbg = format!("{:?}", m);
    let _ = write!(t.s, "dbg{};", dbg.len());
    // XFR interpreter
    let mut interp = XfrResponseInterpreter::new();
    match interp.interpret_response(Message::from_octets(bytes::Bytes::copy_from_slice(msg)).unwrap()) {
        Ok(it) => {
            let mut k = 0;
            for u in it.take(LIMIT) {
                k += 1;
                if u.is_err() {
                    t.ev("xfr-item-err");
                    break;
                }
            }
            let _ = write!(t.s, "xfr-ok{};", k);
        }
        Err(_) => t.ev("xfr-err"),
    }
    // Label::iter_slice from every offset
    let mut tot = 0usize;
    for off in 0..msg.len() {
        let k = Label::iter_slice(msg, off).take(400).count();
        if k >= 400 {
            t.errs.push("iter_slice|does-not-end".into());
            break;
        }
        tot += k;
    }
    let _ = write!(t.s, "is{};", tot);
}

fn record(t: &mut T, r: &ParsedRecord<'_, [u8]>, msg: &[u8]) {
    use domain::base::zonefile_fmt::{DisplayKind, ZonefileFmt};
    let owner = r.owner();
    use_name(t, &owner, msg);
    let _ = write!(t.s, "r{}:{}:{}:{};", r.rtype().to_int(), r.class().to_int(), r.ttl().as_secs(), r.rdlen());
    match r.to_any_record::<AllRecordData<_, ParsedName<_>>>() {
        Ok(rec) => {
            t.rdata_parsed += 1;
            let a = format!("{}", rec);
            let b = format!("{}", rec.display_zonefile(DisplayKind::Simple));
            let c = format!("{}", rec.display_zonefile(DisplayKind::Multiline));
            let d = format!("{}", rec.display_zonefile(DisplayKind::Tabbed));
            let e = format!("{:?}", rec);
            let _ = write!(t.s, "d{},{},{},{},{};", a.len(), b.len(), c.len(), d.len(), e.len());
            // re-compose: must not panic; record equal to itself
            let mut buf = Vec::new();
            let rc = rec.compose(&mut buf);
            let _ = write!(t.s, "rc{}:{};", rc.is_ok() as u8, buf.len());
            if !(rec == rec) {
                t.errs.push("record|not-equal-to-itself".into());
            }
            use domain::base::cmp::CanonicalOrd;
            if rec.canonical_cmp(&rec) != std::cmp::Ordering::Equal {
                t.errs.push("record|canonical_cmp-not-reflexive".into());
            }
            // "whatever is returned as a record can be compared and displayed": total order,
            // hash, canonical form, and the flattened (owned) copy must be equal to the original
            // and compose to the same uncompressed octets
            {
                use domain::base::name::FlattenInto;
                use domain::base::rdata::ComposeRecordData;
                use std::hash::{Hash, Hasher};
                if rec.partial_cmp(&rec) != Some(std::cmp::Ordering::Equal) || rec.cmp(&rec) != std::cmp::Ordering::Equal {
                    t.errs.push("record|cmp-not-reflexive".into());
                }
                let mut h = std::collections::hash_map::DefaultHasher::new();
                rec.hash(&mut h);
                let h1 = h.finish();
                let mut canon = Vec::new();
                let cr = rec.compose_canonical(&mut canon).is_ok();
                let mut cdat = Vec::new();
                let _ = rec.data().compose_canonical_rdata(&mut cdat);
                let _ = write!(t.s, "cc{}:{}:{};", cr as u8, canon.len(), cdat.len());
                type Flat = domain::base::Record<domain::base::Name<Vec<u8>>, AllRecordData<Vec<u8>, domain::base::Name<Vec<u8>>>>;
                let flat: Result<Flat, _> = rec.clone().try_flatten_into();
                match flat {
                    Ok(f) => {
                        let mut h = std::collections::hash_map::DefaultHasher::new();
                        f.hash(&mut h);
                        if h.finish() != h1 {
                            t.errs.push("record|flattened-copy-hashes-differently".into());
                        }
                        let mut b2 = Vec::new();
                        let rc2 = f.compose(&mut b2);
                        if rc.is_ok() != rc2.is_ok() || (rc.is_ok() && b2 != buf) {
                            t.errs.push("record|flattened-copy-composes-differently".into());
                        }
                        let mut c2 = Vec::new();
                        let _ = f.compose_canonical(&mut c2);
                        if cr && c2 != canon {
                            t.errs.push("record|flattened-copy-canonical-form-differs".into());
                        }
                        if f.canonical_cmp(&f) != std::cmp::Ordering::Equal || !(f == f) {
                            t.errs.push("record|flattened-copy-not-equal-to-itself".into());
                        }
                        let _ = format!("{} {:?}", f, f);
                    }
                    Err(_) => t.errs.push("record|flatten-failed".into()),
                }
            }
            // names embedded in the data
            match rec.data() {
                AllRecordData::Cname(x) => use_name(t, x.cname(), msg),
                AllRecordData::Ns(x) => use_name(t, x.nsdname(), msg),
                AllRecordData::Soa(x) => {
                    use_name(t, x.mname(), msg);
                    use_name(t, x.rname(), msg);
                }
                AllRecordData::Mx(x) => use_name(t, x.exchange(), msg),
                AllRecordData::Nsec(x) => {
                    use_name(t, x.next_name(), msg);
                    let k = x.types().iter().take(LIMIT).count();
                    let _ = write!(t.s, "bm{};", k);
                }
                AllRecordData::Nsec3(x) => {
                    let k = x.types().iter().take(LIMIT).count();
                    let _ = write!(t.s, "bm{};", k);
                }
                AllRecordData::Rrsig(x) => use_name(t, x.signer_name(), msg),
                AllRecordData::Srv(x) => use_name(t, x.target(), msg),
                AllRecordData::Txt(x) => {
                    let k = x.iter().take(LIMIT).count();
                    let _ = write!(t.s, "tx{};", k);
                }
                AllRecordData::Svcb(x) => {
                    use_name(t, x.target(), msg);
                    let kr = x.params().iter_raw().take(LIMIT).count();
                    let ka = x.params().iter_all().take(LIMIT).filter(|v| v.is_ok()).count();
                    let _ = (x.params().is_empty(), x.params().len(), x.params().first::<domain::rdata::svcb::value::AllValues<_>>());
                    let _ = write!(t.s, "svr{kr}:{ka};");
                    let k = x.params().iter::<domain::rdata::svcb::value::AllValues<_>>().take(LIMIT).count();
                    let _ = write!(t.s, "sv{};", k);
                }
                AllRecordData::Https(x) => {
                    use_name(t, x.target(), msg);
                    let kr = x.params().iter_raw().take(LIMIT).count();
                    let _ = write!(t.s, "svr{kr};");
                    let k = x.params().iter::<domain::rdata::svcb::value::AllValues<_>>().take(LIMIT).count();
                    let _ = write!(t.s, "sv{};", k);
                }
                _ => {}
            }
            if t.rd {
                deep_rdata(t, rec.data(), msg);
                typed_routes(t, r, Some(rec.data()));
            }
        }
        Err(_) => {
            t.ev("rd-err");
            if t.rd {
                typed_routes(t, r, None);
            }
        }
    }
}

// ------------------------------------------------- deep reads (every accessor)

fn hash_of<H: std::hash::Hash>(x: &H) -> u64 {
    use std::hash::Hasher;
    let mut h = std::collections::hash_map::DefaultHasher::new();
    x.hash(&mut h);
    h.finish()
}

/// The operations every record data type offers: all displays (plain, debug,
/// zone-style in every DisplayKind), hash, comparisons against itself, the
/// composed forms. Oracle: nothing fails, a value is equal to itself, hashes
/// the same twice; the lengths go into the transcript (same twice).
fn rdata_common<D>(t: &mut T, d: &D)
where
    D: serde::Serialize + std::fmt::Display + std::fmt::Debug + domain::base::zonefile_fmt::ZonefileFmt + std::hash::Hash + PartialEq + PartialOrd + domain::base::cmp::CanonicalOrd + domain::base::rdata::ComposeRecordData,
{
    use domain::base::zonefile_fmt::DisplayKind;
    use std::cmp::Ordering::Equal;
    t.deep_reads += 1;
    let rt = d.rtype().to_int();
    let a = format!("{}", d).len();
    let b = format!("{:?}", d).len();
    let z1 = format!("{}", d.display_zonefile(DisplayKind::Simple)).len();
    let z2 = format!("{}", d.display_zonefile(DisplayKind::Tabbed)).len();
    let z3 = format!("{}", d.display_zonefile(DisplayKind::Multiline)).len();
    if hash_of(d) != hash_of(d) {
        t.errs.push(format!("rdata|type-{rt}|hash-differs-between-two-calls"));
    }
    if !(d == d) || d.partial_cmp(d) != Some(Equal) || d.canonical_cmp(d) != Equal {
        t.errs.push(format!("rdata|type-{rt}|not-equal-to-itself"));
    }
    let mut w = Vec::new();
    let rc = d.compose_rdata(&mut w).is_ok();
    let mut c = Vec::new();
    let cc = d.compose_canonical_rdata(&mut c).is_ok();
    let mut lw = Vec::new();
    let lc = d.compose_len_rdata(&mut lw).is_ok();
    let mut lcw = Vec::new();
    let _ = d.compose_canonical_len_rdata(&mut lcw);
    let rl = d.rdlen(false);
    let _ = d.rdlen(true);
    let js = serde_json::to_string(d).map(|j| j.len()).ok();
    let _ = write!(t.s, "D{rt}:{js:?}:{a},{b},{z1},{z2},{z3},{}{}{},{},{},{:?};", rc as u8, cc as u8, lc as u8, w.len(), c.len(), rl);
}

fn charstr(t: &mut T, c: &domain::base::charstr::CharStr<&[u8]>) {
    let k = c.iter().take(LIMIT).count();
    let a = format!("{}", c).len();
    let q = format!("{}", c.display_quoted()).len();
    let u = format!("{}", c.display_unquoted()).len();
    let _ = format!("{:?}", c);
    let mut b = Vec::new();
    let _ = c.compose(&mut b);
    if c.len() != c.as_slice().len() || k != c.len() || c.is_empty() != (k == 0) || usize::from(c.compose_len()) != b.len() {
        t.errs.push("rdata|character-string|length-accessors-disagree".into());
    }
    if !(c == c) || hash_of(c) != hash_of(c) || c.for_slice().as_slice() != c.as_slice() {
        t.errs.push("rdata|character-string|not-equal-to-itself".into());
    }
    let _ = write!(t.s, "cs{k},{a},{q},{u};");
}

fn bitmap(t: &mut T, b: &domain::rdata::dnssec::RtypeBitmap<&[u8]>) {
    use domain::base::Rtype;
    let items: Vec<u16> = b.iter().take(LIMIT).map(|r| r.to_int()).collect();
    if items.len() >= LIMIT {
        t.errs.push("rdata|type-bitmap|iteration-does-not-end".into());
        return;
    }
    // contains() agrees with iter() on a menu of types (window edges, first/last bit of an octet)
    // (RFC 4034 4.1.2 wants the window blocks in increasing order; the answers are only compared for
    // such bitmaps, on any other the calls just have to return)
    let raw = b.as_slice();
    let (mut p, mut last, mut ordered) = (0usize, -1i32, true);
    while p + 1 < raw.len() {
        ordered &= i32::from(raw[p]) > last;
        last = i32::from(raw[p]);
        p += 2 + usize::from(raw[p + 1]);
    }
    for rt in [0u16, 1, 2, 7, 8, 46, 47, 255, 256, 257, 0x7FFF, 0xFF00, 0xFFFF] {
        if b.contains(Rtype::from_int(rt)) != items.contains(&rt) && ordered {
            t.errs.push("rdata|type-bitmap|contains-disagrees-with-iteration".into());
            break;
        }
    }
    if b.is_empty() != items.is_empty() {
        t.errs.push("rdata|type-bitmap|is_empty-disagrees-with-iteration".into());
    }
    let a = format!("{}", b).len();
    let _ = format!("{:?}", b);
    let _ = (b.as_octets(), hash_of(b), b == b);
    let _ = write!(t.s, "bm{}:{a};", items.len());
}

/// Every public read-side method of every record data type, on the value the
/// any-route handed out.
fn deep_rdata(t: &mut T, data: &AllRecordData<&[u8], ParsedName<&[u8]>>, msg: &[u8]) {
    use domain::base::cmp::CanonicalOrd;
    use domain::rdata::tsig::Time48;
    use AllRecordData as R;
    match data {
        R::A(x) => {
            let _ = write!(t.s, "a{};", x.addr());
        }
        R::Aaaa(x) => {
            let _ = write!(t.s, "a{};", x.addr());
        }
        R::Hinfo(x) => {
            charstr(t, x.cpu());
            charstr(t, x.os());
        }
        R::Mb(x) => use_name(t, x.madname(), msg),
        R::Md(x) => use_name(t, x.madname(), msg),
        R::Mf(x) => use_name(t, x.madname(), msg),
        R::Mg(x) => use_name(t, x.madname(), msg),
        R::Mr(x) => use_name(t, x.newname(), msg),
        R::Ptr(x) => use_name(t, x.ptrdname(), msg),
        R::Dname(x) => use_name(t, x.dname(), msg),
        R::Minfo(x) => {
            use_name(t, x.rmailbx(), msg);
            use_name(t, x.emailbx(), msg);
        }
        R::Rp(x) => {
            use_name(t, x.mbox(), msg);
            use_name(t, x.txt(), msg);
        }
        R::Mx(x) => {
            let _ = write!(t.s, "mx{};", x.preference());
        }
        R::Soa(x) => {
            let _ = write!(t.s, "soa{}:{}:{}:{}:{};", x.serial(), x.refresh().as_secs(), x.retry().as_secs(), x.expire().as_secs(), x.minimum().as_secs());
        }
        R::Srv(x) => {
            let _ = write!(t.s, "srv{}:{}:{};", x.priority(), x.weight(), x.port());
        }
        R::Txt(x) => {
            let n = x.iter().take(LIMIT).map(|s| s.len()).sum::<usize>();
            let k = x.iter_charstrs().take(LIMIT).count();
            for c in x.iter_charstrs().take(8) {
                let _ = (c.len(), format!("{}", c));
            }
            let flat = x.as_flat_slice().map(|s| s.len());
            let text: Vec<u8> = x.text();
            let tt: Result<Vec<u8>, _> = x.try_text();
            if text.len() != n || tt.map(|v| v.len()).ok() != Some(n) {
                t.errs.push("rdata|type-16|text-differs-from-concatenated-strings".into());
            }
            let _ = write!(t.s, "txt{k}:{n}:{}:{:?};", x.len(), flat);
        }
        R::Null(x) => {
            let _ = write!(t.s, "null{}:{}:{};", x.len(), x.is_empty() as u8, x.data().len());
        }
        R::Caa(x) => {
            let f = x.flags();
            let tag = x.tag();
            let _ = (format!("{} {:?}", f, f), format!("{} {:?}", tag, tag), hash_of(tag), tag == tag);
            let mut tw = Vec::new();
            let _ = tag.compose(&mut tw);
            let _ = write!(t.s, "caa{}:{}:{}:{};", f.bits(), tag.compose_len(), tw.len(), x.value().len());
        }
        R::Dnskey(x) => {
            let alg = x.algorithm();
            let _ = (alg.to_mnemonic(), format!("{} {:?}", alg, alg));
            let _ = write!(t.s, "key{}:{}:{}:{}:{}{}{}:{};", x.flags(), x.protocol(), alg.to_int(), x.public_key().len(), x.is_revoked() as u8, x.is_secure_entry_point() as u8, x.is_zone_key() as u8, x.key_tag());
            let _ = x.clone().into_public_key();
        }
        R::Cdnskey(x) => {
            let alg = x.algorithm();
            let _ = (alg.to_mnemonic(), format!("{} {:?}", alg, alg));
            let _ = write!(t.s, "ckey{}:{}:{}:{};", x.flags(), x.protocol(), alg.to_int(), x.public_key().len());
        }
        R::Ds(x) => {
            let (alg, dt) = (x.algorithm(), x.digest_type());
            let _ = (format!("{} {:?}", alg, alg), format!("{} {:?}", dt, dt), dt.to_mnemonic());
            let _ = write!(t.s, "ds{}:{}:{}:{};", x.key_tag(), alg.to_int(), dt.to_int(), x.digest().len());
            let _ = x.clone().into_digest();
        }
        R::Cds(x) => {
            let (alg, dt) = (x.algorithm(), x.digest_type());
            let _ = (format!("{} {:?}", alg, alg), format!("{} {:?}", dt, dt), dt.to_mnemonic());
            let _ = write!(t.s, "cds{}:{}:{}:{};", x.key_tag(), alg.to_int(), dt.to_int(), x.digest().len());
            let _ = x.clone().into_digest();
        }
        R::Rrsig(x) => {
            let (exp, inc) = (x.expiration(), x.inception());
            let _ = (format!("{} {:?}", exp, exp), format!("{} {:?}", inc, inc), exp == inc, exp.partial_cmp(&inc), exp.canonical_cmp(&inc));
            // Timestamp::to_system_time: "a duration since UNIX_EPOCH that modulo 2**32 is equal to our value"
            for reference in [0u64, 0x7FFF_FFFF, 0x8000_0000, 0xFFFF_FFFF, 0x1_0000_0005, 1_700_000_000, 0x2_8000_0000] {
                for ts in [exp, inc] {
                    let st = ts.to_system_time(std::time::UNIX_EPOCH + Duration::from_secs(reference));
                    if st.duration_since(std::time::UNIX_EPOCH).map(|d| d.as_secs() as u32).ok() != Some(ts.into_int()) {
                        t.errs.push("rdata|type-46|signature-time-as-system-time-is-not-congruent-to-the-field".into());
                    }
                }
            }
            let alg = x.algorithm();
            let _ = format!("{} {} {:?}", x.type_covered(), alg, alg);
            let _ = write!(t.s, "sig{}:{}:{}:{}:{}:{}:{}:{};", x.type_covered().to_int(), alg.to_int(), x.labels(), x.original_ttl().as_secs(), exp.into_int(), inc.into_int(), x.key_tag(), x.signature().len());
        }
        R::Nsec(x) => bitmap(t, x.types()),
        R::Nsec3(x) => {
            let ha = x.hash_algorithm();
            let (salt, next) = (x.salt(), x.next_owner());
            let a = format!("{} {:?} {}", salt, salt, ha).len();
            let b = format!("{} {:?}", next, next).len();
            let _ = (hash_of(salt), hash_of(next), salt == salt, next == next, salt.partial_cmp(salt), next.partial_cmp(next), salt.canonical_cmp(salt), next.canonical_cmp(next));
            let _ = write!(t.s, "n3:{}:{}:{}{}:{}:{}:{}:{a}:{b};", ha.to_int(), x.flags(), x.opt_out() as u8, x.iterations(), salt.as_slice().len(), next.as_slice().len(), x.types().as_slice().len());
            bitmap(t, x.types());
        }
        R::Nsec3param(x) => {
            let ha = x.hash_algorithm();
            let salt = x.salt();
            let a = format!("{} {:?} {}", salt, salt, ha).len();
            let _ = (hash_of(salt), salt == salt, salt.partial_cmp(salt));
            let _ = write!(t.s, "n3p:{}:{}:{}:{}:{}:{a};", ha.to_int(), x.flags(), x.opt_out_flag() as u8, x.iterations(), salt.as_slice().len());
            let _ = x.clone().into_salt();
        }
        R::Tlsa(x) => {
            let (u, s, m) = (x.usage(), x.selector(), x.matching_type());
            let _ = (format!("{} {:?} {} {:?} {} {:?}", u, u, s, s, m, m), u.to_mnemonic(), s.to_mnemonic(), m.to_mnemonic());
            let _ = write!(t.s, "tlsa{}:{}:{}:{};", u.to_int(), s.to_int(), m.to_int(), x.data().len());
        }
        R::Sshfp(x) => {
            let (a, f) = (x.algorithm(), x.fingerprint_type());
            let _ = (format!("{} {:?} {} {:?}", a, a, f, f), a.to_mnemonic(), f.to_mnemonic());
            let _ = write!(t.s, "sshfp{}:{}:{};", a.to_int(), f.to_int(), x.fingerprint().len());
        }
        R::Ipseckey(x) => {
            use domain::rdata::ipseckey::IpseckeyGateway as G;
            let (gt, al) = (x.gateway_type(), x.algorithm());
            let _ = format!("{} {:?} {} {:?}", gt, gt, al, al);
            let gw = x.gateway();
            let kind = match gw {
                G::None => 0,
                G::Ipv4(a) => {
                    let _ = a.addr();
                    1
                }
                G::Ipv6(a) => {
                    let _ = a.addr();
                    2
                }
                G::Name(n) => {
                    use_name(t, n, msg);
                    3
                }
            };
            let _ = format!("{:?}", gw);
            if !gw.is_correct_gateway_type(gt) {
                t.errs.push("rdata|type-45|gateway-does-not-match-its-gateway-type".into());
            }
            let _ = write!(t.s, "ipsec{}:{}:{}:{kind}:{}:{};", x.precedence(), gt.to_int(), al.to_int(), gw.rdlen(), x.key().len());
        }
        R::Zonemd(x) => {
            let (s, a) = (x.scheme(), x.algorithm());
            let _ = format!("{} {:?} {} {:?}", s, s, a, a);
            let _ = write!(t.s, "zmd{}:{}:{}:{};", x.serial(), s.to_int(), a.to_int(), x.digest().len());
        }
        R::Openpgpkey(x) => {
            let _ = write!(t.s, "pgp{};", x.key().len());
        }
        R::Naptr(x) => {
            charstr(t, x.flags());
            charstr(t, x.services());
            charstr(t, x.regexp());
            use_name(t, x.replacement(), msg);
            let _ = write!(t.s, "naptr{}:{};", x.order(), x.preference());
        }
        R::Tsig(x) => {
            use_name(t, x.algorithm(), msg);
            let ts = x.time_signed();
            let _ = (format!("{} {:?}", ts, ts), ts.into_octets(), hash_of(&ts));
            let ot = x.other_time();
            let er = x.error();
            let _ = format!("{} {:?}", er, er);
            let mut valid = 0u32;
            for now in [0u64, 1, 299, 300, 301, 0x7FFF_FFFF, 0xFFFF_FFFF, 0xFFFF_FFFF_FFFF] {
                valid = valid * 2 + x.is_valid_at(Time48::from_u64(now)) as u32;
            }
            if x.mac_slice().len() != x.mac().len() {
                t.errs.push("rdata|type-250|mac_slice-differs-from-mac".into());
            }
            let _ = write!(t.s, "tsig{}:{}:{}:{}:{}:{}:{:?}:{valid};", ts.into_octets().len(), x.fudge(), x.mac().len(), x.original_id(), er.to_int(), x.other().len(), ot.map(|o| o.into_octets()));
            let _ = x.clone().into_mac();
        }
        R::Svcb(x) => {
            let _ = write!(t.s, "svcb{}:{}{};", x.priority(), x.is_alias() as u8, x.is_service() as u8);
            svc_params(t, x.params());
        }
        R::Https(x) => {
            let _ = write!(t.s, "https{}:{}{};", x.priority(), x.is_alias() as u8, x.is_service() as u8);
            svc_params(t, x.params());
        }
        R::Opt(x) => deep_opt(t, x, msg),
        R::Unknown(x) => {
            let _ = write!(t.s, "unk{}:{};", x.rtype().to_int(), x.data().len());
        }
        // names and data of these are exercised by record()
        R::Cname(_) | R::Ns(_) => {}
        _ => {}
    }
}

fn svc_params(t: &mut T, p: &domain::rdata::svcb::SvcParams<&[u8]>) {
    use domain::rdata::svcb::value::{self as v, AllValues as V};
    use domain::rdata::svcb::ComposeSvcParamValue;
    use domain::rdata::svcb::SvcParamValue;
    let a = format!("{}", p).len();
    let _ = format!("{:?}", p);
    let _ = (hash_of(p), p == p, p.for_slice().len(), p.as_octets().len());
    if p.len() != p.as_slice().len() || p.is_empty() != p.as_slice().is_empty() {
        t.errs.push("rdata|svc-params|length-accessors-disagree".into());
    }
    let mut k = 0;
    for item in p.iter_all().take(LIMIT) {
        k += 1;
        let val = match item {
            Ok(val) => val,
            Err(_) => {
                t.ev("svp-err");
                continue;
            }
        };
        let d = format!("{}", val).len();
        let _ = format!("{:?}", val);
        let mut w = Vec::new();
        let _ = val.compose_value(&mut w);
        let _ = (hash_of(&val), val == val);
        let n = match &val {
            V::Mandatory(m) => m.iter().take(LIMIT).map(|key| key.to_int() as usize % 7 + 1).sum::<usize>() + format!("{}", m).len(),
            V::Alpn(m) => m.iter().take(LIMIT).map(|id| id.len() + 1).sum::<usize>() + format!("{}", m).len(),
            V::NoDefaultAlpn(m) => format!("{}", m).len(),
            V::Port(m) => m.port() as usize + format!("{}", m).len(),
            V::Ech(m) => m.as_slice().len() + format!("{}", m).len(),
            V::Ipv4Hint(m) => m.iter().take(LIMIT).map(|a| a.octets()[3] as usize + 1).sum::<usize>() + format!("{}", m).len(),
            V::Ipv6Hint(m) => m.iter().take(LIMIT).map(|a| a.octets()[15] as usize + 1).sum::<usize>() + format!("{}", m).len(),
            V::DohPath(m) => m.as_slice().len() + format!("{}", m).len(),
            V::Ohttp(m) => format!("{}", m).len(),
            V::TlsSupportedGroups(m) => m.iter().take(LIMIT).map(|g| g as usize % 7 + 1).sum::<usize>() + format!("{}", m).len(),
            V::Unknown(m) => m.as_slice().len() + m.value().len() + format!("{}", m).len(),
        };
        let _ = write!(t.s, "sp{}:{}:{d}:{n}:{};", val.key().to_int(), val.compose_len(), w.len());
    }
    // the typed getters and typed iterators
    let g = [
        p.mandatory().map(|m| m.iter().take(LIMIT).count()),
        p.alpn().map(|m| m.iter().take(LIMIT).count()),
        p.port().map(|m| m.port() as usize),
        p.ech().map(|m| m.as_slice().len()),
        p.ipv4hint().map(|m| m.iter().take(LIMIT).count()),
        p.ipv6hint().map(|m| m.iter().take(LIMIT).count()),
        p.dohpath().map(|m| m.as_slice().len()),
        p.tls_supported_groups().map(|m| m.iter().take(LIMIT).count()),
        Some(p.no_default_alpn() as usize),
        Some(p.ohttp() as usize),
    ];
    let it = [
        p.iter::<v::Mandatory<_>>().take(LIMIT).filter(|r| r.is_ok()).count(),
        p.iter::<v::Alpn<_>>().take(LIMIT).filter(|r| r.is_ok()).count(),
        p.iter::<v::Port>().take(LIMIT).filter(|r| r.is_ok()).count(),
        p.iter::<v::Ech<_>>().take(LIMIT).filter(|r| r.is_ok()).count(),
        p.iter::<v::Ipv4Hint<_>>().take(LIMIT).filter(|r| r.is_ok()).count(),
        p.iter::<v::Ipv6Hint<_>>().take(LIMIT).filter(|r| r.is_ok()).count(),
        p.iter::<v::DohPath<_>>().take(LIMIT).filter(|r| r.is_ok()).count(),
        p.iter::<v::TlsSupportedGroups<_>>().take(LIMIT).filter(|r| r.is_ok()).count(),
        p.iter::<v::NoDefaultAlpn>().take(LIMIT).filter(|r| r.is_ok()).count(),
        p.iter::<v::Ohttp>().take(LIMIT).filter(|r| r.is_ok()).count(),
    ];
    let _ = write!(t.s, "svp{k}:{a}:{:?}:{:?};", g, it);
}

/// What every option type offers: displays, the composed form and its
/// announced length (the OPTION-LENGTH a builder writes in front of it).
fn opt_common<O>(t: &mut T, o: &O) -> usize
where
    O: domain::base::opt::ComposeOptData + std::fmt::Display + std::fmt::Debug,
{
    t.deep_reads += 1;
    let a = format!("{}", o).len();
    let b = format!("{:?}", o).len();
    let mut w = Vec::new();
    let _ = o.compose_option(&mut w);
    if usize::from(o.compose_len()) != w.len() {
        t.errs.push(format!("opt|option-{}|compose_len-differs-from-composed-octets", o.code().to_int()));
    }
    let _ = write!(t.s, "O{}:{a},{b},{};", o.code().to_int(), w.len());
    w.len()
}

/// Every read route to the options of one OPT record: the any-option
/// iterator with every accessor of every option type, the raw iterator
/// against an independent TLV walk (RFC 6891 6.1.2), one typed iterator and
/// first::<T>() per option type, the typed getters.
fn deep_opt(t: &mut T, opt: &Opt<&[u8]>, msg: &[u8]) {
    use domain::base::opt::{self as o, AllOptData as A, OptData, UnknownOptData};
    let mut rawv = Vec::new();
    let _ = domain::base::rdata::ComposeRecordData::compose_rdata(opt, &mut rawv);
    let raw: &[u8] = &rawv;
    if opt.len() != raw.len() || opt.is_empty() != raw.is_empty() || opt.for_slice_ref().len() != raw.len() {
        t.errs.push("opt|length-accessors-disagree".into());
    }
    // independent walk: (code, data)*, then an error if octets are left that are no complete option
    let mut want: Vec<Option<(u16, &[u8])>> = Vec::new();
    let mut p = 0usize;
    while p < raw.len() {
        if raw.len() - p < 4 {
            want.push(None);
            break;
        }
        let code = u16::from_be_bytes([raw[p], raw[p + 1]]);
        let len = usize::from(u16::from_be_bytes([raw[p + 2], raw[p + 3]]));
        if raw.len() - p - 4 < len {
            want.push(None);
            break;
        }
        want.push(Some((code, &raw[p + 4..p + 4 + len])));
        p += 4 + len;
    }
    let got: Vec<Option<(u16, &[u8])>> = opt.iter::<UnknownOptData<_>>().take(LIMIT).map(|r| r.ok().map(|u| (u.code().to_int(), *u.data()))).collect();
    if got != want {
        t.errs.push("opt|raw-option-iteration-differs-from-independent-TLV-walk".into());
    }
    for u in opt.iter::<UnknownOptData<_>>().take(LIMIT).flatten() {
        let n = opt_common(t, &u);
        if u.as_slice().len() != n {
            t.errs.push("opt|raw-option|as_slice-differs-from-composed-octets".into());
        }
    }
    // the any-option iterator: never more items than options, an item's code is that option's code
    let mut k = 0usize;
    for item in opt.iter::<A<_, _>>().take(LIMIT) {
        let idx = k;
        k += 1;
        let item = match item {
            Ok(item) => item,
            Err(_) => {
                t.ev("O-err");
                continue;
            }
        };
        match want.get(idx) {
            Some(Some((code, _))) if *code == item.code().to_int() => {}
            _ => t.errs.push("opt|any-option-iteration|item-is-not-the-option-at-its-position".into()),
        }
        let _ = format!("{:?}", item);
        let mut w = Vec::new();
        let _ = domain::base::opt::ComposeOptData::compose_option(&item, &mut w);
        if usize::from(domain::base::opt::ComposeOptData::compose_len(&item)) != w.len() {
            t.errs.push(format!("opt|option-{}|compose_len-differs-from-composed-octets", item.code().to_int()));
        }
        match &item {
            A::Nsid(x) => {
                opt_common(t, x);
                let _ = (x.as_slice().len(), x.as_octets().len(), x.for_slice().as_slice().len(), hash_of(x), x == x, x.partial_cmp(x));
            }
            A::Dau(x) => {
                opt_common(t, x);
                let n = x.iter().take(LIMIT).map(|a| a.to_int() as usize + 1).sum::<usize>();
                let _ = (x.as_slice().len(), x.for_slice().as_slice().len(), hash_of(x), x == x);
                let _ = write!(t.s, "alg{n};");
            }
            A::Dhu(x) => {
                opt_common(t, x);
                let n = x.iter().take(LIMIT).map(|a| a.to_int() as usize + 1).sum::<usize>();
                let _ = (x.as_slice().len(), hash_of(x), x == x);
                let _ = write!(t.s, "alg{n};");
            }
            A::N3u(x) => {
                opt_common(t, x);
                let n = x.iter().take(LIMIT).map(|a| a.to_int() as usize + 1).sum::<usize>();
                let _ = (x.as_slice().len(), hash_of(x), x == x);
                let _ = write!(t.s, "alg{n};");
            }
            A::ClientSubnet(x) => {
                opt_common(t, x);
                let _ = (hash_of(x), x == x, x.partial_cmp(x));
                let _ = write!(t.s, "ecs{}:{}:{};", x.source_prefix_len(), x.scope_prefix_len(), x.addr());
            }
            A::Expire(x) => {
                opt_common(t, x);
                let _ = (hash_of(x), x == x, x.partial_cmp(x));
                let _ = write!(t.s, "exp{:?};", x.expire());
            }
            A::Cookie(x) => {
                opt_common(t, x);
                cookie(t, x);
            }
            A::TcpKeepalive(x) => {
                opt_common(t, x);
                let _ = (hash_of(x), x == x, x.partial_cmp(x));
                let to = x.timeout();
                let _ = write!(t.s, "ka{:?};", to.map(|i| (format!("{} {:?}", i, i).len(), u16::from(i), std::time::Duration::from(i).as_millis())));
            }
            A::Padding(x) => {
                opt_common(t, x);
                let _ = (x.as_slice().len(), x.as_octets().len());
            }
            A::Chain(x) => {
                opt_common(t, x);
                let _ = (hash_of(x), x == x, x.partial_cmp(x));
                let n = x.start();
                let labels = n.iter().take(300).count();
                let _ = write!(t.s, "chain{}:{labels}:{};", n.as_slice().len(), format!("{} {:?}", n, n).len());
            }
            A::KeyTag(x) => {
                opt_common(t, x);
                let n = x.iter().take(LIMIT).map(|v| v as usize + 1).sum::<usize>();
                let _ = (x.as_slice().len(), x.as_octets().len(), hash_of(x), x == x, x.partial_cmp(x));
                let _ = write!(t.s, "kt{n};");
            }
            A::ExtendedError(x) => {
                opt_common(t, x);
                let code = x.code();
                let _ = (format!("{} {:?}", code, code), code.to_mnemonic(), hash_of(x), x == x);
                let text = match x.text() {
                    None => 0,
                    Some(Ok(s)) => 1 + s.as_slice().len() + format!("{}", s).len(),
                    Some(Err(b)) => 100_000 + b.len(),
                };
                let _ = write!(t.s, "ede{}:{}:{text}:{:?};", code.to_int(), x.is_private() as u8, x.text_slice().map(|s| s.len()));
            }
            A::Other(x) => {
                opt_common(t, x);
                let _ = write!(t.s, "oth{}:{};", x.code().to_int(), x.data().len());
            }
            _ => {}
        }
    }
    // one typed iterator and first() per option type; the typed getters
    macro_rules! typed {
        ($($ty:ty),*) => {
            [$({
                let n = opt.iter::<$ty>().take(LIMIT).map(|r| if r.is_ok() { 1usize } else { 1000 }).sum::<usize>();
                let first = opt.first::<$ty>();
                if let Some(f) = &first {
                    opt_common(t, f);
                }
                n * 2 + first.is_some() as usize
            }),*]
        };
    }
    let ty = typed!(o::Nsid<_>, o::Dau<_>, o::Dhu<_>, o::N3u<_>, o::ClientSubnet, o::Expire, o::Cookie, o::TcpKeepalive, o::Padding<_>, o::Chain<domain::base::Name<_>>, o::KeyTag<_>, o::ExtendedError<_>);
    let getters = [
        opt.nsid().map(|x| x.as_slice().len()),
        opt.dau().map(|x| x.iter().take(LIMIT).count()),
        opt.dhu().map(|x| x.iter().take(LIMIT).count()),
        opt.n3u().map(|x| x.iter().take(LIMIT).count()),
        opt.client_subnet().map(|x| x.source_prefix_len() as usize),
        opt.expire().map(|x| x.expire().is_some() as usize),
        opt.cookie().map(|x| {
            cookie(t, &x);
            x.server().is_some() as usize
        }),
        opt.tcp_keepalive().map(|x| x.timeout().is_some() as usize),
        opt.chain().map(|x| x.start().as_slice().len()),
        opt.key_tag().map(|x| x.iter().take(LIMIT).count()),
        opt.extended_error().map(|x| x.code().to_int() as usize),
    ];
    let _ = write!(t.s, "Ot{k}:{:?}:{:?};", ty, getters);
    let _ = msg;
}

fn cookie(t: &mut T, x: &domain::base::opt::Cookie) {
    let _ = (hash_of(x), x == x, x.partial_cmp(x));
    let cl = x.client();
    let a = format!("{} {:?}", cl, cl).len() + cl.into_octets().len() + (hash_of(&cl) & 1) as usize;
    let srv = match x.server() {
        None => 0,
        Some(s) => {
            let sl: &[u8] = s.as_ref();
            let mut w = Vec::new();
            let _ = s.compose(&mut w);
            if usize::from(s.compose_len()) != w.len() || w != sl {
                t.errs.push("opt|option-10|server-cookie-composes-differently-from-its-octets".into());
            }
            let _ = (hash_of(s), s == s, s.partial_cmp(s));
            let std = match s.try_to_standard() {
                None => 0,
                Some(st) => 1 + format!("{} {:?}", st, st).len() + st.version() as usize + st.reserved().len() + st.timestamp().into_int() as usize % 7 + st.hash().len(),
            };
            1000 * (1 + sl.len()) + format!("{} {:?}", s, s).len() + std
        }
    };
    let ip: std::net::IpAddr = std::net::Ipv4Addr::new(192, 0, 2, 1).into();
    let ok = x.check_server_hash(ip, &[7u8; 16], |_| true);
    let _ = write!(t.s, "ck{a}:{srv}:{};", ok as u8);
}

/// The typed route to the record data (`to_record::<T>()` with the type that
/// belongs to the record type) against the any-route (`AllRecordData`): both
/// succeed or both fail, and they hand out equal values. The typed value goes
/// through the common battery.
fn typed_routes(t: &mut T, r: &ParsedRecord<'_, [u8]>, any: Option<&AllRecordData<&[u8], ParsedName<&[u8]>>>) {
    use domain::base::iana::Rtype;
    use domain::rdata::*;
    macro_rules! typed {
        ($variant:ident, $ty:ty) => {{
            match r.to_record::<$ty>() {
                Ok(Some(rec)) => {
                    rdata_common(t, rec.data());
                    match any {
                        Some(AllRecordData::$variant(x)) => {
                            if !(x == rec.data()) || hash_of(x) != hash_of(rec.data()) {
                                t.errs.push(format!("rdata|type-{}|typed-route-and-any-route-hand-out-different-values", r.rtype().to_int()));
                            }
                        }
                        Some(_) => t.errs.push(format!("rdata|type-{}|any-route-hands-out-another-type", r.rtype().to_int())),
                        None => {}
                    }
                    1
                }
                Ok(None) => 2,
                Err(_) => 0,
            }
        }};
    }
    let st = match r.rtype() {
        Rtype::A => typed!(A, A),
        Rtype::AAAA => typed!(Aaaa, Aaaa),
        Rtype::CNAME => typed!(Cname, Cname<_>),
        Rtype::HINFO => typed!(Hinfo, Hinfo<_>),
        Rtype::MB => typed!(Mb, Mb<_>),
        Rtype::MD => typed!(Md, Md<_>),
        Rtype::MF => typed!(Mf, Mf<_>),
        Rtype::MG => typed!(Mg, Mg<_>),
        Rtype::MINFO => typed!(Minfo, Minfo<_>),
        Rtype::MR => typed!(Mr, Mr<_>),
        Rtype::MX => typed!(Mx, Mx<_>),
        Rtype::NS => typed!(Ns, Ns<_>),
        Rtype::PTR => typed!(Ptr, Ptr<_>),
        Rtype::SOA => typed!(Soa, Soa<_>),
        Rtype::TXT => typed!(Txt, Txt<_>),
        Rtype::NULL => typed!(Null, Null<_>),
        Rtype::CAA => typed!(Caa, Caa<_>),
        Rtype::CDNSKEY => typed!(Cdnskey, Cdnskey<_>),
        Rtype::CDS => typed!(Cds, Cds<_>),
        Rtype::DNAME => typed!(Dname, Dname<_>),
        Rtype::DNSKEY => typed!(Dnskey, Dnskey<_>),
        Rtype::RRSIG => typed!(Rrsig, Rrsig<_, _>),
        Rtype::NSEC => typed!(Nsec, Nsec<_, _>),
        Rtype::DS => typed!(Ds, Ds<_>),
        Rtype::NAPTR => typed!(Naptr, Naptr<_, _>),
        Rtype::NSEC3 => typed!(Nsec3, Nsec3<_>),
        Rtype::NSEC3PARAM => typed!(Nsec3param, Nsec3param<_>),
        Rtype::RP => typed!(Rp, Rp<_>),
        Rtype::SRV => typed!(Srv, Srv<_>),
        Rtype::SVCB => typed!(Svcb, Svcb<_, _>),
        Rtype::HTTPS => typed!(Https, Https<_, _>),
        Rtype::TSIG => typed!(Tsig, Tsig<_, _>),
        Rtype::OPT => typed!(Opt, Opt<_>),
        _ => 3,
    };
    match (st, any.is_some()) {
        (1, true) | (0, false) | (3, _) => {}
        (2, _) => t.errs.push(format!("rdata|type-{}|typed-route-declines-its-own-record-type", r.rtype().to_int())),
        (1, false) => t.errs.push(format!("rdata|type-{}|typed-route-parses-what-the-any-route-rejects", r.rtype().to_int())),
        _ => t.errs.push(format!("rdata|type-{}|any-route-parses-what-the-typed-route-rejects", r.rtype().to_int())),
    }
    // the zone-data route: all zone types, everything else in raw form
    let pseudo = matches!(r.rtype(), Rtype::OPT | Rtype::TSIG | Rtype::NULL);
    let zs = match r.to_record::<ZoneRecordData<_, _>>() {
        Ok(Some(rec)) => {
            rdata_common(t, rec.data());
            if let (Some(any), false) = (any, pseudo) {
                if format!("{}", rec.data()) != format!("{}", any) || domain::base::rdata::RecordData::rtype(rec.data()) != r.rtype() {
                    t.errs.push(format!("rdata|type-{}|zone-data-route-and-any-route-display-differently", r.rtype().to_int()));
                }
            }
            1
        }
        Ok(None) => 2,
        Err(_) => 0,
    };
    if !pseudo && zs != any.is_some() as u8 {
        t.errs.push(format!("rdata|type-{}|zone-data-route-and-any-route-disagree-on-acceptance", r.rtype().to_int()));
    }
    let _ = write!(t.s, "ty{st}{zs};");
}

fn others() -> &'static [Vec<u8>; 2] {
    static O: std::sync::OnceLock<[Vec<u8>; 2]> = std::sync::OnceLock::new();
    O.get_or_init(|| {
        // a plain query for a./A with ID 0, and one with qdcount 1 and ID 0x1234
        let mut q1 = vec![0, 0, 0, 0, 0, 1, 0, 0, 0, 0, 0, 0];
        q1.extend_from_slice(&[1, b'a', 0, 0, 1, 0, 1]);
        let mut q2 = vec![0x12, 0x34, 1, 0, 0, 1, 0, 0, 0, 0, 0, 0];
        q2.extend_from_slice(&[0, 0, 1, 0, 1]);
        [q1, q2]
    })
}

/// Runs the script twice; returns (transcript hash, errors, stats).
fn run_case(ctx: &Ctx, stats: &Stats, wd: &Watchdog, msg: &[u8], family: &str) {
    stats.eval();
    wd.enter(|| json!({"message": hex(msg), "family": family}));
    let mut results = Vec::new();
    // The label-count family (names of 126..129 labels) keeps the quick-tier battery in both
    // tiers: the full battery on every derived object is cubic in the label count and takes
    // longer than the hang watchdog allows for one case (first thorough run: false hang).
    let wide = !ctx.quick() && family != "label-count";
    let rich = wide || matches!(family, "one-item" | "pointer-chains" | "replay");
    // every-accessor reads: all families in the thorough tier; in the quick tier the families
    // built from the full per-field menus (the multi-item families repeat those records)
    let deep_reads = wide || matches!(family, "one-item" | "pointer-chains" | "rdata-axis" | "opt-axis" | "replay");
    for run in 0..2 {
        let r = guard(|| {
            let mut t = T { s: String::new(), names: 0, ptr_names: 0, rdata_parsed: 0, errs: vec![], derived: 0, batteries: 0, derive: run == 0, full_derived: rich, deep: wide, rd: deep_reads, deep_reads: 0, limit_names: [0; 3] };
            script(msg, &mut t);
            t
        });
        results.push(r);
    }
    wd.leave();
    let case = || json!({"message": hex(msg), "family": family});
    match (&results[0], &results[1]) {
        (Ok(a), Ok(b)) => {
            if ctx.replay.is_some() {
                println!("transcript: {}", a.s);
                println!("errors: {:?}", a.errs);
            }
            if a.s != b.s {
                ctx.violation("C01|second-traversal-differs", "the same message traversed twice gave different transcripts", case());
            }
            for e in &a.errs {
                ctx.violation(&format!("C01|{e}"), e, case());
            }
            DERIVED.fetch_add(a.derived as u64, std::sync::atomic::Ordering::Relaxed);
            BATTERIES.fetch_add(a.batteries as u64, std::sync::atomic::Ordering::Relaxed);
            NAMES.fetch_add(a.names as u64, std::sync::atomic::Ordering::Relaxed);
            DEEP_READS.fetch_add(a.deep_reads as u64, std::sync::atomic::Ordering::Relaxed);
            for k in 0..3 {
                LABEL_LIMIT_NAMES[k].fetch_add(a.limit_names[k] as u64, std::sync::atomic::Ordering::Relaxed);
            }
            if a.rdata_parsed > 0 || a.ptr_names > 0 {
                stats.nontrivial.fetch_add(1, std::sync::atomic::Ordering::Relaxed);
                stats.distinct(fnv(msg));
            }
            // shape = transcript with digits removed
            let shape: String = a.s.chars().filter(|c| !c.is_ascii_digit()).collect();
            stats.distinct(fnv(shape.as_bytes()) | 1 << 63);
        }
        (Err(p), _) | (_, Err(p)) => {
            ctx.violation(&format!("C01|panic|{}", panic_class(p)), p, case());
        }
    }
}

// ------------------------------------- all names of one message against each other

/// "Whatever is returned as a name or record can be compared": every name the
/// message hands out (question names, owners, names inside RDATA) against
/// every one of them (itself included), in both orders, through every
/// comparison of ParsedName with ParsedName. Oracle: the RFC 4034 6.1 order /
/// case-insensitive equality / octet order of the label lists (which
/// `use_name` has checked against the independent decompressor). The records
/// and questions themselves are compared pairwise for totality and
/// antisymmetry. Returns (violation classes, number of ordered pairs).
fn pairwise(msg: &[u8]) -> (Vec<String>, u64) {
    use domain::base::cmp::CanonicalOrd;
    use std::cmp::Ordering::Equal;
    let mut errs: Vec<String> = Vec::new();
    let Ok(m) = Message::from_slice(msg) else { return (errs, 0) };
    let mut names: Vec<ParsedName<&[u8]>> = Vec::new();
    let mut qs = Vec::new();
    for q in m.question().take(LIMIT) {
        match q {
            Ok(q) => {
                names.push(*q.qname());
                qs.push(q);
            }
            Err(_) => break,
        }
    }
    let mut recs = Vec::new();
    if let Ok((_, an, ns, ar)) = m.sections() {
        for sec in [an, ns, ar] {
            for r in sec.take(LIMIT) {
                let Ok(r) = r else { break };
                names.push(r.owner());
                if let Ok(rec) = r.into_any_record::<AllRecordData<_, ParsedName<_>>>() {
                    match rec.data() {
                        AllRecordData::Cname(x) => names.push(*x.cname()),
                        AllRecordData::Ns(x) => names.push(*x.nsdname()),
                        AllRecordData::Ptr(x) => names.push(*x.ptrdname()),
                        AllRecordData::Dname(x) => names.push(*x.dname()),
                        AllRecordData::Mx(x) => names.push(*x.exchange()),
                        AllRecordData::Soa(x) => {
                            names.push(*x.mname());
                            names.push(*x.rname());
                        }
                        AllRecordData::Minfo(x) => {
                            names.push(*x.rmailbx());
                            names.push(*x.emailbx());
                        }
                        AllRecordData::Srv(x) => names.push(*x.target()),
                        AllRecordData::Nsec(x) => names.push(*x.next_name()),
                        AllRecordData::Rrsig(x) => names.push(*x.signer_name()),
                        AllRecordData::Svcb(x) => names.push(*x.target()),
                        AllRecordData::Https(x) => names.push(*x.target()),
                        _ => {}
                    }
                    recs.push(rec);
                }
            }
        }
    }
    names.truncate(16);
    recs.truncate(16);
    qs.truncate(16);
    let labels: Vec<Vec<Vec<u8>>> = names.iter().map(|n| n.iter().take(300).map(|l| l.as_slice().to_vec()).collect()).collect();
    let wires: Vec<Vec<u8>> = labels.iter().map(|l| wire_of(l)).collect();
    let lowers: Vec<Vec<u8>> = wires.iter().map(|w| w.to_ascii_lowercase()).collect();
    let mut pairs = 0u64;
    for i in 0..names.len() {
        for j in 0..names.len() {
            pairs += 1;
            let (a, b) = (&names[i], &names[j]);
            let (la, lb) = (&labels[i], &labels[j]);
            let ord = mc::wire::canonical_name_cmp(la, lb);
            let same = mc::wire::labels_eq_ci(la, lb);
            if a.name_cmp(b) != ord || a.cmp(b) != ord || a.partial_cmp(b) != Some(ord) || a.canonical_cmp(b) != ord {
                errs.push("name-pairs|order-of-two-names-of-the-message-differs-from-rfc4034-order-of-their-labels".into());
            }
            if (*a == *b) != same || a.name_eq(b) != same || (ord == Equal) != same {
                errs.push("name-pairs|equality-of-two-names-of-the-message-differs-from-equality-of-their-labels".into());
            }
            if same && hash_of(a) != hash_of(b) {
                errs.push("name-pairs|equal-names-of-the-message-hash-differently".into());
            }
            if a.composed_cmp(b) != wires[i].cmp(&wires[j]) || a.lowercase_composed_cmp(b) != lowers[i].cmp(&lowers[j]) {
                errs.push("name-pairs|composed-order-of-two-names-of-the-message-differs-from-octet-order".into());
            }
            if a.ends_with(b) != (lb.len() <= la.len() && mc::wire::labels_eq_ci(&la[la.len() - lb.len()..], lb)) {
                errs.push("name-pairs|ends_with-between-two-names-of-the-message".into());
            }
            // (the root label ends both lists: a proper prefix never includes it)
            if a.starts_with(b) != same {
                errs.push("name-pairs|starts_with-between-two-names-of-the-message".into());
            }
        }
    }
    for i in 0..recs.len() {
        for j in 0..recs.len() {
            pairs += 1;
            let (a, b) = (&recs[i], &recs[j]);
            if a.cmp(b) != b.cmp(a).reverse() || a.partial_cmp(b) != Some(a.cmp(b)) || a.canonical_cmp(b) != b.canonical_cmp(a).reverse() || (a == b) != (b == a) {
                errs.push("record-pairs|order-of-two-records-of-the-message-is-not-antisymmetric".into());
            }
            if i == j && (a.cmp(b) != Equal || a.canonical_cmp(b) != Equal) {
                errs.push("record-pairs|record-not-equal-to-itself".into());
            }
        }
    }
    for i in 0..qs.len() {
        for j in 0..qs.len() {
            pairs += 1;
            let (a, b) = (&qs[i], &qs[j]);
            if a.cmp(b) != b.cmp(a).reverse() || a.canonical_cmp(b) != b.canonical_cmp(a).reverse() || (a == b) != (b == a) {
                errs.push("question-pairs|order-of-two-questions-of-the-message-is-not-antisymmetric".into());
            }
        }
    }
    errs.sort();
    errs.dedup();
    (errs, pairs)
}

fn run_pairs(ctx: &Ctx, wd: &Watchdog, msg: &[u8], family: &str) {
    let case = || json!({"message": hex(msg), "family": family, "part": "pairs"});
    wd.enter(case);
    let r = guard(|| pairwise(msg));
    wd.leave();
    match r {
        Ok((errs, pairs)) => {
            NAME_PAIRS.fetch_add(pairs, std::sync::atomic::Ordering::Relaxed);
            for e in &errs {
                ctx.violation(&format!("C01|{e}"), e, case());
            }
        }
        Err(p) => {
            ctx.violation(&format!("C01|panic|{}", panic_class(&p)), &p, case());
        }
    }
}

// ------------------------------------------------- the label-count axis of names

/// Messages whose names sit at the LABEL-COUNT limit: a name has at most 128
/// labels (127 one-octet labels and the root, 255 octets). Names of 126, 127,
/// 128 labels (legal) and 129 labels (257 octets, must be refused), spelled
/// flat, as a head with a pointer to a shared tail (to the start of a shorter
/// name, or into the middle of a 128-label name) and through two chained
/// pointers (head -> middle -> tail, incl. bare-pointer heads / middles and a
/// root-only tail), so that the count is reached only after decompression;
/// the name sits as question name (after questions holding the tails), as
/// owner, inside RDATA of every name-bearing type of the menu, and as owner
/// next to a twin that differs in the first label only. Labels alternate in
/// case.
fn label_count_messages(quick: bool) -> Vec<Vec<u8>> {
    let ptr = |t: usize| vec![0xC0 | ((t >> 8) as u8 & 0x3F), t as u8];
    let ones = |k: usize, c: u8| -> Vec<u8> { (0..k).flat_map(|i| [1u8, if i % 2 == 0 { c } else { c.to_ascii_uppercase() }]).collect() };
    let rec = |owner: &[u8], rt: u16, rd: &[u8]| {
        let mut b = owner.to_vec();
        b.extend_from_slice(&rt.to_be_bytes());
        b.extend_from_slice(&[0, 1, 0, 0, 0, 60]);
        b.extend_from_slice(&(rd.len() as u16).to_be_bytes());
        b.extend_from_slice(rd);
        b
    };
    let cat = |parts: &[&[u8]]| parts.iter().flat_map(|p| p.iter().cloned()).collect::<Vec<u8>>();
    #[derive(Clone, Copy)]
    enum End {
        Root,
        /// pointer to this offset inside the tail name (which sits at 12)
        Tail(usize),
        /// pointer to the start of the middle name
        Mid,
    }
    // (tail name, middle name (ends with a pointer to 12), number of head labels, end)
    let mut shapes: Vec<(Option<Vec<u8>>, Option<Vec<u8>>, usize, End)> = Vec::new();
    let flat = |labels: usize| cat(&[&ones(labels - 1, b't'), &[0]]);
    for k in [126usize, 127, 128, 129] {
        shapes.push((None, None, k - 1, End::Root));
    }
    for tl in [26usize, 27, 28, 29] {
        shapes.push((Some(flat(tl)), None, 100, End::Tail(0)));
    }
    // into the middle of a 128-label name: head + (127 - skip) + root
    for (h, skip) in [(100usize, 100usize), (100, 99), (100, 101), (1, 1), (0, 0), (127, 127)] {
        shapes.push((Some(flat(128)), None, h, End::Tail(2 * skip)));
    }
    // two chained pointers: head + middle + tail labels
    for (h, m, tl) in [(100usize, 1usize, 27usize), (100, 1, 26), (100, 1, 28), (64, 32, 32), (1, 1, 126), (0, 1, 127), (100, 0, 28), (127, 0, 1)] {
        shapes.push((Some(flat(tl)), Some(cat(&[&ones(m, b'm'), &ptr(12)])), h, End::Mid));
    }
    let mut msgs = Vec::new();
    for (tail, mid, h, end) in &shapes {
        // the earlier items and the name, for earlier items spelled as questions or as records
        let build = |as_questions: bool| -> (Vec<u8>, u16, Vec<u8>) {
            let item = |n: &[u8]| if as_questions { cat(&[n, &[0, 1, 0, 1]]) } else { rec(n, 1, &[1, 2, 3, 4]) };
            let mut pre = Vec::new();
            let mut count = 0u16;
            if let Some(t) = tail {
                pre.extend(item(t));
                count += 1;
            }
            let p1 = 12 + pre.len();
            if let Some(m) = mid {
                pre.extend(item(m));
                count += 1;
            }
            let mut n = ones(*h, b'h');
            match end {
                End::Root => n.push(0),
                End::Tail(o) => n.extend(ptr(12 + o)),
                End::Mid => n.extend(ptr(p1)),
            }
            (pre, count, n)
        };
        {
            let (pre, c, n) = build(true);
            msgs.push(cat(&[&header(0x0100, [c + 1, 0, 0, 0]), &pre, &n, &[0, 1, 0, 1]]));
        }
        let (pre, c, n) = build(false);
        let mut finals: Vec<(u16, Vec<u8>)> = vec![(1, rec(&n, 1, &[1, 2, 3, 4]))];
        if *h > 0 {
            let mut twin = n.clone();
            twin[1] = b'z';
            finals.push((2, cat(&[&rec(&n, 1, &[1, 2, 3, 4]), &rec(&twin, 1, &[1, 2, 3, 4])])));
        }
        let o: &[u8] = &[1, b'o', 0];
        finals.push((1, rec(o, 5, &n)));
        finals.push((1, rec(o, 6, &cat(&[&[1, b'm', 0], &n, &[0; 20]]))));
        finals.push((1, rec(o, 46, &cat(&[&[0, 1, 13, 2, 0, 0, 0, 60, 0, 0, 0, 2, 0, 0, 0, 1, 0, 7], &n, &[9, 9]]))));
        if !quick {
            for rt in [2u16, 12, 39] {
                finals.push((1, rec(o, rt, &n)));
            }
            finals.push((1, rec(o, 15, &cat(&[&[0, 5], &n]))));
            finals.push((1, rec(o, 6, &cat(&[&n, &[1, b'r', 0], &[0; 20]]))));
            finals.push((1, rec(o, 33, &cat(&[&[0, 1, 0, 2, 0, 3], &n]))));
            finals.push((1, rec(o, 17, &cat(&[&n, &[0]]))));
            finals.push((1, rec(o, 47, &cat(&[&n, &[0, 1, 0x40]]))));
            finals.push((1, rec(o, 64, &cat(&[&[0, 1], &n]))));
        }
        for (k, f) in finals {
            msgs.push(cat(&[&header(0x8400, [0, c + k, 0, 0]), &pre, &f]));
        }
    }
    msgs
}

// --------------------------------------------------------- the generator

fn name_variants(pos: usize, landmarks: &[usize], full: bool) -> Vec<Vec<u8>> {
    let ptr = |t: usize| vec![0xC0 | ((t >> 8) as u8 & 0x3F), t as u8];
    let mut v: Vec<Vec<u8>> = vec![vec![0], vec![1, b'a', 0], ptr(12), ptr(pos)];
    let mut la = vec![1, b'a'];
    la.extend(ptr(12));
    v.push(la);
    for &l in landmarks {
        v.push(ptr(l));
    }
    if full {
        v.push(vec![1, b'A', 0]);
        let mut l63 = vec![63];
        l63.extend(std::iter::repeat(b'x').take(63));
        let mut n255 = Vec::new();
        for k in [63usize, 63, 63, 61] {
            n255.push(k as u8);
            n255.extend(std::iter::repeat(b'y').take(k));
        }
        let mut n256 = n255.clone();
        n256[192] = 62; // last label one longer
        n256.push(b'y');
        n255.push(0);
        n256.push(0);
        let mut one63 = l63.clone();
        one63.push(0);
        v.push(one63);
        v.push(n255);
        v.push(n256);
        // 254 octets of labels followed by a pointer to a name -> too long only after decompression
        let mut long_ptr = Vec::new();
        for k in [63usize, 63, 63, 60] {
            long_ptr.push(k as u8);
            long_ptr.extend(std::iter::repeat(b'z').take(k));
        }
        long_ptr.extend(ptr(12));
        v.push(long_ptr);
        let mut loop_label = vec![1, b'a'];
        loop_label.extend(ptr(pos));
        v.push(loop_label); // pointer back to own start: loop through a label
        v.push(ptr(pos + 2)); // forward
        v.push(ptr(pos + 1)); // into itself
        v.push(ptr(0x3FFF));
        v.push(ptr(0));
        v.push(ptr(2));
        v.push(vec![0x40, 0]);
        v.push(vec![0x80, 1, 0]);
        v.push(vec![5, b'a']); // label overrunning into the following fields
        v.push(vec![]); // missing name
        for &l in landmarks {
            let mut x = vec![1, b'x'];
            x.extend(ptr(l));
            v.push(x);
            v.push(ptr(l + 1));
        }
    }
    v
}

/// (rtype, rdata variants). Names inside RDATA: `nm` builder gets the
/// absolute position where the name will sit.
fn rdata_variants(rtype: u16, rd_pos: usize, full: bool) -> Vec<Vec<u8>> {
    let ptr = |t: usize| vec![0xC0 | ((t >> 8) as u8 & 0x3F), t as u8];
    let nm: Vec<Vec<u8>> = if full { vec![vec![1, b'b', 0], ptr(12), ptr(rd_pos), vec![]] } else { vec![vec![1, b'b', 0], ptr(12)] };
    let cat = |parts: &[&[u8]]| parts.iter().flat_map(|p| p.iter().cloned()).collect::<Vec<u8>>();
    let mut good: Vec<Vec<u8>> = Vec::new();
    let mut extra: Vec<Vec<u8>> = Vec::new();
    match rtype {
        1 => good.push(vec![1, 2, 3, 4]),
        28 => good.push(vec![0; 16]),
        2 | 5 | 12 | 39 | 7 | 8 | 9 | 3 | 4 => {
            for n in &nm {
                good.push(n.clone());
            }
        }
        6 => {
            for n in &nm {
                good.push(cat(&[n, &[1, b'r', 0], &[0; 20]]));
            }
            extra.push(cat(&[&ptr(12), &ptr(12), &[0; 19]]));
            extra.push(cat(&[&ptr(12), &ptr(12), &[0; 21]]));
        }
        15 => {
            for n in &nm {
                good.push(cat(&[&[0, 10], n]));
            }
            extra.push(vec![0]);
        }
        14 | 17 => {
            for n in &nm {
                good.push(cat(&[n, &[1, b'e', 0]]));
            }
        }
        16 => {
            good.push(vec![3, b'a', b'b', b'c']);
            extra.push(vec![5, b'a']);
            extra.push(vec![0]);
            extra.push(vec![1, b'a', 0, 2, b'b', b'c']);
            let mut long = vec![255];
            long.extend(std::iter::repeat(b't').take(255));
            extra.push(long);
        }
        13 => {
            good.push(vec![1, b'a', 1, b'b']);
            extra.push(vec![1, b'a', 5, b'b']);
        }
        33 => {
            for n in &nm {
                good.push(cat(&[&[0, 1, 0, 2, 0, 80], n]));
            }
        }
        41 => {
            good.push(vec![]);
            good.push(vec![0, 8, 0, 4, 0, 1, 24, 0]); // client subnet short
            good.push(vec![0, 8, 0, 7, 0, 1, 24, 0, 192, 0, 2]);
            good.push(vec![0, 10, 0, 8, 1, 2, 3, 4, 5, 6, 7, 8]); // cookie
            extra.push(vec![0, 10, 0, 7, 1, 2, 3, 4, 5, 6, 7]); // bad cookie length
            extra.push(vec![0, 3, 0, 2, b'n', b's']);
            extra.push(vec![0, 12, 0, 3, 0, 0, 0]);
            extra.push(vec![0, 15, 0, 1, 0]); // extended error short
            extra.push(vec![0, 15, 0, 4, 0, 1, 0xff, 0xfe]); // ede with non-utf8 text
            extra.push(vec![0, 11, 0, 1, 0]); // keepalive bad len
            extra.push(vec![0, 11, 0, 2, 0, 1]);
            extra.push(vec![0, 5, 0, 1, 8]); // DAU
            extra.push(vec![0, 14, 0, 3, 0, 1, 0]); // key tag odd
            extra.push(vec![0, 9, 0, 4, 0, 0, 0, 1]); // expire
            extra.push(vec![0, 9, 0, 3, 0, 0, 0]);
            extra.push(vec![0, 3, 0, 9, 1]); // option overruns
            extra.push(vec![0, 3, 0]); // truncated option header
            extra.push(vec![0xff, 0xff, 0, 0]);
        }
        46 => {
            for n in &nm {
                good.push(cat(&[&[0, 1, 8, 2, 0, 0, 14, 16, 0, 0, 0, 2, 0, 0, 0, 1, 0x12, 0x34], n, &[9, 9, 9]]));
            }
            extra.push(vec![0; 17]);
        }
        47 => {
            for n in &nm {
                good.push(cat(&[n, &[0, 1, 0x40]]));
            }
            extra.push(cat(&[&[0], &[0, 0]])); // empty window
            extra.push(cat(&[&[0], &[0, 33], &[1; 33]]));
            extra.push(cat(&[&[0], &[0, 2, 0x40]])); // truncated window
            extra.push(cat(&[&[0], &[1, 1, 0x40, 0, 1, 0x40]])); // windows out of order
            extra.push(cat(&[&[0], &[0, 1, 0x40, 0, 1, 0x40]])); // duplicate window
            extra.push(cat(&[&[0], &[0, 1, 0]])); // zero octet
            extra.push(cat(&[&[0], &[0xff, 32], &[0xff; 32]]));
            extra.push(vec![0]);
        }
        50 => {
            good.push(vec![1, 0, 0, 1, 1, 0xab, 2, 0xc, 0xd, 0, 1, 0x40]);
            extra.push(vec![1, 0, 0, 1, 5, 0xab]); // salt overrun
            extra.push(vec![1, 0, 0, 1, 0, 9, 1]); // hash overrun
            extra.push(vec![1, 0, 0, 1, 0, 0]); // empty hash
            extra.push(vec![1, 0, 0, 1, 0, 1, 7, 0, 0]); // empty window
        }
        51 => {
            good.push(vec![1, 0, 0, 1, 1, 0xab]);
            extra.push(vec![1, 0, 0, 1, 2, 0xab]);
        }
        48 | 60 => good.push(vec![1, 1, 3, 8, 1, 2, 3]),
        43 | 59 => good.push(vec![0x12, 0x34, 8, 2, 1, 2, 3, 4]),
        64 | 65 => {
            for n in &nm {
                good.push(cat(&[&[0, 1], n]));
                good.push(cat(&[&[0, 1], n, &[0, 1, 0, 3, 2, b'h', b'2', 0, 3, 0, 2, 1, 187]]));
            }
            extra.push(cat(&[&[0, 1, 0], &[0, 3, 0, 2, 1, 187, 0, 1, 0, 3, 2, b'h', b'2']])); // out of order
            extra.push(cat(&[&[0, 1, 0], &[0, 1, 0, 3, 2, b'h', b'2', 0, 1, 0, 3, 2, b'h', b'2']])); // duplicate
            extra.push(cat(&[&[0, 1, 0], &[0, 1, 0, 9, 2, b'h']])); // param overrun
            extra.push(cat(&[&[0, 1, 0], &[0, 1, 0, 3, 5, b'h', b'2']])); // alpn inner overrun
            extra.push(cat(&[&[0, 1, 0], &[0, 0, 0, 2, 0, 1]])); // mandatory
            extra.push(cat(&[&[0, 1, 0], &[0, 0, 0, 3, 0, 1, 0]])); // mandatory odd
            extra.push(cat(&[&[0, 1, 0], &[0, 4, 0, 5, 1, 2, 3, 4, 5]])); // ipv4hint bad len
            extra.push(cat(&[&[0, 1, 0], &[0, 6, 0, 4, 1, 2, 3, 4]])); // ipv6hint bad len
            extra.push(cat(&[&[0, 1, 0], &[0, 3, 0, 1, 1]])); // port bad len
            extra.push(cat(&[&[0, 1, 0], &[0, 2, 0, 1, 1]])); // no-default-alpn with value
            extra.push(cat(&[&[0, 1, 0], &[0, 1]])); // truncated param header
            extra.push(cat(&[&[0, 1, 0], &[0xff, 0xff, 0, 0]]));
        }
        250 => {
            for n in &nm {
                good.push(cat(&[n, &[0, 0, 0, 0, 0, 1, 1, 44, 0, 2, 7, 7, 0x12, 0x34, 0, 0, 0, 0]]));
            }
            extra.push(cat(&[&[0], &[0, 0, 0, 0, 0, 1, 1, 44, 0, 9, 7, 7, 0x12, 0x34, 0, 0, 0, 0]])); // mac overrun
            extra.push(cat(&[&[0], &[0, 0, 0, 0, 0, 1, 1, 44, 0, 0, 0x12, 0x34, 0, 18, 0, 6, 0, 0, 0, 0, 0, 2]])); // BADTIME other
            extra.push(cat(&[&[0], &[0, 0, 0, 0, 0, 1, 1, 44, 0, 0, 0x12, 0x34, 0, 0, 0, 9, 1]])); // other overrun
        }
        257 => {
            good.push(vec![0, 3, b't', b'a', b'g', b'v']);
            extra.push(vec![0, 9, b't']);
            extra.push(vec![0, 0]);
        }
        35 => {
            for n in &nm {
                good.push(cat(&[&[0, 1, 0, 2, 1, b'f', 1, b's', 1, b'r'], n]));
            }
            extra.push(vec![0, 1, 0, 2, 1, b'f', 9, b's']);
        }
        52 => good.push(vec![3, 1, 1, 0xaa, 0xbb]),
        44 => good.push(vec![1, 1, 0xaa, 0xbb]),
        45 => {
            good.push(vec![10, 0, 2, 1, 2, 3]); // no gateway
            good.push(vec![10, 1, 2, 192, 0, 2, 1, 1, 2, 3]);
            good.push(cat(&[&[10, 2, 2], &[0; 16], &[1, 2]]));
            for n in &nm {
                good.push(cat(&[&[10, 3, 2], n, &[1, 2]]));
            }
            extra.push(vec![10, 4, 2, 1]); // unknown gateway type
            extra.push(vec![10, 1, 2, 192, 0]);
        }
        61 => good.push(vec![1, 2, 3]),
        63 => good.push(vec![0, 0, 0, 1, 1, 1, 0xaa, 0xbb]),
        10 => good.push(vec![1, 2, 3]),
        _ => good.push(vec![0xde, 0xad]),
    }
    let mut v = good.clone();
    if full {
        v.extend(extra);
        // systematic: first good value truncated by one, extended by one, and empty
        if let Some(g) = good.first() {
            if !g.is_empty() {
                v.push(g[..g.len() - 1].to_vec());
            }
            let mut e = g.clone();
            e.push(0);
            v.push(e);
            v.push(vec![]);
        }
    } else {
        v.truncate(1);
    }
    v
}

const TYPES_FULL: &[u16] = &[1, 2, 5, 6, 12, 13, 14, 15, 16, 17, 28, 33, 35, 39, 41, 43, 44, 45, 46, 47, 48, 50, 51, 52, 59, 60, 61, 63, 64, 65, 250, 257, 10, 3, 65280];
const TYPES_REDUCED: &[u16] = &[1, 5, 6, 16, 41, 47, 64, 250];

#[derive(Clone)]
struct Item {
    bytes: Vec<u8>,
    section: usize, // 0 question, 1 an, 2 ns, 3 ar
    landmarks: Vec<usize>,
}

/// All items that can be appended at `pos` given earlier landmarks.
fn items(pos: usize, landmarks: &[usize], full: bool, quick: bool) -> Vec<Item> {
    let mut out = Vec::new();
    let names = name_variants(pos, landmarks, full);
    // questions
    let qtypes: &[u16] = if full { &[1, 5, 252, 251, 255] } else { &[1, 252] };
    for n in &names {
        for qt in qtypes {
            let mut b = n.clone();
            b.extend_from_slice(&qt.to_be_bytes());
            b.extend_from_slice(&[0, 1]);
            out.push(Item { bytes: b, section: 0, landmarks: vec![pos] });
        }
    }
    // records
    let types = if full { TYPES_FULL } else { TYPES_REDUCED };
    let classes: &[u16] = if full && !quick { &[1, 255, 254] } else { &[1] };
    let ttls: &[u32] = if full { &[0, 0xFFFF_FFFF] } else { &[60] };
    for (ni, n) in names.iter().enumerate() {
        for &rt in types {
            // full rdata menus only with the first three owner shapes, reduced ones otherwise
            let rd_pos = pos + n.len() + 10;
            let rds = rdata_variants(rt, rd_pos, full && ni < 3);
            for (ri, rd) in rds.iter().enumerate() {
                let rdlens: Vec<usize> = if full && ri == 0 { vec![rd.len(), rd.len().wrapping_sub(1) & 0xFFFF, rd.len() + 1, 0, 0xFFFF] } else { vec![rd.len()] };
                for (li, rl) in rdlens.iter().enumerate() {
                    for &cl in classes {
                        for &ttl in ttls {
                            if (li > 0 || cl != 1) && ttl != 0 && full {
                                continue; // vary one of (rdlen, class, ttl) at a time
                            }
                            for sec in if full { vec![1usize, 3] } else { vec![1usize, 2, 3] } {
                                if rt == 41 && sec != 3 && !full {
                                    continue;
                                }
                                let mut b = n.clone();
                                b.extend_from_slice(&rt.to_be_bytes());
                                b.extend_from_slice(&cl.to_be_bytes());
                                b.extend_from_slice(&ttl.to_be_bytes());
                                b.extend_from_slice(&(*rl as u16).to_be_bytes());
                                b.extend_from_slice(rd);
                                out.push(Item { bytes: b, section: sec, landmarks: vec![pos, rd_pos, rd_pos + rd.len() / 2] });
                            }
                        }
                    }
                }
            }
        }
    }
    out
}

fn header(flags: u16, counts: [u16; 4]) -> Vec<u8> {
    let mut h = vec![0xAB, 0xCD];
    h.extend_from_slice(&flags.to_be_bytes());
    for c in counts {
        h.extend_from_slice(&c.to_be_bytes());
    }
    h
}

fn count_variants(actual: [u16; 4], full: bool) -> Vec<[u16; 4]> {
    let mut v = vec![actual];
    if full {
        let last = (0..4).rev().find(|i| actual[*i] > 0).unwrap_or(1);
        let mut plus = actual;
        plus[last] += 1;
        v.push(plus);
        v.push([0; 4]);
        let mut big = actual;
        big[1] = 0xFFFF;
        v.push(big);
        let mut big3 = actual;
        big3[3] = 0xFFFF;
        v.push(big3);
        let mut q2 = actual;
        q2[0] += 1;
        v.push(q2);
    }
    v
}

fn assemble(items: &[&Item], flags: u16, counts: [u16; 4]) -> Vec<u8> {
    let mut m = header(flags, counts);
    for i in items {
        m.extend_from_slice(&i.bytes);
    }
    m
}

// ------------------------------------- length axis x selector axis generators

/// Filler octets of a variable-length tail: zeros, all-ones, counting
/// (1, 2, 3, ...: reads as nested length octets), length-prefixed (first octet
/// = len-1, then letters: one character-string / label / ALPN id spanning the
/// tail), letters, high bit.
fn fill(kind: u8, len: usize) -> Vec<u8> {
    match kind {
        0 => vec![0; len],
        1 => vec![0xFF; len],
        2 => (0..len).map(|i| (i + 1) as u8).collect(),
        3 => {
            let mut v = vec![b'a'; len];
            if len > 0 {
                v[0] = (len - 1).min(255) as u8;
            }
            v
        }
        4 => vec![b'a'; len],
        _ => vec![0x80; len],
    }
}

/// Every tail: lengths x fillers (the empty tail once).
fn tails(lens: &[usize], kinds: &[u8]) -> Vec<Vec<u8>> {
    let mut v = Vec::new();
    for &l in lens {
        for &k in kinds {
            v.push(fill(k, l));
            if l == 0 {
                break;
            }
        }
    }
    v
}

/// Length-prefixed fields (one length octet) of every length x filler.
fn lp8(lens: &[usize], kinds: &[u8]) -> Vec<Vec<u8>> {
    tails(lens, kinds).into_iter().filter(|t| t.len() <= 255).map(|t| [&[t.len() as u8][..], &t].concat()).collect()
}

fn m8(v: &[u8]) -> Vec<Vec<u8>> {
    v.iter().map(|x| vec![*x]).collect()
}
fn m16(v: &[u16]) -> Vec<Vec<u8>> {
    v.iter().map(|x| x.to_be_bytes().to_vec()).collect()
}
fn m32(v: &[u32]) -> Vec<Vec<u8>> {
    v.iter().map(|x| x.to_be_bytes().to_vec()).collect()
}

/// Cartesian product of field menus, concatenated.
fn prod(fields: &[Vec<Vec<u8>>]) -> Vec<Vec<u8>> {
    let mut out: Vec<Vec<u8>> = vec![vec![]];
    for f in fields {
        let mut next = Vec::with_capacity(out.len() * f.len());
        for head in &out {
            for x in f {
                next.push([&head[..], &x[..]].concat());
            }
        }
        out = next;
    }
    out
}

/// Tail lengths: every length up to a bound past the short fixed sizes, then
/// the neighbourhoods of the sizes record data and options are defined with
/// (SHA-1 20, SHA-256/GOST/Ed25519 32, cookie 8+32=40, SHA-384 48, SHA-512/P-256 64).
fn axis_lens(quick: bool) -> Vec<usize> {
    let mut v: Vec<usize> = if quick { (0..=12).collect() } else { (0..=70).collect() };
    let edges: &[usize] = if quick { &[16, 20, 32, 40, 48, 64] } else { &[96, 128, 255, 256, 512, 1024] };
    for &e in edges {
        v.extend([e - 1, e, e + 1]);
    }
    v.sort();
    v.dedup();
    v
}

/// Security algorithm numbers (RFC 4034 A.1 and the IANA registry): every
/// assigned one, the reserved/private/indirect ones, unassigned neighbours.
fn algs(quick: bool) -> Vec<u8> {
    if quick {
        vec![0, 1, 2, 3, 4, 5, 6, 7, 8, 10, 12, 13, 14, 15, 16, 17, 23, 252, 253, 254, 255]
    } else {
        (0..=255).collect()
    }
}

/// (record type, every RDATA of the type's axis product). Names inside RDATA
/// may point at the owner (offset 12).
fn rdata_axis(quick: bool) -> Vec<(u16, Vec<Vec<u8>>)> {
    let lens = axis_lens(quick);
    let small: Vec<usize> = if quick { vec![0, 1, 2, 8, 20, 32, 255] } else { vec![0, 1, 2, 3, 8, 16, 20, 21, 32, 48, 64, 254, 255] };
    let k3: &[u8] = if quick { &[0, 1, 2] } else { &[0, 1, 2, 4, 5] };
    let k4: &[u8] = if quick { &[0, 1, 2, 3] } else { &[0, 1, 2, 3, 4, 5] };
    let t3 = tails(&lens, k3);
    let t4 = tails(&lens, k4);
    let names: Vec<Vec<u8>> = vec![vec![0], vec![1, b'a', 0], vec![0xC0, 12]];
    let names_u: Vec<Vec<u8>> = vec![vec![0], vec![1, b'a', 0]];
    let q = quick;
    let pick = |quick_menu: &[u16], more: &[u16]| -> Vec<u16> { if q { quick_menu.to_vec() } else { [quick_menu, more].concat() } };
    let pick8 = |quick_menu: &[u8], more: &[u8]| -> Vec<u8> { if q { quick_menu.to_vec() } else { [quick_menu, more].concat() } };
    let mut out: Vec<(u16, Vec<Vec<u8>>)> = Vec::new();
    // DNSKEY, CDNSKEY: flags x protocol x algorithm x key
    for rt in [48u16, 60] {
        out.push((rt, prod(&[m16(&pick(&[0, 0x0101, 0xFFFF], &[0x0180])), m8(&pick8(&[3], &[0])), m8(&algs(q)), t3.clone()])));
    }
    // DS, CDS: key tag x algorithm x digest type x digest
    for rt in [43u16, 59] {
        out.push((rt, prod(&[m16(&pick(&[0x1234], &[0, 0xFFFF])), m8(&pick8(&[0, 8, 13, 255], &[1, 5, 15])), m8(&pick8(&[0, 1, 2, 3, 4, 5, 6, 254, 255], &[7, 8, 128])), t3.clone()])));
    }
    // RRSIG: type covered x algorithm x labels x original TTL x expiration/inception x key tag x signer x signature
    {
        let times: Vec<Vec<u8>> = vec![[0u32.to_be_bytes(), 0u32.to_be_bytes()].concat(), [0xFFFF_FFFFu32.to_be_bytes(), 0u32.to_be_bytes()].concat(), [0x8000_0000u32.to_be_bytes(), 0x7FFF_FFFFu32.to_be_bytes()].concat()];
        out.push((46, prod(&[m16(&pick(&[1], &[46, 0, 0xFFFF])), m8(&pick8(&[1, 8, 13, 255], &[0, 5, 15, 253])), m8(&pick8(&[1, 255], &[0, 127])), m32(&[60]), times, m16(&[0x1234]), names.clone(), t3.clone()])));
    }
    // NSEC: next name x window x bitmap length x bitmap filler (+ a second window)
    {
        let mut maps: Vec<Vec<u8>> = vec![vec![]];
        for w in [0u8, 1, 255] {
            for l in 0..=34usize {
                for f in [0x00u8, 0xFF, 0x40, 0x01] {
                    maps.push([&[w, l as u8][..], &vec![f; l]].concat());
                }
            }
        }
        let second: Vec<Vec<u8>> = vec![vec![], vec![1, 1, 0x40], vec![0, 1, 0x40]];
        out.push((47, prod(&[names.clone(), maps.clone(), second])));
        // NSEC3: hash algorithm x flags x iterations x salt x next hashed owner x bitmap
        let few_maps: Vec<Vec<u8>> = vec![vec![], vec![0, 1, 0x40], vec![0, 0], vec![0, 33, 1]];
        out.push((50, prod(&[m8(&pick8(&[0, 1, 2, 255], &[3, 128])), m8(&pick8(&[0, 1, 0xFF], &[2, 0x80])), m16(&pick(&[1], &[0, 0xFFFF])), lp8(&small, &[0, 2]), lp8(&small, &[0, 2]), few_maps])));
    }
    // NSEC3PARAM: hash algorithm x flags x iterations x salt (+ salt length one off)
    {
        let mut salts = lp8(&lens, k3);
        salts.extend([vec![1], vec![2, 0xab], vec![0, 0xab], vec![255]]);
        out.push((51, prod(&[m8(&pick8(&[0, 1, 2, 255], &[3, 128])), m8(&pick8(&[0, 1, 0xFF], &[2, 0x80])), m16(&pick(&[0, 0xFFFF], &[1, 150])), salts])));
    }
    // TLSA: usage x selector x matching type x data
    out.push((52, prod(&[m8(&pick8(&[0, 3, 255], &[1, 2, 4])), m8(&pick8(&[0, 1, 255], &[2])), m8(&pick8(&[0, 1, 2, 255], &[3])), t3.clone()])));
    // SSHFP: algorithm x fingerprint type x fingerprint
    out.push((44, prod(&[m8(&pick8(&[0, 1, 2, 3, 4, 6, 255], &[5, 7])), m8(&pick8(&[0, 1, 2, 3, 255], &[4])), t3.clone()])));
    // IPSECKEY: precedence x gateway type x algorithm x gateway (absent or of the type) x key
    {
        let mut v = Vec::new();
        for gt in pick8(&[0, 1, 2, 3, 4, 255], &[5]) {
            let mut gws: Vec<Vec<u8>> = vec![vec![]];
            match gt {
                1 => gws.push(vec![192, 0, 2, 1]),
                2 => gws.push(vec![0x20; 16]),
                3 => gws.extend(names.clone()),
                _ => {}
            }
            v.extend(prod(&[m8(&[10]), m8(&[gt]), m8(&pick8(&[0, 1, 2, 3, 255], &[4])), gws, t3.clone()]));
        }
        out.push((45, v));
    }
    // ZONEMD: serial x scheme x algorithm x digest
    out.push((63, prod(&[m32(&if q { vec![1] } else { vec![0, 1, 0xFFFF_FFFF] }), m8(&pick8(&[0, 1, 2, 255], &[3, 240])), m8(&pick8(&[0, 1, 2, 3, 255], &[4, 240])), t3.clone()])));
    // the types that are one tail: OPENPGPKEY, NULL, an unknown type, A, AAAA, TXT (all fillers)
    for rt in [61u16, 10, 65280, 1, 28] {
        out.push((rt, t3.clone()));
    }
    {
        let mut v = t4.clone();
        v.extend(prod(&[lp8(&[0, 1, 255], &[4]), lp8(&[0, 1, 255], &[0])]));
        out.push((16, v));
    }
    // HINFO: cpu x os (+ raw tails)
    {
        let mut v = prod(&[lp8(&small, &[4]), lp8(&small, &[0, 4])]);
        v.extend(t4.clone());
        out.push((13, v));
    }
    // CAA: flags x tag length x tag characters x value
    {
        let taglens: Vec<usize> = (0..=16).chain([254, 255]).collect();
        let mut tags: Vec<Vec<u8>> = Vec::new();
        for &l in &taglens {
            for c in [b'a', b'A', b'0', b'-', b' ', 0x00, 0xFF] {
                tags.push([&[l as u8][..], &vec![c; l]].concat());
                if l == 0 {
                    break;
                }
            }
        }
        tags.extend([vec![5, b'a'], vec![]]);
        out.push((257, prod(&[m8(&pick8(&[0, 1, 128, 255], &[64])), tags, tails(&[0, 1, 8], &[4, 1])])));
    }
    // NAPTR: order x preference x flags x services x regexp x replacement, one string on the length axis at a time
    {
        let one = lp8(&[1], &[4]);
        let axis = lp8(&lens, &[4, 1]);
        let head = prod(&[m16(&[0, 0xFFFF]), m16(&[1])]);
        let mut v = Vec::new();
        for i in 0..3 {
            let f: Vec<Vec<Vec<u8>>> = (0..3).map(|j| if i == j { axis.clone() } else { one.clone() }).collect();
            v.extend(prod(&[head.clone(), f[0].clone(), f[1].clone(), f[2].clone(), names.clone()]));
        }
        out.push((35, v));
    }
    // TSIG: algorithm name x time x fudge x MAC x original id x error x other data
    {
        let lp16 = |lens: &[usize], kinds: &[u8]| -> Vec<Vec<u8>> { tails(lens, kinds).into_iter().map(|t| [&(t.len() as u16).to_be_bytes()[..], &t].concat()).collect() };
        let times: Vec<Vec<u8>> = vec![vec![0; 6], vec![0xFF; 6], vec![0, 0, 0, 0, 1, 44]];
        let alg_names: Vec<Vec<u8>> = vec![vec![0], [&[11u8][..], b"hmac-sha256", &[0]].concat()];
        let mut v = prod(&[alg_names.clone(), times.clone(), m16(&[0, 300, 0xFFFF]), lp16(&[0, 1, 16, 20, 32, 64], &[2]), m16(&[0x1234]), m16(&[0, 16, 17, 18, 0xFFFF]), lp16(&[0, 5, 6, 7], &[1, 0])]);
        v.extend(prod(&[names.clone(), vec![vec![0, 0, 0, 0, 1, 44]], m16(&[300]), lp16(&lens, &[0, 1]), m16(&[0]), m16(&[0, 18]), lp16(&[0, 6], &[2])]));
        out.push((250, v));
    }
    // SVCB, HTTPS: priority x target x one parameter (every key the library knows, neighbours, private,
    // reserved) on the length axis, alone / followed by a second parameter (greater, equal, smaller key)
    for rt in [64u16, 65] {
        let keys: Vec<u16> = pick(&[0, 1, 2, 3, 4, 5, 6, 7, 8, 9, 10, 65280, 65535], &[11, 12, 65279, 65534]);
        let mut params: Vec<Vec<u8>> = vec![vec![]];
        for &k in &keys {
            for t in &t4 {
                params.push([&k.to_be_bytes()[..], &(t.len() as u16).to_be_bytes(), t].concat());
            }
        }
        let mut v = prod(&[m16(&pick(&[0, 1], &[0xFFFF])), if q { vec![vec![0]] } else { names_u.clone() }, params]);
        let short: Vec<Vec<u8>> = keys.iter().flat_map(|k| tails(&small[..4], &[2, 3]).into_iter().map(|t| [&k.to_be_bytes()[..], &(t.len() as u16).to_be_bytes(), &t].concat()).collect::<Vec<_>>()).collect();
        let second: Vec<Vec<u8>> = vec![vec![0, 3, 0, 2, 1, 187], vec![0xFF, 0xFE, 0, 0], vec![0, 0, 0, 2, 0, 1], vec![0, 3]];
        v.extend(prod(&[m16(&[1]), vec![vec![0]], short, second]));
        out.push((rt, v));
    }
    out
}

/// Every OPT RDATA of the option axis: every option code the library knows,
/// its neighbours and unknown ones x selector prefixes x OPTION-LENGTH x
/// filler, in three placements (alone; announcing one octet more than the
/// RDATA holds; between two well-formed options).
fn opt_axis(quick: bool) -> Vec<Vec<u8>> {
    let mut lens: Vec<usize> = if quick { (0..=50).collect() } else { (0..=80).collect() };
    lens.extend(if quick { vec![255, 256] } else { vec![127, 128, 129, 255, 256, 257, 511, 512, 1000] });
    let kinds: &[u8] = if quick { &[0, 1, 2, 3] } else { &[0, 1, 2, 3, 4, 5] };
    let mut codes: Vec<u16> = vec![0, 1, 2, 3, 4, 5, 6, 7, 8, 9, 10, 11, 12, 13, 14, 15, 16, 17, 18, 26946, 65001, 65535];
    if !quick {
        codes.extend([19, 20, 255, 256, 65000, 65534]);
    }
    let mut out = Vec::new();
    for &code in &codes {
        // selector octets laid over the start of the filler
        let mut prefixes: Vec<Vec<u8>> = vec![vec![]];
        match code {
            8 => {
                // client subnet: family x source prefix length x scope prefix length (RFC 7871 6)
                for fam in [0u16, 1, 2, 3] {
                    for src in [0u8, 1, 8, 24, 32, 33, 64, 128, 129, 255] {
                        for scope in [0u8, 32] {
                            if quick && (scope != 0 && src != 24 || fam == 3 && src > 8) {
                                continue;
                            }
                            prefixes.push([&fam.to_be_bytes()[..], &[src, scope]].concat());
                        }
                    }
                }
            }
            15 => prefixes.extend(m16(&[0, 24, 49152, 0xFFFF])),
            13 => prefixes.extend([vec![1, b'a', 0], vec![0xC0, 0x0C], vec![63]]),
            _ => {}
        }
        for prefix in &prefixes {
            for &l in &lens {
                if !prefix.is_empty() && l > 24 && quick {
                    continue;
                }
                for &k in kinds {
                    let mut data = fill(k, l);
                    let n = prefix.len().min(l);
                    data[..n].copy_from_slice(&prefix[..n]);
                    let option = [&code.to_be_bytes()[..], &(l as u16).to_be_bytes(), &data].concat();
                    out.push(option.clone());
                    if k == 0 && l > 0 {
                        out.push(option[..option.len() - 1].to_vec());
                    }
                    if k == 2 || l == 0 {
                        out.push([&[0, 3, 0, 2, b'n', b's'][..], &option, &[0, 12, 0, 2, 0, 0]].concat());
                    }
                    if l == 0 {
                        break;
                    }
                }
            }
        }
    }
    out
}

/// A response holding one record `o. <rtype> IN` with the RDATA.
fn axis_message(rtype: u16, rdata: &[u8]) -> Vec<u8> {
    let mut m = if rtype == 41 { header(0x8400, [0, 0, 0, 1]) } else { header(0x8400, [0, 1, 0, 0]) };
    if rtype == 41 {
        m.extend_from_slice(&[0, 0, 41, 0x04, 0xD0, 0, 0, 0x80, 0]);
    } else {
        m.extend_from_slice(&[1, b'o', 0]);
        m.extend_from_slice(&rtype.to_be_bytes());
        m.extend_from_slice(&[0, 1, 0, 0, 0, 60]);
    }
    m.extend_from_slice(&(rdata.len() as u16).to_be_bytes());
    m.extend_from_slice(rdata);
    m
}

fn main() {
    let ctx = Ctx::new("C01", "exploration");
    let stats = Arc::new(Stats::new());
    let wd = Watchdog::start(ctx.clone(), Duration::from_secs(20), |d| {
        format!("C01|hang|family={}", d["family"].as_str().unwrap_or("?"))
    });
    if let Some(path) = &ctx.replay {
        let v: Value = serde_json::from_str(&std::fs::read_to_string(path).expect("replay file")).expect("json");
        let msg = unhex(v["case"]["message"].as_str().expect("case.message"));
        println!("replaying {} on {} octets", v["signature"], msg.len());
        run_case(&ctx, &stats, &wd, &msg, "replay");
        run_pairs(&ctx, &wd, &msg, "replay");
        ctx.finish(json!({"evaluations": 1, "distinct_nontrivial": stats.distinct_count(), "rule": "replay", "samples": [hex(&msg)]}), &[]);
    }
    let quick = ctx.quick();
    let flagsets: &[u16] = &[0x0000, 0x8400, 0x8200 | 0x2800];

    // --- one-item messages: full menus x all header variants
    let first = items(12, &[], true, quick);
    stats.count_n("gen.first_items_full", first.len() as u64);
    first.par_iter().for_each(|it| {
        let mut actual = [0u16; 4];
        actual[it.section] = 1;
        for counts in count_variants(actual, true) {
            for &fl in flagsets {
                let m = assemble(&[it], fl, counts);
                run_case(&ctx, &stats, &wd, &m, "one-item");
            }
        }
        // truncations of the single item at every cut point (short reads)
        let m = assemble(&[it], 0x8400, actual);
        if it.bytes.len() <= 48 {
            for cut in 12..m.len() {
                run_case(&ctx, &stats, &wd, &m[..cut], "one-item-truncated");
            }
        }
    });
    // --- two-item messages: (full, reduced) and (reduced, full)
    let first_reduced = items(12, &[], false, quick);
    stats.count_n("gen.first_items_reduced", first_reduced.len() as u64);
    first.par_iter().for_each(|a| {
        let pos = 12 + a.bytes.len();
        for b in items(pos, &a.landmarks, false, quick) {
            if b.section < a.section {
                continue;
            }
            let mut actual = [0u16; 4];
            actual[a.section] += 1;
            actual[b.section] += 1;
            let m = assemble(&[a, &b], 0x8400, actual);
            run_case(&ctx, &stats, &wd, &m, "two-items-full-reduced");
        }
    });
    first_reduced.par_iter().for_each(|a| {
        let pos = 12 + a.bytes.len();
        for b in items(pos, &a.landmarks, true, quick) {
            if b.section < a.section {
                continue;
            }
            let mut actual = [0u16; 4];
            actual[a.section] += 1;
            actual[b.section] += 1;
            for counts in count_variants(actual, !quick) {
                let m = assemble(&[a, &b], 0x8400, counts);
                run_case(&ctx, &stats, &wd, &m, "two-items-reduced-full");
            }
        }
    });
    // --- three items, reduced menus (thorough: middle item full)
    first_reduced.par_iter().for_each(|a| {
        let pos = 12 + a.bytes.len();
        for b in items(pos, &a.landmarks, false, quick) {
            if b.section < a.section {
                continue;
            }
            let pos2 = pos + b.bytes.len();
            let mut lm = a.landmarks.clone();
            lm.extend(b.landmarks.iter().cloned());
            lm.truncate(4);
            for c in items(pos2, &lm, false, quick) {
                if c.section < b.section {
                    continue;
                }
                let mut actual = [0u16; 4];
                actual[a.section] += 1;
                actual[b.section] += 1;
                actual[c.section] += 1;
                let m = assemble(&[a, &b, &c], 0x8400, actual);
                run_case(&ctx, &stats, &wd, &m, "three-items-reduced");
            }
        }
    });
    // --- pointer-chain family: every topology of up to three chained compression
    // pointers, each either bare or behind a label, each pointing at the start of the
    // previous name or at the pointer cell inside it; the final name sits at every kind
    // of name position (owner, CNAME/NS/PTR/MX/SOA/SRV/RP/NSEC/RRSIG RDATA)
    {
        let ptr = |t: usize| vec![0xC0 | ((t >> 8) as u8 & 0x3F), t as u8];
        let rec = |owner: &[u8], rt: u16, rd: &[u8]| {
            let mut b = owner.to_vec();
            b.extend_from_slice(&rt.to_be_bytes());
            b.extend_from_slice(&[0, 1, 0, 0, 0, 60]);
            b.extend_from_slice(&(rd.len() as u16).to_be_bytes());
            b.extend_from_slice(rd);
            b
        };
        // a cell = (bytes of the name, offset of its pointer part inside the bytes if any)
        let shapes = |targets: &[usize], label: u8| -> Vec<Vec<u8>> {
            let mut v = Vec::new();
            for &t in targets {
                v.push(ptr(t));
                let mut l = vec![1, label];
                l.extend(ptr(t));
                v.push(l);
                let mut l2 = vec![1, label, 1, label];
                l2.extend(ptr(t));
                v.push(l2);
            }
            v
        };
        let mut msgs: Vec<Vec<u8>> = Vec::new();
        let base: Vec<u8> = vec![1, b'a', 1, b'b', 0]; // a.b. at 12, b. at 14
        let p0 = 12usize;
        for n1 in shapes(&[p0, p0 + 2], b'x') {
            let r0 = rec(&base, 1, &[1, 2, 3, 4]);
            let p1 = 12 + r0.len();
            let r1 = rec(&n1, 1, &[1, 2, 3, 4]);
            // targets inside n1: its start, and its pointer cell (if behind labels)
            let mut t1 = vec![p1];
            if n1.len() > 2 {
                t1.push(p1 + n1.len() - 2);
            }
            for n2 in shapes(&t1, b'y') {
                let p2 = p1 + r1.len();
                let r2 = rec(&n2, 1, &[1, 2, 3, 4]);
                let mut t2 = vec![p2];
                if n2.len() > 2 {
                    t2.push(p2 + n2.len() - 2);
                }
                let p3 = p2 + r2.len();
                let _ = p3;
                for n3 in shapes(&t2, b'z') {
                    let mut finals: Vec<Vec<u8>> = vec![rec(&n3, 1, &[1, 2, 3, 4])];
                    for rt in [2u16, 5, 12, 39] {
                        finals.push(rec(&[1, b'o', 0], rt, &n3));
                    }
                    let cat = |parts: &[&[u8]]| parts.iter().flat_map(|p| p.iter().cloned()).collect::<Vec<u8>>();
                    finals.push(rec(&[1, b'o', 0], 15, &cat(&[&[0, 5], &n3])));
                    finals.push(rec(&[1, b'o', 0], 6, &cat(&[&n3, &[1, b'r', 0], &[0; 20]])));
                    finals.push(rec(&[1, b'o', 0], 6, &cat(&[&[1, b'm', 0], &n3, &[0; 20]])));
                    finals.push(rec(&[1, b'o', 0], 33, &cat(&[&[0, 1, 0, 2, 0, 3], &n3])));
                    finals.push(rec(&[1, b'o', 0], 17, &cat(&[&n3, &[0]])));
                    finals.push(rec(&[1, b'o', 0], 17, &cat(&[&[0], &n3])));
                    finals.push(rec(&[1, b'o', 0], 47, &cat(&[&n3, &[0, 1, 0x40]])));
                    finals.push(rec(&[1, b'o', 0], 46, &cat(&[&[0, 1, 13, 2, 0, 0, 0, 60, 0, 0, 0, 2, 0, 0, 0, 1, 0, 7], &n3, &[9, 9]])));
                    for f in finals {
                        let mut m = header(0x8400, [0, 4, 0, 0]);
                        m.extend_from_slice(&r0);
                        m.extend_from_slice(&r1);
                        m.extend_from_slice(&r2);
                        m.extend_from_slice(&f);
                        msgs.push(m);
                    }
                }
            }
        }
        stats.count_n("gen.pointer_chain_messages", msgs.len() as u64);
        msgs.par_iter().for_each(|m| {
            run_case(&ctx, &stats, &wd, m, "pointer-chains");
            run_pairs(&ctx, &wd, m, "pointer-chains");
        });
    }
    // --- label-count axis: names of 126..=129 labels, flat / through one / through two chained
    // pointers, at every kind of name position; plus all names of the message pairwise
    {
        let msgs = label_count_messages(quick);
        stats.count_n("gen.label_count_messages", msgs.len() as u64);
        msgs.par_iter().for_each(|m| {
            run_case(&ctx, &stats, &wd, m, "label-count");
            run_pairs(&ctx, &wd, m, "label-count");
        });
    }
    // --- length axis x selector axis: per record type the product of its selector octets
    // (algorithm, digest type, flags, usage, gateway type, ...) with every tail length to a
    // bound and past every defined size x fillers; per EDNS option code every OPTION-LENGTH
    {
        let mut total = 0u64;
        for (rt, rdatas) in rdata_axis(quick) {
            total += rdatas.len() as u64;
            stats.count_n(&format!("gen.rdata_axis.type_{rt}"), rdatas.len() as u64);
            rdatas.par_iter().for_each(|rd| {
                if rd.len() <= 0xFFFF {
                    run_case(&ctx, &stats, &wd, &axis_message(rt, rd), "rdata-axis");
                }
            });
        }
        stats.count_n("gen.rdata_axis_messages", total);
        let opts = opt_axis(quick);
        stats.count_n("gen.opt_axis_messages", opts.len() as u64);
        opts.par_iter().for_each(|rd| run_case(&ctx, &stats, &wd, &axis_message(41, rd), "opt-axis"));
    }
    // --- raw tier: every byte string of length n over 9 symbols after each header
    let raw: Vec<u8> = vec![0x00, 0x01, 0x3F, 0x40, 0x80, 0xC0, 0x0C, 0xFF, b'a'];
    let rawlen = if quick { 5 } else { 7 };
    let headers = [header(0x8400, [1, 0, 0, 0]), header(0x8400, [0, 1, 0, 0]), header(0x8400, [0, 0, 0, 1]), header(0, [1, 1, 0, 0])];
    for n in 0..=rawlen {
        let total = pow(raw.len(), n);
        (0..total).into_par_iter().for_each(|k| {
            let mut body = Vec::new();
            nth_string(&raw, n, k, &mut body);
            for h in &headers {
                let mut m = h.clone();
                m.extend_from_slice(&body);
                run_case(&ctx, &stats, &wd, &m, "raw");
            }
        });
    }
    // messages shorter than a header
    for n in 0..12 {
        run_case(&ctx, &stats, &wd, &vec![0xC0; n], "short");
    }
    // max-size message of pointers
    let mut big = header(0x8400, [0, 0xFFFF, 0, 0]);
    while big.len() < 65535 {
        big.extend_from_slice(&[0xC0, 0x0C]);
    }
    big.truncate(65535);
    run_case(&ctx, &stats, &wd, &big, "max-size-pointers");

    stats.sample(1, || json!({"family": "one-item", "message": hex(&assemble(&[&first[first.len() / 2]], 0x8400, [0, 1, 0, 0]))}));
    stats.sample(2, || json!({"family": "one-item", "message": hex(&assemble(&[&first[first.len() - 1]], 0x8400, [0, 0, 0, 1]))}));
    stats.sample(3, || json!({"family": "rdata-axis", "message": hex(&axis_message(43, &[0x12, 0x34, 8, 2, 1, 2, 3, 4, 5]))}));
    stats.sample(4, || json!({"family": "opt-axis", "message": hex(&axis_message(41, &[0, 8, 0, 7, 0, 1, 24, 0, 192, 0, 2]))}));
    stats.sample(5, || json!({"family": "raw", "message": hex(&[&headers[0][..], &[0xC0, 0x0C, 0x00, 0x01, 0x00][..]].concat())}));
    let cov = json!({
        "evaluations": stats.evals(),
        "distinct_nontrivial": stats.nontrivial.load(std::sync::atomic::Ordering::Relaxed).min(stats.distinct_count()),
        "rule": "messages = header variants x items from per-field menus (names incl. pointers to every landmark, ~35 record types x RDATA variants incl. every internal length field short/long, rdlen exact/-1/+1/0/0xFFFF) for 1, 2 and 3 items; the pointer-chain family (every topology of up to three chained pointers, bare or behind one or two labels, aimed at the start of the previous name or at its pointer cell, ending at every kind of name position); the LABEL-COUNT family (names of 126 / 127 / 128 labels = 127 one-octet labels + root = 255 octets, and of 129 labels which must be refused; spelled flat, as 100 / 1 / 0 / 127 head labels + a pointer to the start of a 26..29-label name or into the middle of a 128-label name, and through two chained pointers head -> middle -> tail incl. bare-pointer heads and middles and a root-only tail, so that the limit is reached only after decompression; as question name behind questions holding the tails, as owner, as owner next to a twin differing in the first label, inside CNAME / SOA / RRSIG RDATA, thorough also NS / PTR / DNAME / MX / SOA mname / SRV / RP / NSEC / SVCB; labels alternate in case), whose names go through the same battery and derivations as all others; on this and the pointer-chain family additionally ALL NAMES OF THE MESSAGE PAIRWISE (every ordered pair of question names, owners and RDATA names incl. a name with itself: name_cmp / cmp / partial_cmp / canonical_cmp against the RFC 4034 order of the label lists, == / name_eq against case-insensitive label equality, hash of equal names, composed_cmp / lowercase_composed_cmp against octet order, ends_with / starts_with) and all records / all questions of the message pairwise (cmp, partial_cmp, canonical_cmp, == total and antisymmetric); every truncation of short one-item messages; every raw body over 9 symbols to the raw length. Each case runs the full read-side script twice. Every name handed out (question, owner, RDATA names, canonical_name) must be the independent decompression (mc::wire) of some position of the message and passes the name battery (label iteration from both ends, to_vec/to_bytes/to_name/compose/compose_len/as_flat_slice/try_flatten_into/flatten_into/to_cow/deref_octets/canonical forms equal to the independent wire form; ==, name_eq, name_cmp, canonical_cmp, partial_cmp, composed_cmp, lowercase_composed_cmp, starts_with, ends_with in both directions against flat names built from the independent labels: the same name, its lowercase form, the root, the parent, one label more in front / before the root, with the RFC 4034 order as oracle; hash; displays); the SAME battery is applied to every name object derived from it: the ref_octets/deref_octets views, every item of iter_suffixes(), every step of the parent() walk, of the split_first() walk and of the two alternating parent/split_first walks (incl. the refused step at the root), each against the matching suffix of the independent labels, plus equality of the same suffix reached by different routes (thorough: derivations of every derived object once more). LENGTH AXIS x SELECTOR AXIS x EVERY ACCESSOR: (rdata-axis) per record type with a variable-length tail or a selector-dependent reading (DNSKEY/CDNSKEY flags x protocol x algorithm, DS/CDS algorithm x digest type, RRSIG algorithm x labels x times x signer, NSEC window x bitmap length, NSEC3/NSEC3PARAM hash algorithm x flags x salt x hash, TLSA, SSHFP, IPSECKEY gateway type x algorithm x gateway, ZONEMD, SVCB/HTTPS every parameter key, CAA, NAPTR, TSIG, HINFO, TXT, OPENPGPKEY, NULL, A, AAAA, an unknown type) the product of the selector menus with every tail length 0..=12 (thorough 0..=70) and the neighbourhoods of 16/20/32/40/48/64 (thorough 96/128/255/256/512/1024) x fillers (zeros, ones, counting, length-prefixed; thorough letters, high bit); (opt-axis) every EDNS option code 0..=18, 26946 and unknown ones x selector prefixes (client-subnet family x prefix lengths, extended-error code, chain name) x OPTION-LENGTH 0..=50, 255, 256 (thorough 0..=80 and to 1000) x fillers, alone / announcing one octet more than RDLENGTH holds / between two other options. On these families, the one-item and pointer-chain families (thorough: all) every record additionally goes through: every public accessor of its record data type incl. the computing ones (key_tag, is_* predicates, bitmap contains vs iteration, signature time as system time, TSIG validity window, SVCB typed getters and typed value iterators, TXT text forms, character-string displays), the typed route to_record::<T>() and the zone-data route against the any-route (same acceptance, equal values, equal display), and on the typed values plain/debug/zone-style display in every DisplayKind, serde serialisation, hash, ==/partial_cmp/canonical_cmp against itself, compose/compose_canonical/rdlen; every OPT record through: raw option iteration against an independent TLV walk, the any-option iterator (item = option at its position), every accessor / Display / Debug / compose_len vs composed octets of every option type, one typed iterator and first::<T>() per option type, all typed getters, cookie standard-form and server-hash checks. non-trivial = typed RDATA or OPT option parsing succeeded at least once or a compressed name was returned; distinct = distinct message octets (hash set) among those",
        "distinct_transcript_shapes_and_messages": stats.distinct_count(),
        "exhaustive": true,
        "raw_len": rawlen,
        "names_exercised": NAMES.load(std::sync::atomic::Ordering::Relaxed),
        "derived_name_objects_exercised": DERIVED.load(std::sync::atomic::Ordering::Relaxed),
        "name_batteries_run": BATTERIES.load(std::sync::atomic::Ordering::Relaxed),
        "typed_values_and_options_through_the_accessor_battery": DEEP_READS.load(std::sync::atomic::Ordering::Relaxed),
        "names_of_126_127_128_labels_exercised": LABEL_LIMIT_NAMES.iter().map(|c| c.load(std::sync::atomic::Ordering::Relaxed)).collect::<Vec<u64>>(),
        "ordered_pairs_of_names_records_questions_of_one_message_compared": NAME_PAIRS.load(std::sync::atomic::Ordering::Relaxed),
        "samples": stats.samples(),
        "counters": stats.counters_json(),
    });
    ctx.finish(cov, &[
        "octet values outside the menus and messages with more than three items are not covered",
        "tail lengths beyond the length axis (quick: 65, thorough: 1025 octets) and selector values outside the menus (quick) are not covered; the length-axis records stand alone in their message",
        "a case that does not finish within 20 s is reported as a hang",
        "out-of-bounds reads behind unsafe are only detected if they panic or change the transcript",
    ]);
}
