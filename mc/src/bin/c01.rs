//! C01 — reading any octet string as a DNS message is total.
//!
//! gramx: every message derivable from a token grammar (header variants x
//! items x per-field menus x pointer targets at every landmark) plus every
//! raw byte string over a 9-symbol alphabet after the header. For each the
//! complete read-side script is run twice under catch_unwind and a hang
//! watchdog; transcripts must be equal, parsed names must agree with an
//! independent decompressor.
use domain::base::name::{Label, ParsedName, ToLabelIter, ToName};
use domain::base::opt::AllOptData;
use domain::base::{Message, MessageBuilder, ParsedRecord};
use domain::net::xfr::protocol::XfrResponseInterpreter;
use domain::base::opt::Opt;
use domain::rdata::{AllRecordData, Cname, Soa, Txt, A};
use mc::*;
use rayon::prelude::*;
use serde_json::{json, Value};
use std::fmt::Write as _;
use std::sync::Arc;
use std::time::Duration;

const LIMIT: usize = 70_000; // above any legal count (65535)
static NAMES: std::sync::atomic::AtomicU64 = std::sync::atomic::AtomicU64::new(0);
static DERIVED: std::sync::atomic::AtomicU64 = std::sync::atomic::AtomicU64::new(0);
static BATTERIES: std::sync::atomic::AtomicU64 = std::sync::atomic::AtomicU64::new(0);

// ------------------------------------------------------------ the script

struct T {
    s: String,
    names: u32,
    ptr_names: u32,
    rdata_parsed: u32,
    errs: Vec<String>,
    /// derived name objects (suffixes, parents, split_first remainders) put through the battery
    derived: u32,
    batteries: u32,
    /// derive name objects in this run of the script (first of the two runs)
    derive: bool,
    /// derived objects get the full battery, not only its core
    full_derived: bool,
    /// thorough tier: derivations of derived names
    deep: bool,
}
impl T {
    fn ev(&mut self, k: &str) {
        self.s.push_str(k);
        self.s.push(';');
    }
}

/// What the independent label list says about one name object: its labels
/// (root label included), their uncompressed wire form and the lowercased
/// wire form. For a suffix these are sub-slices of the original's.
#[derive(Clone, Copy)]
struct Exp<'a> {
    labels: &'a [Vec<u8>],
    want: &'a [u8],
    lower: &'a [u8],
}
impl<'a> Exp<'a> {
    /// The expectation for the name with the first `k` labels dropped.
    fn suffix(&self, k: usize) -> Exp<'a> {
        let off: usize = self.labels[..k].iter().map(|l| 1 + l.len()).sum();
        Exp { labels: &self.labels[k..], want: &self.want[off..], lower: &self.lower[off..] }
    }
}

/// Exercise a parsed name: everything must work, the labels must be the
/// independent decompression (mc::wire) of some position of the message, and
/// every name object DERIVED from it (each item of iter_suffixes(), each step
/// of a parent() walk, each remainder of a split_first() walk, alternating
/// walks) must pass the same battery as the name itself, against the
/// corresponding suffix of the independent label list.
fn use_name(t: &mut T, n: &ParsedName<&[u8]>, msg: &[u8]) {
    t.names += 1;
    if n.is_compressed() {
        t.ptr_names += 1;
    }
    let fwd: Vec<Vec<u8>> = n.iter().take(300).map(|l| l.as_slice().to_vec()).collect();
    if fwd.len() >= 300 {
        t.errs.push("name|label-iteration-does-not-end".into());
        return;
    }
    if fwd.last().map(|l| l.len()) != Some(0) {
        t.errs.push("name|does-not-end-with-root".into());
        return;
    }
    let want = wire_of(&fwd);
    if mc::wire::validate_name(&want, true).is_err() {
        t.errs.push("name|parsed-name-is-not-a-valid-name".into());
        return;
    }
    let lower = want.to_ascii_lowercase();
    // independent decompression: a name handed out for this message is the decompression of at
    // least one position of the message (candidates: positions holding a pointer or the first label)
    if t.derive && msg.len() <= 4096 {
        let first = &want[..1 + want[0] as usize];
        let found = (0..msg.len()).any(|p| {
            if msg[p] < 0xC0 && !msg[p..].starts_with(first) {
                return false;
            }
            let mut ptrs = Vec::new();
            match mc::wire::read_name(msg, p, &mut ptrs) {
                Ok((labels, _)) => labels.len() + 1 == fwd.len() && labels.iter().zip(&fwd).all(|(a, b)| a == b),
                Err(_) => false,
            }
        });
        if !found {
            t.errs.push("name|not-the-independent-decompression-of-any-position".into());
        }
    }
    let e = Exp { labels: &fwd, want: &want, lower: &lower };
    battery(t, n, e, "name", true);
    if t.derive {
        let depth = if t.deep { 2 } else { 1 };
        derived(t, n, e, depth, "");
    }
    let d = format!("{}", n);
    let _ = write!(t.s, "n({},{});", fwd.len(), d.len());
}

/// Uncompressed wire form of a label list that includes the root label.
fn wire_of(labels: &[Vec<u8>]) -> Vec<u8> {
    let mut want = Vec::new();
    for l in labels {
        want.push(l.len() as u8);
        want.extend_from_slice(l);
    }
    want
}

/// Every way of deriving a name object from `n`, each derived object put
/// through the battery against the suffix of the expectation (k = number of
/// labels dropped). `depth` > 1 repeats the derivations on every derived
/// object.
fn derived(t: &mut T, n: &ParsedName<&[u8]>, e: Exp<'_>, depth: u32, via: &str) {
    let count = e.labels.len();
    let full = t.full_derived;
    let tag = |route: &str| if via.is_empty() { route.to_string() } else { format!("{via}{route}") };
    // route A: iter_suffixes()
    let mut sufs: [Option<ParsedName<&[u8]>>; 12] = [None; 12];
    let mut nsuf = 0usize;
    for (k, s) in n.iter_suffixes().take(300).enumerate() {
        nsuf += 1;
        if k >= count {
            continue;
        }
        if k < sufs.len() {
            sufs[k] = Some(s);
        }
        t.derived += 1;
        battery(t, &s, e.suffix(k), "iter_suffixes", full);
        if !n.ends_with(&s) {
            t.errs.push(format!("derived-name|{}|name-does-not-end-with-its-suffix", tag("iter_suffixes")));
        }
        if depth > 1 && k > 0 {
            derived(t, &s, e.suffix(k), depth - 1, &format!("{via}iter_suffixes>"));
        }
    }
    if nsuf != count {
        t.errs.push(format!("derived-name|{}|number-of-suffixes-differs-from-number-of-labels", tag("iter_suffixes")));
    }
    // routes B, C: parent() walk, split_first() walk; D, E: the two alternating walks (their
    // first step is the first step of B or C, so their objects count from the second step)
    for (route, pattern) in [("parent", [true, true]), ("split_first", [false, false]), ("parent+split_first", [true, false]), ("split_first+parent", [false, true])] {
        let pure = pattern[0] == pattern[1];
        if !pure && count < 3 {
            continue;
        }
        let mut p = *n;
        let mut k = 0usize;
        loop {
            let more = if pattern[k % 2] {
                p.parent()
            } else {
                let exp_label = &e.labels[k];
                match p.split_first() {
                    Some(f) => {
                        let f = f.as_slice();
                        if k + 1 >= count || f.len() != 1 + exp_label.len() || f[0] as usize != exp_label.len() || f[1..] != exp_label[..] {
                            t.errs.push(format!("derived-name|{}|split_first-returns-wrong-label", tag(route)));
                            break;
                        }
                        true
                    }
                    None => false,
                }
            };
            if more != (k + 1 < count) {
                t.errs.push(format!("derived-name|{}|walk-ends-at-wrong-label", tag(route)));
                break;
            }
            if !more {
                // a refused step must leave the name as it was
                t.derived += 1;
                battery(t, &p, e.suffix(k), &format!("{route}(refused-step)"), full);
                break;
            }
            k += 1;
            if !pure && k < 2 {
                continue;
            }
            t.derived += 1;
            battery(t, &p, e.suffix(k), route, full);
            // the same suffix reached by different routes is the same name
            if let Some(Some(s)) = sufs.get(k) {
                use std::cmp::Ordering::Equal;
                if !(p == *s) || !(*s == p) || p.cmp(s) != Equal || p.composed_cmp(s) != Equal || s.composed_cmp(&p) != Equal || p.lowercase_composed_cmp(s) != Equal {
                    t.errs.push(format!("derived-name|{}|differs-from-same-suffix-by-iter_suffixes", tag(route)));
                }
            }
            if !n.ends_with(&p) {
                t.errs.push(format!("derived-name|{}|name-does-not-end-with-its-suffix", tag(route)));
            }
            if depth > 1 && pure {
                derived(t, &p, e.suffix(k), depth - 1, &format!("{via}{route}>"));
            }
        }
    }
}

/// The battery on one name object: the operations of ParsedName's public API
/// and of the ToName / ToLabelIter / FlattenInto / comparison / hash traits,
/// each result compared with what the independent label list says. The flat
/// partner names are built from the independent labels, not from the object
/// under test. The core part (everything that depends on the cached
/// position / length / compressed-flag of the object) always runs; `full`
/// adds the remaining conversions, views and the comparisons with further
/// different names.
fn battery<O: octseq::Octets>(t: &mut T, n: &ParsedName<O>, e: Exp<'_>, tag: &str, full: bool) {
    use domain::base::cmp::CanonicalOrd;
    use domain::base::name::{FlattenInto, Name};
    use std::cmp::Ordering::{self, Equal, Greater};
    use std::hash::{Hash, Hasher};
    t.batteries += 1;
    let (exp, want, lower) = (e.labels, e.want, e.lower);
    let mut errs: Vec<String> = Vec::new();
    let mut bad = |k: &str| errs.push(if tag == "name" { format!("name-api|{k}") } else { format!("derived-name|{tag}|{k}") });
    // ---- core
    // label iteration, both directions (bounded: a name has at most 128 labels)
    if n.iter().take(300).count() >= 300 || n.iter().rev().take(300).count() >= 300 {
        bad("label-iteration-does-not-end");
        t.errs.extend(errs);
        return;
    }
    if !n.iter().map(|l| l.as_slice()).eq(exp.iter().map(|v| v.as_slice())) {
        bad("labels-differ-from-independent-labels");
    }
    if !n.iter().rev().map(|l| l.as_slice()).eq(exp.iter().rev().map(|v| v.as_slice())) {
        bad("labels-iterated-backwards-differ-from-independent-labels");
    }
    if n.iter_labels().count() != exp.len() || n.label_count() != exp.len() {
        bad("label_count");
    }
    if n.is_root() != (exp.len() == 1) {
        bad("is_root");
    }
    if n.first().as_slice() != exp[0].as_slice() || !n.last().is_root() {
        bad("first-or-last");
    }
    // octet forms
    if usize::from(n.compose_len()) != want.len() {
        bad("compose_len-wrong");
    }
    if let Some(s) = n.as_flat_slice() {
        if s != want {
            bad("as_flat_slice-differs-from-independent-labels");
        }
    }
    let mut buf = Vec::with_capacity(want.len() + 8);
    n.compose(&mut buf).unwrap();
    if buf != want {
        bad("compose-differs-from-independent-labels");
    }
    buf.clear();
    n.compose_canonical(&mut buf).unwrap();
    if buf != lower {
        bad("compose_canonical");
    }
    if n.to_vec().as_slice() != want {
        bad("to_vec-differs-from-independent-labels");
    }
    if n.to_cow().as_slice() != want {
        bad("to_cow-differs-from-independent-labels");
    }
    match n.ref_octets().try_flatten_into() {
        Ok::<Name<Vec<u8>>, _>(f) => {
            if f.as_slice() != want {
                bad("try_flatten_into-differs-from-independent-labels");
            }
        }
        Err(_) => bad("try_flatten_into-failed"),
    }
    // comparisons with itself and with the flat names made from the independent labels
    if !(n == n) || n.cmp(n) != Equal || n.canonical_cmp(n) != Equal || n.composed_cmp(n) != Equal || !n.name_eq(n) {
        bad("not-equal-to-itself");
    }
    let (flat, flat_lower): (Name<&[u8]>, Name<&[u8]>) = match (Name::from_octets(want), Name::from_octets(lower)) {
        (Ok(a), Ok(b)) => (a, b),
        _ => {
            bad("independent-labels-are-not-a-name");
            t.errs.extend(errs);
            return;
        }
    };
    if !(*n == flat) || !(flat == *n) || !n.name_eq(&flat) || !flat.name_eq(n) || !n.name_eq(&flat_lower) {
        bad("not-equal-to-flat-name-of-same-labels");
    }
    if n.name_cmp(&flat) != Equal || flat.name_cmp(n) != Equal || n.canonical_cmp(&flat) != Equal || n.partial_cmp(&flat) != Some(Equal) || n.name_cmp(&flat_lower) != Equal {
        bad("orders-vs-flat-name-of-same-labels");
    }
    if n.composed_cmp(&flat) != Equal || flat.composed_cmp(n) != Equal || n.lowercase_composed_cmp(&flat_lower) != Equal || flat_lower.lowercase_composed_cmp(n) != Equal || flat.lowercase_composed_cmp(n) != Equal {
        bad("composed-orders-vs-flat-name-of-same-labels");
    }
    if !n.starts_with(&flat) || !n.ends_with(&flat) || !flat.ends_with(n) || !flat.starts_with(n) || !n.ends_with(&Name::root_ref()) {
        bad("starts_with-or-ends_with-same-labels");
    }
    // ... and with a different one: the independent parent (RFC 4034 6.1: a name sorts after its parent)
    if exp.len() > 1 {
        let pw = &want[1 + exp[0].len()..];
        let parent: Name<&[u8]> = Name::from_octets(pw).unwrap();
        if *n == parent || parent == *n || n.name_eq(&parent) || parent.name_eq(n) {
            bad("equal-to-its-parent");
        }
        if n.name_cmp(&parent) != Greater || parent.name_cmp(n) != Ordering::Less || n.canonical_cmp(&parent) != Greater || n.partial_cmp(&parent) != Some(Greater) {
            bad("order-relative-to-its-parent");
        }
        if n.composed_cmp(&parent) != want.cmp(pw) || parent.composed_cmp(n) != pw.cmp(want) {
            bad("composed-order-relative-to-its-parent");
        }
        if !n.ends_with(&parent) || n.starts_with(&parent) {
            bad("ends_with-or-starts_with-its-parent");
        }
    }
    // hash
    let (mut h1, mut h2) = (std::collections::hash_map::DefaultHasher::new(), std::collections::hash_map::DefaultHasher::new());
    n.hash(&mut h1);
    flat.hash(&mut h2);
    if h1.finish() != h2.finish() {
        bad("hash-differs-from-equal-flat-name");
    }
    let want_rrsig = exp.len() as u8 - 1 - (exp[0].as_slice() == b"*") as u8;
    if n.rrsig_label_count() != want_rrsig {
        bad("rrsig_label_count");
    }
    // display must work
    let d = format!("{}", n);
    if d.is_empty() {
        bad("display-empty");
    }
    if !full {
        t.errs.extend(errs);
        return;
    }
    // ---- full
    {
        // mixed front/back pulls meet in the middle
        let mut it = n.iter();
        let mut front: Vec<&[u8]> = Vec::new();
        let mut back: Vec<&[u8]> = Vec::new();
        let mut turn = 0;
        loop {
            let x = if turn % 2 == 0 { it.next().map(|l| (true, l.as_slice())) } else { it.next_back().map(|l| (false, l.as_slice())) };
            match x {
                Some((true, l)) => front.push(l),
                Some((false, l)) => back.push(l),
                None => break,
            }
            turn += 1;
            if turn > 300 {
                break;
            }
        }
        back.reverse();
        front.extend(back);
        if !front.iter().cloned().eq(exp.iter().map(|v| v.as_slice())) {
            bad("labels-iterated-from-both-ends-differ-from-independent-labels");
        }
    }
    if n.to_bytes().as_slice() != want || n.to_name::<Vec<u8>>().as_slice() != want {
        bad("to_bytes-or-to_name-differs-from-independent-labels");
    }
    {
        let f: Name<Vec<u8>> = n.ref_octets().flatten_into();
        let g: Name<bytes::Bytes> = n.ref_octets().flatten_into();
        if f.as_slice() != want || g.as_slice() != want {
            bad("flatten_into-differs-from-independent-labels");
        }
    }
    {
        // the views are the same name
        let r = n.ref_octets();
        let dr = r.deref_octets();
        if dr.to_vec().as_slice() != want || !(r == flat) || !(dr == flat) || r.as_flat_slice().map(|s| s == want) == Some(false) || dr.as_flat_slice().map(|s| s == want) == Some(false) || r.composed_cmp(&flat) != Equal || dr.composed_cmp(&flat) != Equal {
            bad("ref_octets-or-deref_octets-view-differs-from-independent-labels");
        }
        buf.clear();
        dr.compose(&mut buf).unwrap();
        if buf != want {
            bad("deref_octets-view-composes-differently");
        }
    }
    let canon: Name<Vec<u8>> = n.to_canonical_name();
    if canon.as_slice() != lower {
        bad("to_canonical_name");
    }
    // comparisons with further different names: the root, one more label in front / before the root
    let mut others: Vec<Vec<Vec<u8>>> = vec![vec![vec![]]];
    if want.len() + 2 <= 255 {
        let mut o = vec![b"q".to_vec()];
        o.extend_from_slice(exp);
        others.push(o);
        let mut o = exp.to_vec();
        let last = o.len() - 1;
        o.insert(last, b"q".to_vec());
        others.push(o);
    }
    for o in &others {
        let ow = wire_of(o);
        let olow = ow.to_ascii_lowercase();
        let on: Name<&[u8]> = Name::from_octets(ow.as_slice()).unwrap();
        let same = mc::wire::labels_eq_ci(&exp[..exp.len() - 1], &o[..o.len() - 1]);
        let ord: Ordering = mc::wire::canonical_name_cmp(&exp[..exp.len() - 1], &o[..o.len() - 1]);
        if (*n == on) != same || (on == *n) != same || n.name_eq(&on) != same {
            bad("equality-with-a-different-flat-name");
        }
        if n.name_cmp(&on) != ord || on.name_cmp(n) != ord.reverse() || n.canonical_cmp(&on) != ord || n.partial_cmp(&on) != Some(ord) {
            bad("order-relative-to-a-different-flat-name");
        }
        if n.composed_cmp(&on) != want.cmp(ow.as_slice()) || on.composed_cmp(n) != ow.as_slice().cmp(want) {
            bad("composed-order-relative-to-a-different-flat-name");
        }
        if n.lowercase_composed_cmp(&on) != lower.cmp(olow.as_slice()) || on.lowercase_composed_cmp(n) != olow.as_slice().cmp(lower) {
            bad("lowercase-composed-order-relative-to-a-different-flat-name");
        }
        if n.ends_with(&on) != (o.len() <= exp.len() && mc::wire::labels_eq_ci(&exp[exp.len() - o.len()..], o)) {
            bad("ends_with-a-different-flat-name");
        }
        if n.starts_with(&on) != (o.len() <= exp.len() && mc::wire::labels_eq_ci(&exp[..o.len()], o)) {
            bad("starts_with-a-different-flat-name");
        }
    }
    // displays: with and without trailing dot agree
    let dd = format!("{}", n.fmt_with_dot());
    let _ = format!("{:?}", n);
    if dd.is_empty() || !(dd == d || dd.strip_suffix('.') == Some(d.as_str())) {
        bad("display-with-dot-is-not-display-plus-dot");
    }
    t.errs.extend(errs);
}

fn script(msg: &[u8], t: &mut T) {
    let m = match Message::from_slice(msg) {
        Ok(m) => m,
        Err(_) => {
            t.ev("short");
            if msg.len() >= 12 {
                t.errs.push("message|from_octets-rejects-12+".into());
            }
            if Message::from_octets(msg).is_ok() {
                t.errs.push("message|from_slice-vs-from_octets".into());
            }
            return;
        }
    };
    let h = m.header();
    let c = m.header_counts();
    let _ = write!(t.s, "h{}:{:?}:{:?}:{}{}{};c{},{},{},{};", h.id(), h.opcode(), h.rcode(), h.qr() as u8, h.tc() as u8, h.aa() as u8, c.qdcount(), c.ancount(), c.nscount(), c.arcount());
    let _ = (m.no_error(), m.is_error(), m.header_section());
    // independent parse for cross-checking
    let indep = mc::wire::read_message(msg);

    // questions
    let mut qs = 0;
    for q in m.question().take(LIMIT) {
        match q {
            Ok(q) => {
                qs += 1;
                use_name(t, q.qname(), msg);
                let _ = write!(t.s, "q{}:{};", q.qtype().to_int(), q.qclass().to_int());
                let _ = format!("{} {:?}", q, q);
                {
                    use domain::base::cmp::CanonicalOrd;
                    use std::hash::{Hash, Hasher};
                    let mut hh = std::collections::hash_map::DefaultHasher::new();
                    q.hash(&mut hh);
                    let _ = hh.finish();
                    if !(q == q) || q.cmp(&q) != std::cmp::Ordering::Equal || q.canonical_cmp(&q) != std::cmp::Ordering::Equal {
                        t.errs.push("question|not-equal-to-itself".into());
                    }
                    let mut qb = Vec::new();
                    let _ = q.compose(&mut qb);
                }
            }
            Err(_) => {
                t.ev("qerr");
                break;
            }
        }
    }
    let _ = write!(t.s, "qs{};", qs);
    // sections()
    match m.sections() {
        Ok((q, an, ns, ar)) => {
            t.ev("sections-ok");
            let _ = q.count();
            let mut all: Vec<(usize, Vec<Vec<u8>>, u16, u16, u32, usize)> = Vec::new();
            for (si, sec) in [an, ns, ar].into_iter().enumerate() {
                let mut n = 0;
                for r in sec.take(LIMIT) {
                    match r {
                        Ok(r) => {
                            n += 1;
                            record(t, &r, msg);
                            all.push((si, r.owner().iter().filter(|l| !l.is_root()).map(|l| l.as_slice().to_vec()).collect(), r.rtype().to_int(), r.class().to_int(), r.ttl().as_secs(), usize::from(r.rdlen())));
                        }
                        Err(_) => {
                            t.ev("rerr");
                            break;
                        }
                    }
                }
                let _ = write!(t.s, "s{}={};", si, n);
            }
            // cross-check against the independent reader when it accepts the whole message
            if let Ok(im) = &indep {
                let mut want = Vec::new();
                for (si, s) in im.sections.iter().enumerate() {
                    for r in s {
                        want.push((si, r.owner.clone(), r.rtype, r.class, r.ttl, r.rdata.len()));
                    }
                }
                if want != all {
                    t.errs.push("sections|records-differ-from-independent-reader".into());
                }
                if qs != im.questions.len() {
                    t.errs.push("sections|question-count-differs-from-independent-reader".into());
                }
            }
        }
        Err(_) => {
            t.ev("sections-err");
            if indep.is_ok() {
                t.errs.push("sections|error-on-message-the-independent-reader-accepts".into());
            }
        }
    }
    // per-section accessors and typed iteration
    for (name, sec) in [("an", m.answer()), ("ns", m.authority()), ("ar", m.additional())] {
        match sec {
            Ok(sec) => {
                let a = sec.limit_to::<A>().take(LIMIT).map(|r| r.is_ok() as u32).sum::<u32>();
                let cn = sec.limit_to::<Cname<_>>().take(LIMIT).map(|r| r.is_ok() as u32).sum::<u32>();
                let so = sec.limit_to_in::<Soa<_>>().take(LIMIT).map(|r| r.is_ok() as u32).sum::<u32>();
                let tx = sec.limit_to::<Txt<_>>().take(LIMIT).map(|r| r.is_ok() as u32).sum::<u32>();
                let op = sec.limit_to::<Opt<_>>().take(LIMIT).map(|r| r.is_ok() as u32).sum::<u32>();
                let all = sec.limit_to::<AllRecordData<_, _>>().take(LIMIT).map(|r| r.is_ok() as u32).sum::<u32>();
                let any = sec.into_records::<AllRecordData<_, _>>().take(LIMIT).map(|r| r.is_ok() as u32).sum::<u32>();
                let _ = write!(t.s, "{name}:{a},{cn},{so},{tx},{op},{all},{any};");
                // next_section chain
                let mut cur = Some(sec);
                let mut hops = 0;
                while let Some(s) = cur {
                    hops += 1;
                    cur = match s.next_section() {
                        Ok(n) => n,
                        Err(_) => {
                            t.ev("next-err");
                            None
                        }
                    };
                    if hops > 5 {
                        t.errs.push("sections|next_section-does-not-end".into());
                        break;
                    }
                }
            }
            Err(_) => t.ev(&format!("{name}-err")),
        }
    }
    // RFC 2136 views of the same sections, slice view, typed iterator hand-over
    {
        let z = m.zone().take(LIMIT).filter(|q| q.is_ok()).count();
        let pr = m.prerequisite().map(|s| s.take(LIMIT).filter(|r| r.is_ok()).count());
        let up = m.update().map(|s| s.take(LIMIT).filter(|r| r.is_ok()).count());
        let _ = write!(t.s, "upd{z}:{:?}:{:?};", pr.ok(), up.ok());
        let sl = m.for_slice();
        if sl.header_counts().as_slice() != m.header_counts().as_slice() {
            t.errs.push("message|for_slice-differs".into());
        }
        if let Ok(an) = m.answer() {
            let p0 = an.pos();
            let mut it = an.limit_to::<A>();
            let mut k = 0;
            while let Some(r) = it.next() {
                k += 1;
                if r.is_err() || k > LIMIT {
                    break;
                }
            }
            let back = it.clone().unwrap();
            let nxt = it.next_section().map(|s| s.map(|s| s.pos()));
            let _ = write!(t.s, "typed{k}:{p0}:{}:{:?};", back.pos(), nxt.ok());
        }
        let mut qs2 = m.question();
        let _ = qs2.next();
        let _ = write!(t.s, "qpos{};", qs2.pos());
    }
    // message iterator
    let mut n = 0;
    for item in m.iter().take(LIMIT) {
        match item {
            Ok((r, sec)) => {
                n += 1;
                let _ = (r.rtype(), sec);
            }
            Err(_) => {
                t.ev("iter-err");
                break;
            }
        }
    }
    let _ = write!(t.s, "it{};", n);
    // every iterator must END, also for a caller that keeps pulling after an error (count(), flatten(),
    // a `continue` in the loop): more items than any message can hold means it never ends
    {
        let mut endless = |what: &str, n: usize| {
            if n >= LIMIT {
                t.errs.push(format!("iterator-never-ends-when-pulled-past-an-error|{what}"));
            }
        };
        endless("Message::iter", m.iter().take(LIMIT).count());
        endless("Message::question", m.question().take(LIMIT).count());
        endless("Message::zone", m.zone().take(LIMIT).count());
        if let Ok(s) = m.answer() {
            endless("RecordSection(answer)", s.take(LIMIT).count());
            endless("RecordIter(answer)", s.limit_to::<AllRecordData<_, _>>().take(LIMIT).count());
            endless("AnyRecordIter(answer)", s.into_records::<AllRecordData<_, _>>().take(LIMIT).count());
        }
        if let Ok(s) = m.authority() {
            endless("RecordSection(authority)", s.take(LIMIT).count());
            endless("RecordIter(authority)", s.limit_to::<Soa<_>>().take(LIMIT).count());
        }
        if let Ok(s) = m.additional() {
            endless("RecordSection(additional)", s.take(LIMIT).count());
            endless("RecordIter(additional)", s.limit_to::<Opt<_>>().take(LIMIT).count());
        }
        if let Ok(s) = m.prerequisite() {
            endless("RecordSection(prerequisite)", s.take(LIMIT).count());
        }
        if let Ok(s) = m.update() {
            endless("RecordSection(update)", s.take(LIMIT).count());
        }
        if let Some(opt) = m.opt() {
            endless("OptIter", opt.opt().iter::<AllOptData<_, _>>().take(LIMIT).count());
        }
    }
    // helpers
    let _ = write!(t.s, "xfr{};", m.is_xfr() as u8);
    if let Some(q) = m.first_question() {
        use_name(t, q.qname(), msg);
    }
    let _ = write!(t.s, "sole{};qt{:?};", m.sole_question().is_ok() as u8, m.qtype().map(|x| x.to_int()));
    let _ = write!(t.s, "ca{};", m.contains_answer::<A>() as u8);
    if let Some(cn) = m.canonical_name() {
        t.ev("canon");
        use_name(t, &cn, msg);
    }
    let _ = write!(t.s, "ia{};", m.is_answer(&m) as u8);
    for other in others() {
        let o = Message::from_octets(other.as_slice()).unwrap();
        let _ = write!(t.s, "{}{}", m.is_answer(&o) as u8, o.is_answer(&m) as u8);
    }
    if let Some(opt) = m.opt() {
        t.ev("opt");
        let _ = (opt.udp_payload_size(), opt.rcode(h), opt.version(), opt.dnssec_ok());
        let mut k = 0;
        for o in opt.opt().iter::<AllOptData<_, _>>().take(LIMIT) {
            k += 1;
            match o {
                Ok(o) => {
                    let _ = format!("{:?}", o);
                    t.rdata_parsed += 1;
                }
                Err(_) => {
                    t.ev("optdata-err");
                }
            }
        }
        let _ = write!(t.s, "o{};", k);
    }
    let _ = write!(t.s, "orc{:?};", m.opt_rcode());
    match m.get_last_additional::<AllRecordData<_, _>>() {
        Some(r) => {
            let _ = write!(t.s, "last{};", r.rtype().to_int());
        }
        None => t.ev("last-none"),
    }
    // copy_records
    let target = MessageBuilder::new_vec().question();
    match m.copy_records(target.answer(), |rr: ParsedRecord<'_, _>| rr.into_record::<AllRecordData<_, ParsedName<_>>>().ok().flatten()) {
        Ok(b) => {
            let out = b.into_message();
            let _ = write!(t.s, "cp{};", out.as_slice().len());
        }
        Err(_) => t.ev("cp-err"),
    }
    // displays
    let dig = format!("{}", m.for_slice_ref().display_dig_style());
    let _ = write!(t.s, "dig{};", dig.len());
    let dbg = format!("{:?}", m);
    let _ = write!(t.s, "dbg{};", dbg.len());
    // XFR interpreter
    let mut interp = XfrResponseInterpreter::new();
    match interp.interpret_response(Message::from_octets(bytes::Bytes::copy_from_slice(msg)).unwrap()) {
        Ok(it) => {
            let mut k = 0;
            for u in it.take(LIMIT) {
                k += 1;
                if u.is_err() {
                    t.ev("xfr-item-err");
                    break;
                }
            }
            let _ = write!(t.s, "xfr-ok{};", k);
        }
        Err(_) => t.ev("xfr-err"),
    }
    // Label::iter_slice from every offset
    let mut tot = 0usize;
    for off in 0..msg.len() {
        let k = Label::iter_slice(msg, off).take(400).count();
        if k >= 400 {
            t.errs.push("iter_slice|does-not-end".into());
            break;
        }
        tot += k;
    }
    let _ = write!(t.s, "is{};", tot);
}

fn record(t: &mut T, r: &ParsedRecord<'_, [u8]>, msg: &[u8]) {
    use domain::base::zonefile_fmt::{DisplayKind, ZonefileFmt};
    let owner = r.owner();
    use_name(t, &owner, msg);
    let _ = write!(t.s, "r{}:{}:{}:{};", r.rtype().to_int(), r.class().to_int(), r.ttl().as_secs(), r.rdlen());
    match r.to_any_record::<AllRecordData<_, ParsedName<_>>>() {
        Ok(rec) => {
            t.rdata_parsed += 1;
            let a = format!("{}", rec);
            let b = format!("{}", rec.display_zonefile(DisplayKind::Simple));
            let c = format!("{}", rec.display_zonefile(DisplayKind::Multiline));
            let d = format!("{}", rec.display_zonefile(DisplayKind::Tabbed));
            let e = format!("{:?}", rec);
            let _ = write!(t.s, "d{},{},{},{},{};", a.len(), b.len(), c.len(), d.len(), e.len());
            // re-compose: must not panic; record equal to itself
            let mut buf = Vec::new();
            let rc = rec.compose(&mut buf);
            let _ = write!(t.s, "rc{}:{};", rc.is_ok() as u8, buf.len());
            if !(rec == rec) {
                t.errs.push("record|not-equal-to-itself".into());
            }
            use domain::base::cmp::CanonicalOrd;
            if rec.canonical_cmp(&rec) != std::cmp::Ordering::Equal {
                t.errs.push("record|canonical_cmp-not-reflexive".into());
            }
            // "whatever is returned as a record can be compared and displayed": total order,
            // hash, canonical form, and the flattened (owned) copy must be equal to the original
            // and compose to the same uncompressed octets
            {
                use domain::base::name::FlattenInto;
                use domain::base::rdata::ComposeRecordData;
                use std::hash::{Hash, Hasher};
                if rec.partial_cmp(&rec) != Some(std::cmp::Ordering::Equal) || rec.cmp(&rec) != std::cmp::Ordering::Equal {
                    t.errs.push("record|cmp-not-reflexive".into());
                }
                let mut h = std::collections::hash_map::DefaultHasher::new();
                rec.hash(&mut h);
                let h1 = h.finish();
                let mut canon = Vec::new();
                let cr = rec.compose_canonical(&mut canon).is_ok();
                let mut cdat = Vec::new();
                let _ = rec.data().compose_canonical_rdata(&mut cdat);
                let _ = write!(t.s, "cc{}:{}:{};", cr as u8, canon.len(), cdat.len());
                type Flat = domain::base::Record<domain::base::Name<Vec<u8>>, AllRecordData<Vec<u8>, domain::base::Name<Vec<u8>>>>;
                let flat: Result<Flat, _> = rec.clone().try_flatten_into();
                match flat {
                    Ok(f) => {
                        let mut h = std::collections::hash_map::DefaultHasher::new();
                        f.hash(&mut h);
                        if h.finish() != h1 {
                            t.errs.push("record|flattened-copy-hashes-differently".into());
                        }
                        let mut b2 = Vec::new();
                        let rc2 = f.compose(&mut b2);
                        if rc.is_ok() != rc2.is_ok() || (rc.is_ok() && b2 != buf) {
                            t.errs.push("record|flattened-copy-composes-differently".into());
                        }
                        let mut c2 = Vec::new();
                        let _ = f.compose_canonical(&mut c2);
                        if cr && c2 != canon {
                            t.errs.push("record|flattened-copy-canonical-form-differs".into());
                        }
                        if f.canonical_cmp(&f) != std::cmp::Ordering::Equal || !(f == f) {
                            t.errs.push("record|flattened-copy-not-equal-to-itself".into());
                        }
                        let _ = format!("{} {:?}", f, f);
                    }
                    Err(_) => t.errs.push("record|flatten-failed".into()),
                }
            }
            // names embedded in the data
            match rec.data() {
                AllRecordData::Cname(x) => use_name(t, x.cname(), msg),
                AllRecordData::Ns(x) => use_name(t, x.nsdname(), msg),
                AllRecordData::Soa(x) => {
                    use_name(t, x.mname(), msg);
                    use_name(t, x.rname(), msg);
                }
                AllRecordData::Mx(x) => use_name(t, x.exchange(), msg),
                AllRecordData::Nsec(x) => {
                    use_name(t, x.next_name(), msg);
                    let k = x.types().iter().take(LIMIT).count();
                    let _ = write!(t.s, "bm{};", k);
                }
                AllRecordData::Nsec3(x) => {
                    let k = x.types().iter().take(LIMIT).count();
                    let _ = write!(t.s, "bm{};", k);
                }
                AllRecordData::Rrsig(x) => use_name(t, x.signer_name(), msg),
                AllRecordData::Srv(x) => use_name(t, x.target(), msg),
                AllRecordData::Txt(x) => {
                    let k = x.iter().take(LIMIT).count();
                    let _ = write!(t.s, "tx{};", k);
                }
                AllRecordData::Svcb(x) => {
                    use_name(t, x.target(), msg);
                    let kr = x.params().iter_raw().take(LIMIT).count();
                    let ka = x.params().iter_all().take(LIMIT).filter(|v| v.is_ok()).count();
                    let _ = (x.params().is_empty(), x.params().len(), x.params().first::<domain::rdata::svcb::value::AllValues<_>>());
                    let _ = write!(t.s, "svr{kr}:{ka};");
                    let k = x.params().iter::<domain::rdata::svcb::value::AllValues<_>>().take(LIMIT).count();
                    let _ = write!(t.s, "sv{};", k);
                }
                AllRecordData::Https(x) => {
                    use_name(t, x.target(), msg);
                    let kr = x.params().iter_raw().take(LIMIT).count();
                    let _ = write!(t.s, "svr{kr};");
                    let k = x.params().iter::<domain::rdata::svcb::value::AllValues<_>>().take(LIMIT).count();
                    let _ = write!(t.s, "sv{};", k);
                }
                _ => {}
            }
        }
        Err(_) => t.ev("rd-err"),
    }
}

fn others() -> &'static [Vec<u8>; 2] {
    static O: std::sync::OnceLock<[Vec<u8>; 2]> = std::sync::OnceLock::new();
    O.get_or_init(|| {
        // a plain query for a./A with ID 0, and one with qdcount 1 and ID 0x1234
        let mut q1 = vec![0, 0, 0, 0, 0, 1, 0, 0, 0, 0, 0, 0];
        q1.extend_from_slice(&[1, b'a', 0, 0, 1, 0, 1]);
        let mut q2 = vec![0x12, 0x34, 1, 0, 0, 1, 0, 0, 0, 0, 0, 0];
        q2.extend_from_slice(&[0, 0, 1, 0, 1]);
        [q1, q2]
    })
}

/// Runs the script twice; returns (transcript hash, errors, stats).
fn run_case(ctx: &Ctx, stats: &Stats, wd: &Watchdog, msg: &[u8], family: &str) {
    stats.eval();
    wd.enter(|| json!({"message": hex(msg), "family": family}));
    let mut results = Vec::new();
    let rich = !ctx.quick() || matches!(family, "one-item" | "pointer-chains" | "replay");
    for run in 0..2 {
        let r = guard(|| {
            let mut t = T { s: String::new(), names: 0, ptr_names: 0, rdata_parsed: 0, errs: vec![], derived: 0, batteries: 0, derive: run == 0, full_derived: rich, deep: !ctx.quick() };
            script(msg, &mut t);
            t
        });
        results.push(r);
    }
    wd.leave();
    let case = || json!({"message": hex(msg), "family": family});
    match (&results[0], &results[1]) {
        (Ok(a), Ok(b)) => {
            if ctx.replay.is_some() {
                println!("transcript: {}", a.s);
                println!("errors: {:?}", a.errs);
            }
            if a.s != b.s {
                ctx.violation("C01|second-traversal-differs", "the same message traversed twice gave different transcripts", case());
            }
            for e in &a.errs {
                ctx.violation(&format!("C01|{e}"), e, case());
            }
            DERIVED.fetch_add(a.derived as u64, std::sync::atomic::Ordering::Relaxed);
            BATTERIES.fetch_add(a.batteries as u64, std::sync::atomic::Ordering::Relaxed);
            NAMES.fetch_add(a.names as u64, std::sync::atomic::Ordering::Relaxed);
            if a.rdata_parsed > 0 || a.ptr_names > 0 {
                stats.nontrivial.fetch_add(1, std::sync::atomic::Ordering::Relaxed);
                stats.distinct(fnv(msg));
            }
            // shape = transcript with digits removed
            let shape: String = a.s.chars().filter(|c| !c.is_ascii_digit()).collect();
            stats.distinct(fnv(shape.as_bytes()) | 1 << 63);
        }
        (Err(p), _) | (_, Err(p)) => {
            ctx.violation(&format!("C01|panic|{}", panic_class(p)), p, case());
        }
    }
}

// --------------------------------------------------------- the generator

fn name_variants(pos: usize, landmarks: &[usize], full: bool) -> Vec<Vec<u8>> {
    let ptr = |t: usize| vec![0xC0 | ((t >> 8) as u8 & 0x3F), t as u8];
    let mut v: Vec<Vec<u8>> = vec![vec![0], vec![1, b'a', 0], ptr(12), ptr(pos)];
    let mut la = vec![1, b'a'];
    la.extend(ptr(12));
    v.push(la);
    for &l in landmarks {
        v.push(ptr(l));
    }
    if full {
        v.push(vec![1, b'A', 0]);
        let mut l63 = vec![63];
        l63.extend(std::iter::repeat(b'x').take(63));
        let mut n255 = Vec::new();
        for k in [63usize, 63, 63, 61] {
            n255.push(k as u8);
            n255.extend(std::iter::repeat(b'y').take(k));
        }
        let mut n256 = n255.clone();
        n256[192] = 62; // last label one longer
        n256.push(b'y');
        n255.push(0);
        n256.push(0);
        let mut one63 = l63.clone();
        one63.push(0);
        v.push(one63);
        v.push(n255);
        v.push(n256);
        // 254 octets of labels followed by a pointer to a name -> too long only after decompression
        let mut long_ptr = Vec::new();
        for k in [63usize, 63, 63, 60] {
            long_ptr.push(k as u8);
            long_ptr.extend(std::iter::repeat(b'z').take(k));
        }
        long_ptr.extend(ptr(12));
        v.push(long_ptr);
        let mut loop_label = vec![1, b'a'];
        loop_label.extend(ptr(pos));
        v.push(loop_label); // pointer back to own start: loop through a label
        v.push(ptr(pos + 2)); // forward
        v.push(ptr(pos + 1)); // into itself
        v.push(ptr(0x3FFF));
        v.push(ptr(0));
        v.push(ptr(2));
        v.push(vec![0x40, 0]);
        v.push(vec![0x80, 1, 0]);
        v.push(vec![5, b'a']); // label overrunning into the following fields
        v.push(vec![]); // missing name
        for &l in landmarks {
            let mut x = vec![1, b'x'];
            x.extend(ptr(l));
            v.push(x);
            v.push(ptr(l + 1));
        }
    }
    v
}

/// (rtype, rdata variants). Names inside RDATA: `nm` builder gets the
/// absolute position where the name will sit.
fn rdata_variants(rtype: u16, rd_pos: usize, full: bool) -> Vec<Vec<u8>> {
    let ptr = |t: usize| vec![0xC0 | ((t >> 8) as u8 & 0x3F), t as u8];
    let nm: Vec<Vec<u8>> = if full { vec![vec![1, b'b', 0], ptr(12), ptr(rd_pos), vec![]] } else { vec![vec![1, b'b', 0], ptr(12)] };
    let cat = |parts: &[&[u8]]| parts.iter().flat_map(|p| p.iter().cloned()).collect::<Vec<u8>>();
    let mut good: Vec<Vec<u8>> = Vec::new();
    let mut extra: Vec<Vec<u8>> = Vec::new();
    match rtype {
        1 => good.push(vec![1, 2, 3, 4]),
        28 => good.push(vec![0; 16]),
        2 | 5 | 12 | 39 | 7 | 8 | 9 | 3 | 4 => {
            for n in &nm {
                good.push(n.clone());
            }
        }
        6 => {
            for n in &nm {
                good.push(cat(&[n, &[1, b'r', 0], &[0; 20]]));
            }
            extra.push(cat(&[&ptr(12), &ptr(12), &[0; 19]]));
            extra.push(cat(&[&ptr(12), &ptr(12), &[0; 21]]));
        }
        15 => {
            for n in &nm {
                good.push(cat(&[&[0, 10], n]));
            }
            extra.push(vec![0]);
        }
        14 | 17 => {
            for n in &nm {
                good.push(cat(&[n, &[1, b'e', 0]]));
            }
        }
        16 => {
            good.push(vec![3, b'a', b'b', b'c']);
            extra.push(vec![5, b'a']);
            extra.push(vec![0]);
            extra.push(vec![1, b'a', 0, 2, b'b', b'c']);
            let mut long = vec![255];
            long.extend(std::iter::repeat(b't').take(255));
            extra.push(long);
        }
        13 => {
            good.push(vec![1, b'a', 1, b'b']);
            extra.push(vec![1, b'a', 5, b'b']);
        }
        33 => {
            for n in &nm {
                good.push(cat(&[&[0, 1, 0, 2, 0, 80], n]));
            }
        }
        41 => {
            good.push(vec![]);
            good.push(vec![0, 8, 0, 4, 0, 1, 24, 0]); // client subnet short
            good.push(vec![0, 8, 0, 7, 0, 1, 24, 0, 192, 0, 2]);
            good.push(vec![0, 10, 0, 8, 1, 2, 3, 4, 5, 6, 7, 8]); // cookie
            extra.push(vec![0, 10, 0, 7, 1, 2, 3, 4, 5, 6, 7]); // bad cookie length
            extra.push(vec![0, 3, 0, 2, b'n', b's']);
            extra.push(vec![0, 12, 0, 3, 0, 0, 0]);
            extra.push(vec![0, 15, 0, 1, 0]); // extended error short
            extra.push(vec![0, 15, 0, 4, 0, 1, 0xff, 0xfe]); // ede with non-utf8 text
            extra.push(vec![0, 11, 0, 1, 0]); // keepalive bad len
            extra.push(vec![0, 11, 0, 2, 0, 1]);
            extra.push(vec![0, 5, 0, 1, 8]); // DAU
            extra.push(vec![0, 14, 0, 3, 0, 1, 0]); // key tag odd
            extra.push(vec![0, 9, 0, 4, 0, 0, 0, 1]); // expire
            extra.push(vec![0, 9, 0, 3, 0, 0, 0]);
            extra.push(vec![0, 3, 0, 9, 1]); // option overruns
            extra.push(vec![0, 3, 0]); // truncated option header
            extra.push(vec![0xff, 0xff, 0, 0]);
        }
        46 => {
            for n in &nm {
                good.push(cat(&[&[0, 1, 8, 2, 0, 0, 14, 16, 0, 0, 0, 2, 0, 0, 0, 1, 0x12, 0x34], n, &[9, 9, 9]]));
            }
            extra.push(vec![0; 17]);
        }
        47 => {
            for n in &nm {
                good.push(cat(&[n, &[0, 1, 0x40]]));
            }
            extra.push(cat(&[&[0], &[0, 0]])); // empty window
            extra.push(cat(&[&[0], &[0, 33], &[1; 33]]));
            extra.push(cat(&[&[0], &[0, 2, 0x40]])); // truncated window
            extra.push(cat(&[&[0], &[1, 1, 0x40, 0, 1, 0x40]])); // windows out of order
            extra.push(cat(&[&[0], &[0, 1, 0x40, 0, 1, 0x40]])); // duplicate window
            extra.push(cat(&[&[0], &[0, 1, 0]])); // zero octet
            extra.push(cat(&[&[0], &[0xff, 32], &[0xff; 32]]));
            extra.push(vec![0]);
        }
        50 => {
            good.push(vec![1, 0, 0, 1, 1, 0xab, 2, 0xc, 0xd, 0, 1, 0x40]);
            extra.push(vec![1, 0, 0, 1, 5, 0xab]); // salt overrun
            extra.push(vec![1, 0, 0, 1, 0, 9, 1]); // hash overrun
            extra.push(vec![1, 0, 0, 1, 0, 0]); // empty hash
            extra.push(vec![1, 0, 0, 1, 0, 1, 7, 0, 0]); // empty window
        }
        51 => {
            good.push(vec![1, 0, 0, 1, 1, 0xab]);
            extra.push(vec![1, 0, 0, 1, 2, 0xab]);
        }
        48 | 60 => good.push(vec![1, 1, 3, 8, 1, 2, 3]),
        43 | 59 => good.push(vec![0x12, 0x34, 8, 2, 1, 2, 3, 4]),
        64 | 65 => {
            for n in &nm {
                good.push(cat(&[&[0, 1], n]));
                good.push(cat(&[&[0, 1], n, &[0, 1, 0, 3, 2, b'h', b'2', 0, 3, 0, 2, 1, 187]]));
            }
            extra.push(cat(&[&[0, 1, 0], &[0, 3, 0, 2, 1, 187, 0, 1, 0, 3, 2, b'h', b'2']])); // out of order
            extra.push(cat(&[&[0, 1, 0], &[0, 1, 0, 3, 2, b'h', b'2', 0, 1, 0, 3, 2, b'h', b'2']])); // duplicate
            extra.push(cat(&[&[0, 1, 0], &[0, 1, 0, 9, 2, b'h']])); // param overrun
            extra.push(cat(&[&[0, 1, 0], &[0, 1, 0, 3, 5, b'h', b'2']])); // alpn inner overrun
            extra.push(cat(&[&[0, 1, 0], &[0, 0, 0, 2, 0, 1]])); // mandatory
            extra.push(cat(&[&[0, 1, 0], &[0, 0, 0, 3, 0, 1, 0]])); // mandatory odd
            extra.push(cat(&[&[0, 1, 0], &[0, 4, 0, 5, 1, 2, 3, 4, 5]])); // ipv4hint bad len
            extra.push(cat(&[&[0, 1, 0], &[0, 6, 0, 4, 1, 2, 3, 4]])); // ipv6hint bad len
            extra.push(cat(&[&[0, 1, 0], &[0, 3, 0, 1, 1]])); // port bad len
            extra.push(cat(&[&[0, 1, 0], &[0, 2, 0, 1, 1]])); // no-default-alpn with value
            extra.push(cat(&[&[0, 1, 0], &[0, 1]])); // truncated param header
            extra.push(cat(&[&[0, 1, 0], &[0xff, 0xff, 0, 0]]));
        }
        250 => {
            for n in &nm {
                good.push(cat(&[n, &[0, 0, 0, 0, 0, 1, 1, 44, 0, 2, 7, 7, 0x12, 0x34, 0, 0, 0, 0]]));
            }
            extra.push(cat(&[&[0], &[0, 0, 0, 0, 0, 1, 1, 44, 0, 9, 7, 7, 0x12, 0x34, 0, 0, 0, 0]])); // mac overrun
            extra.push(cat(&[&[0], &[0, 0, 0, 0, 0, 1, 1, 44, 0, 0, 0x12, 0x34, 0, 18, 0, 6, 0, 0, 0, 0, 0, 2]])); // BADTIME other
            extra.push(cat(&[&[0], &[0, 0, 0, 0, 0, 1, 1, 44, 0, 0, 0x12, 0x34, 0, 0, 0, 9, 1]])); // other overrun
        }
        257 => {
            good.push(vec![0, 3, b't', b'a', b'g', b'v']);
            extra.push(vec![0, 9, b't']);
            extra.push(vec![0, 0]);
        }
        35 => {
            for n in &nm {
                good.push(cat(&[&[0, 1, 0, 2, 1, b'f', 1, b's', 1, b'r'], n]));
            }
            extra.push(vec![0, 1, 0, 2, 1, b'f', 9, b's']);
        }
        52 => good.push(vec![3, 1, 1, 0xaa, 0xbb]),
        44 => good.push(vec![1, 1, 0xaa, 0xbb]),
        45 => {
            good.push(vec![10, 0, 2, 1, 2, 3]); // no gateway
            good.push(vec![10, 1, 2, 192, 0, 2, 1, 1, 2, 3]);
            good.push(cat(&[&[10, 2, 2], &[0; 16], &[1, 2]]));
            for n in &nm {
                good.push(cat(&[&[10, 3, 2], n, &[1, 2]]));
            }
            extra.push(vec![10, 4, 2, 1]); // unknown gateway type
            extra.push(vec![10, 1, 2, 192, 0]);
        }
        61 => good.push(vec![1, 2, 3]),
        63 => good.push(vec![0, 0, 0, 1, 1, 1, 0xaa, 0xbb]),
        10 => good.push(vec![1, 2, 3]),
        _ => good.push(vec![0xde, 0xad]),
    }
    let mut v = good.clone();
    if full {
        v.extend(extra);
        // systematic: first good value truncated by one, extended by one, and empty
        if let Some(g) = good.first() {
            if !g.is_empty() {
                v.push(g[..g.len() - 1].to_vec());
            }
            let mut e = g.clone();
            e.push(0);
            v.push(e);
            v.push(vec![]);
        }
    } else {
        v.truncate(1);
    }
    v
}

const TYPES_FULL: &[u16] = &[1, 2, 5, 6, 12, 13, 14, 15, 16, 17, 28, 33, 35, 39, 41, 43, 44, 45, 46, 47, 48, 50, 51, 52, 59, 60, 61, 63, 64, 65, 250, 257, 10, 3, 65280];
const TYPES_REDUCED: &[u16] = &[1, 5, 6, 16, 41, 47, 64, 250];

#[derive(Clone)]
struct Item {
    bytes: Vec<u8>,
    section: usize, // 0 question, 1 an, 2 ns, 3 ar
    landmarks: Vec<usize>,
}

/// All items that can be appended at `pos` given earlier landmarks.
fn items(pos: usize, landmarks: &[usize], full: bool, quick: bool) -> Vec<Item> {
    let mut out = Vec::new();
    let names = name_variants(pos, landmarks, full);
    // questions
    let qtypes: &[u16] = if full { &[1, 5, 252, 251, 255] } else { &[1, 252] };
    for n in &names {
        for qt in qtypes {
            let mut b = n.clone();
            b.extend_from_slice(&qt.to_be_bytes());
            b.extend_from_slice(&[0, 1]);
            out.push(Item { bytes: b, section: 0, landmarks: vec![pos] });
        }
    }
    // records
    let types = if full { TYPES_FULL } else { TYPES_REDUCED };
    let classes: &[u16] = if full && !quick { &[1, 255, 254] } else { &[1] };
    let ttls: &[u32] = if full { &[0, 0xFFFF_FFFF] } else { &[60] };
    for (ni, n) in names.iter().enumerate() {
        for &rt in types {
            // full rdata menus only with the first three owner shapes, reduced ones otherwise
            let rd_pos = pos + n.len() + 10;
            let rds = rdata_variants(rt, rd_pos, full && ni < 3);
            for (ri, rd) in rds.iter().enumerate() {
                let rdlens: Vec<usize> = if full && ri == 0 { vec![rd.len(), rd.len().wrapping_sub(1) & 0xFFFF, rd.len() + 1, 0, 0xFFFF] } else { vec![rd.len()] };
                for (li, rl) in rdlens.iter().enumerate() {
                    for &cl in classes {
                        for &ttl in ttls {
                            if (li > 0 || cl != 1) && ttl != 0 && full {
                                continue; // vary one of (rdlen, class, ttl) at a time
                            }
                            for sec in if full { vec![1usize, 3] } else { vec![1usize, 2, 3] } {
                                if rt == 41 && sec != 3 && !full {
                                    continue;
                                }
                                let mut b = n.clone();
                                b.extend_from_slice(&rt.to_be_bytes());
                                b.extend_from_slice(&cl.to_be_bytes());
                                b.extend_from_slice(&ttl.to_be_bytes());
                                b.extend_from_slice(&(*rl as u16).to_be_bytes());
                                b.extend_from_slice(rd);
                                out.push(Item { bytes: b, section: sec, landmarks: vec![pos, rd_pos, rd_pos + rd.len() / 2] });
                            }
                        }
                    }
                }
            }
        }
    }
    out
}

fn header(flags: u16, counts: [u16; 4]) -> Vec<u8> {
    let mut h = vec![0xAB, 0xCD];
    h.extend_from_slice(&flags.to_be_bytes());
    for c in counts {
        h.extend_from_slice(&c.to_be_bytes());
    }
    h
}

fn count_variants(actual: [u16; 4], full: bool) -> Vec<[u16; 4]> {
    let mut v = vec![actual];
    if full {
        let last = (0..4).rev().find(|i| actual[*i] > 0).unwrap_or(1);
        let mut plus = actual;
        plus[last] += 1;
        v.push(plus);
        v.push([0; 4]);
        let mut big = actual;
        big[1] = 0xFFFF;
        v.push(big);
        let mut big3 = actual;
        big3[3] = 0xFFFF;
        v.push(big3);
        let mut q2 = actual;
        q2[0] += 1;
        v.push(q2);
    }
    v
}

fn assemble(items: &[&Item], flags: u16, counts: [u16; 4]) -> Vec<u8> {
    let mut m = header(flags, counts);
    for i in items {
        m.extend_from_slice(&i.bytes);
    }
    m
}

fn main() {
    let ctx = Ctx::new("C01", "exploration");
    let stats = Arc::new(Stats::new());
    let wd = Watchdog::start(ctx.clone(), Duration::from_secs(20), |d| {
        format!("C01|hang|family={}", d["family"].as_str().unwrap_or("?"))
    });
    if let Some(path) = &ctx.replay {
        let v: Value = serde_json::from_str(&std::fs::read_to_string(path).expect("replay file")).expect("json");
        let msg = unhex(v["case"]["message"].as_str().expect("case.message"));
        println!("replaying {} on {} octets", v["signature"], msg.len());
        run_case(&ctx, &stats, &wd, &msg, "replay");
        ctx.finish(json!({"evaluations": 1, "distinct_nontrivial": stats.distinct_count(), "rule": "replay", "samples": [hex(&msg)]}), &[]);
    }
    let quick = ctx.quick();
    let flagsets: &[u16] = &[0x0000, 0x8400, 0x8200 | 0x2800];

    // --- one-item messages: full menus x all header variants
    let first = items(12, &[], true, quick);
    stats.count_n("gen.first_items_full", first.len() as u64);
    first.par_iter().for_each(|it| {
        let mut actual = [0u16; 4];
        actual[it.section] = 1;
        for counts in count_variants(actual, true) {
            for &fl in flagsets {
                let m = assemble(&[it], fl, counts);
                run_case(&ctx, &stats, &wd, &m, "one-item");
            }
        }
        // truncations of the single item at every cut point (short reads)
        let m = assemble(&[it], 0x8400, actual);
        if it.bytes.len() <= 48 {
            for cut in 12..m.len() {
                run_case(&ctx, &stats, &wd, &m[..cut], "one-item-truncated");
            }
        }
    });
    // --- two-item messages: (full, reduced) and (reduced, full)
    let first_reduced = items(12, &[], false, quick);
    stats.count_n("gen.first_items_reduced", first_reduced.len() as u64);
    first.par_iter().for_each(|a| {
        let pos = 12 + a.bytes.len();
        for b in items(pos, &a.landmarks, false, quick) {
            if b.section < a.section {
                continue;
            }
            let mut actual = [0u16; 4];
            actual[a.section] += 1;
            actual[b.section] += 1;
            let m = assemble(&[a, &b], 0x8400, actual);
            run_case(&ctx, &stats, &wd, &m, "two-items-full-reduced");
        }
    });
    first_reduced.par_iter().for_each(|a| {
        let pos = 12 + a.bytes.len();
        for b in items(pos, &a.landmarks, true, quick) {
            if b.section < a.section {
                continue;
            }
            let mut actual = [0u16; 4];
            actual[a.section] += 1;
            actual[b.section] += 1;
            for counts in count_variants(actual, !quick) {
                let m = assemble(&[a, &b], 0x8400, counts);
                run_case(&ctx, &stats, &wd, &m, "two-items-reduced-full");
            }
        }
    });
    // --- three items, reduced menus (thorough: middle item full)
    first_reduced.par_iter().for_each(|a| {
        let pos = 12 + a.bytes.len();
        for b in items(pos, &a.landmarks, false, quick) {
            if b.section < a.section {
                continue;
            }
            let pos2 = pos + b.bytes.len();
            let mut lm = a.landmarks.clone();
            lm.extend(b.landmarks.iter().cloned());
            lm.truncate(4);
            for c in items(pos2, &lm, false, quick) {
                if c.section < b.section {
                    continue;
                }
                let mut actual = [0u16; 4];
                actual[a.section] += 1;
                actual[b.section] += 1;
                actual[c.section] += 1;
                let m = assemble(&[a, &b, &c], 0x8400, actual);
                run_case(&ctx, &stats, &wd, &m, "three-items-reduced");
            }
        }
    });
    // --- pointer-chain family: every topology of up to three chained compression
    // pointers, each either bare or behind a label, each pointing at the start of the
    // previous name or at the pointer cell inside it; the final name sits at every kind
    // of name position (owner, CNAME/NS/PTR/MX/SOA/SRV/RP/NSEC/RRSIG RDATA)
    {
        let ptr = |t: usize| vec![0xC0 | ((t >> 8) as u8 & 0x3F), t as u8];
        let rec = |owner: &[u8], rt: u16, rd: &[u8]| {
            let mut b = owner.to_vec();
            b.extend_from_slice(&rt.to_be_bytes());
            b.extend_from_slice(&[0, 1, 0, 0, 0, 60]);
            b.extend_from_slice(&(rd.len() as u16).to_be_bytes());
            b.extend_from_slice(rd);
            b
        };
        // a cell = (bytes of the name, offset of its pointer part inside the bytes if any)
        let shapes = |targets: &[usize], label: u8| -> Vec<Vec<u8>> {
            let mut v = Vec::new();
            for &t in targets {
                v.push(ptr(t));
                let mut l = vec![1, label];
                l.extend(ptr(t));
                v.push(l);
                let mut l2 = vec![1, label, 1, label];
                l2.extend(ptr(t));
                v.push(l2);
            }
            v
        };
        let mut msgs: Vec<Vec<u8>> = Vec::new();
        let base: Vec<u8> = vec![1, b'a', 1, b'b', 0]; // a.b. at 12, b. at 14
        let p0 = 12usize;
        for n1 in shapes(&[p0, p0 + 2], b'x') {
            let r0 = rec(&base, 1, &[1, 2, 3, 4]);
            let p1 = 12 + r0.len();
            let r1 = rec(&n1, 1, &[1, 2, 3, 4]);
            // targets inside n1: its start, and its pointer cell (if behind labels)
            let mut t1 = vec![p1];
            if n1.len() > 2 {
                t1.push(p1 + n1.len() - 2);
            }
            for n2 in shapes(&t1, b'y') {
                let p2 = p1 + r1.len();
                let r2 = rec(&n2, 1, &[1, 2, 3, 4]);
                let mut t2 = vec![p2];
                if n2.len() > 2 {
                    t2.push(p2 + n2.len() - 2);
                }
                let p3 = p2 + r2.len();
                let _ = p3;
                for n3 in shapes(&t2, b'z') {
                    let mut finals: Vec<Vec<u8>> = vec![rec(&n3, 1, &[1, 2, 3, 4])];
                    for rt in [2u16, 5, 12, 39] {
                        finals.push(rec(&[1, b'o', 0], rt, &n3));
                    }
                    let cat = |parts: &[&[u8]]| parts.iter().flat_map(|p| p.iter().cloned()).collect::<Vec<u8>>();
                    finals.push(rec(&[1, b'o', 0], 15, &cat(&[&[0, 5], &n3])));
                    finals.push(rec(&[1, b'o', 0], 6, &cat(&[&n3, &[1, b'r', 0], &[0; 20]])));
                    finals.push(rec(&[1, b'o', 0], 6, &cat(&[&[1, b'm', 0], &n3, &[0; 20]])));
                    finals.push(rec(&[1, b'o', 0], 33, &cat(&[&[0, 1, 0, 2, 0, 3], &n3])));
                    finals.push(rec(&[1, b'o', 0], 17, &cat(&[&n3, &[0]])));
                    finals.push(rec(&[1, b'o', 0], 17, &cat(&[&[0], &n3])));
                    finals.push(rec(&[1, b'o', 0], 47, &cat(&[&n3, &[0, 1, 0x40]])));
                    finals.push(rec(&[1, b'o', 0], 46, &cat(&[&[0, 1, 13, 2, 0, 0, 0, 60, 0, 0, 0, 2, 0, 0, 0, 1, 0, 7], &n3, &[9, 9]])));
                    for f in finals {
                        let mut m = header(0x8400, [0, 4, 0, 0]);
                        m.extend_from_slice(&r0);
                        m.extend_from_slice(&r1);
                        m.extend_from_slice(&r2);
                        m.extend_from_slice(&f);
                        msgs.push(m);
                    }
                }
            }
        }
        stats.count_n("gen.pointer_chain_messages", msgs.len() as u64);
        msgs.par_iter().for_each(|m| run_case(&ctx, &stats, &wd, m, "pointer-chains"));
    }
    // --- raw tier: every byte string of length n over 9 symbols after each header
    let raw: Vec<u8> = vec![0x00, 0x01, 0x3F, 0x40, 0x80, 0xC0, 0x0C, 0xFF, b'a'];
    let rawlen = if quick { 5 } else { 7 };
    let headers = [header(0x8400, [1, 0, 0, 0]), header(0x8400, [0, 1, 0, 0]), header(0x8400, [0, 0, 0, 1]), header(0, [1, 1, 0, 0])];
    for n in 0..=rawlen {
        let total = pow(raw.len(), n);
        (0..total).into_par_iter().for_each(|k| {
            let mut body = Vec::new();
            nth_string(&raw, n, k, &mut body);
            for h in &headers {
                let mut m = h.clone();
                m.extend_from_slice(&body);
                run_case(&ctx, &stats, &wd, &m, "raw");
            }
        });
    }
    // messages shorter than a header
    for n in 0..12 {
        run_case(&ctx, &stats, &wd, &vec![0xC0; n], "short");
    }
    // max-size message of pointers
    let mut big = header(0x8400, [0, 0xFFFF, 0, 0]);
    while big.len() < 65535 {
        big.extend_from_slice(&[0xC0, 0x0C]);
    }
    big.truncate(65535);
    run_case(&ctx, &stats, &wd, &big, "max-size-pointers");

    stats.sample(1, || json!({"family": "one-item", "message": hex(&assemble(&[&first[first.len() / 2]], 0x8400, [0, 1, 0, 0]))}));
    stats.sample(2, || json!({"family": "one-item", "message": hex(&assemble(&[&first[first.len() - 1]], 0x8400, [0, 0, 0, 1]))}));
    stats.sample(3, || json!({"family": "raw", "message": hex(&[&headers[0][..], &[0xC0, 0x0C, 0x00, 0x01, 0x00][..]].concat())}));
    let cov = json!({
        "evaluations": stats.evals(),
        "distinct_nontrivial": stats.nontrivial.load(std::sync::atomic::Ordering::Relaxed).min(stats.distinct_count()),
        "rule": "messages = header variants x items from per-field menus (names incl. pointers to every landmark, ~35 record types x RDATA variants incl. every internal length field short/long, rdlen exact/-1/+1/0/0xFFFF) for 1, 2 and 3 items; the pointer-chain family (every topology of up to three chained pointers, bare or behind one or two labels, aimed at the start of the previous name or at its pointer cell, ending at every kind of name position); every truncation of short one-item messages; every raw body over 9 symbols to the raw length. Each case runs the full read-side script twice. Every name handed out (question, owner, RDATA names, canonical_name) must be the independent decompression (mc::wire) of some position of the message and passes the name battery (label iteration from both ends, to_vec/to_bytes/to_name/compose/compose_len/as_flat_slice/try_flatten_into/flatten_into/to_cow/deref_octets/canonical forms equal to the independent wire form; ==, name_eq, name_cmp, canonical_cmp, partial_cmp, composed_cmp, lowercase_composed_cmp, starts_with, ends_with in both directions against flat names built from the independent labels: the same name, its lowercase form, the root, the parent, one label more in front / before the root, with the RFC 4034 order as oracle; hash; displays); the SAME battery is applied to every name object derived from it: the ref_octets/deref_octets views, every item of iter_suffixes(), every step of the parent() walk, of the split_first() walk and of the two alternating parent/split_first walks (incl. the refused step at the root), each against the matching suffix of the independent labels, plus equality of the same suffix reached by different routes (thorough: derivations of every derived object once more). non-trivial = typed RDATA or OPT option parsing succeeded at least once or a compressed name was returned; distinct = distinct message octets (hash set) among those",
        "distinct_transcript_shapes_and_messages": stats.distinct_count(),
        "exhaustive": true,
        "raw_len": rawlen,
        "names_exercised": NAMES.load(std::sync::atomic::Ordering::Relaxed),
        "derived_name_objects_exercised": DERIVED.load(std::sync::atomic::Ordering::Relaxed),
        "name_batteries_run": BATTERIES.load(std::sync::atomic::Ordering::Relaxed),
        "samples": stats.samples(),
        "counters": stats.counters_json(),
    });
    ctx.finish(cov, &[
        "octet values outside the menus and messages with more than three items are not covered",
        "a case that does not finish within 20 s is reported as a hang",
        "out-of-bounds reads behind unsafe are only detected if they panic or change the transcript",
    ]);
}
