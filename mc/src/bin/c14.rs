//! C14 — the DNSSEC validator says "secure" only for data with a valid chain
//! to a trust anchor.
//!
//! A signed hierarchy root -> tld. -> zone.tld. is built ONCE per run with the
//! library's own signer (sign_zone / sign_rrset, keys from
//! /repo/test-data/dnssec-keys).  The upstream is a deterministic function
//! question -> response over that authentic data (written in this file).  For
//! every (scenario, query) the unfaulted run records which upstream queries the
//! validator makes; then EVERY fault of the adversary menu at EVERY position
//! (every RRset / RRSIG / key / proof record of the validated answer and of
//! every upstream DS/DNSKEY response) is executed against a fresh
//! `ValidationContext`, and the oracle (independent zone model of this file)
//! is evaluated on every execution.
#![allow(clippy::type_complexity, clippy::too_many_arguments)]

use bytes::Bytes;
use domain::base::iana::{Class, Nsec3HashAlgorithm, Rtype};
use domain::base::name::Name;
use domain::base::rdata::{ComposeRecordData, UnknownRecordData};
use domain::base::{Message, Record, Serial, Ttl};
use domain::crypto::sign::{generate, GenerateParams, KeyPair, SecretKeyBytes};
use domain::dnssec::common::parse_from_bind;
use domain::dnssec::sign::denial::config::DenialConfig;
use domain::dnssec::sign::denial::nsec::GenerateNsecConfig;
use domain::dnssec::sign::denial::nsec3::GenerateNsec3Config;
use domain::dnssec::sign::keys::SigningKey;
use domain::dnssec::sign::records::{DefaultSorter, Rrset, SortedRecords};
use domain::dnssec::sign::signatures::rrsigs::sign_rrset;
use domain::dnssec::sign::traits::SignableZoneInPlace;
use domain::dnssec::sign::SigningConfig;
use domain::dnssec::validator::anchor::TrustAnchors;
use domain::dnssec::validator::context::{Config as VConfig, ValidationContext, ValidationState};
use domain::net::client::request::{
    ComposeRequest, Error as ReqError, GetResponse, RequestMessage, SendRequest,
};
use domain::net::client::validator as cval;
use domain::rdata::dnssec::Timestamp;
use domain::rdata::nsec3::Nsec3Salt;
use domain::rdata::{Cname, Mx, Ns, Nsec3param, Soa, Txt, ZoneRecordData, A};
use mc::wire::{read_name, u16_at, u32_at};
use mc::*;
use rayon::prelude::*;
use serde::{Deserialize, Serialize};
use serde_json::{json, Value};
use std::collections::{BTreeMap, BTreeSet};
use std::future::Future;
use std::pin::Pin;
use std::sync::atomic::{AtomicBool, AtomicUsize, Ordering as AO};
use std::sync::{Arc, Mutex};
use std::task::{Context, Poll};
use std::time::Duration;

const T_A: u16 = 1;
const T_NS: u16 = 2;
const T_CNAME: u16 = 5;
const T_SOA: u16 = 6;
const T_PTR: u16 = 12;
const T_MX: u16 = 15;
const T_TXT: u16 = 16;
const T_DS: u16 = 43;
const T_RRSIG: u16 = 46;
const T_NSEC: u16 = 47;
const T_DNSKEY: u16 = 48;
const T_NSEC3: u16 = 50;
const T_DNAME: u16 = 39;

/// Upstream-query budget per validation (the unfaulted runs need <= 6).
const BUDGET: usize = 64;

fn tname(t: u16) -> String {
    match t {
        1 => "A".into(),
        2 => "NS".into(),
        5 => "CNAME".into(),
        6 => "SOA".into(),
        15 => "MX".into(),
        16 => "TXT".into(),
        28 => "AAAA".into(),
        39 => "DNAME".into(),
        43 => "DS".into(),
        46 => "RRSIG".into(),
        47 => "NSEC".into(),
        48 => "DNSKEY".into(),
        50 => "NSEC3".into(),
        51 => "NSEC3PARAM".into(),
        t => format!("TYPE{t}"),
    }
}

// ------------------------------------------------------------ own names

/// Absolute name, labels leftmost first, root label not stored.
type Labels = Vec<Vec<u8>>;

fn nm(s: &str) -> Labels {
    s.split('.').filter(|l| !l.is_empty()).map(|l| l.as_bytes().to_vec()).collect()
}

fn show(l: &Labels) -> String {
    let mut s = String::new();
    for x in l {
        for &b in x {
            if b.is_ascii_graphic() && b != b'.' && b != b'\\' {
                s.push(b as char);
            } else {
                s.push_str(&format!("\\{b:03}"));
            }
        }
        s.push('.');
    }
    if s.is_empty() {
        s.push('.');
    }
    s
}

/// Parse the output of `show` back.
fn unshow(s: &str) -> Labels {
    let mut out = Vec::new();
    let mut cur = Vec::new();
    let b = s.as_bytes();
    let mut i = 0;
    while i < b.len() {
        if b[i] == b'\\' && i + 3 < b.len() + 0 && i + 3 <= b.len() - 0 && b.len() >= i + 4 {
            let v: u8 = std::str::from_utf8(&b[i + 1..i + 4]).unwrap().parse().unwrap();
            cur.push(v);
            i += 4;
        } else if b[i] == b'.' {
            if !cur.is_empty() {
                out.push(std::mem::take(&mut cur));
            }
            i += 1;
        } else {
            cur.push(b[i]);
            i += 1;
        }
    }
    if !cur.is_empty() {
        out.push(cur);
    }
    out
}

/// Canonical sort key (RFC 4034 6.1): labels rightmost first, lowercased.
/// `Vec<Vec<u8>>`'s derived order is exactly the canonical name order.
fn key(l: &Labels) -> Labels {
    l.iter().rev().map(|x| x.to_ascii_lowercase()).collect()
}

fn unkey(k: &Labels) -> Labels {
    k.iter().rev().cloned().collect()
}

fn wire(l: &Labels) -> Vec<u8> {
    let mut v = Vec::new();
    for x in l {
        v.push(x.len() as u8);
        v.extend_from_slice(x);
    }
    v.push(0);
    v
}

fn lower_wire(l: &Labels) -> Vec<u8> {
    wire(&l.iter().map(|x| x.to_ascii_lowercase()).collect())
}

fn lname(l: &Labels) -> Name<Bytes> {
    Name::from_octets(Bytes::from(wire(l))).expect("valid name")
}

fn from_lname(n: &Name<Bytes>) -> Labels {
    n.iter().filter(|l| !l.is_root()).map(|l| l.as_slice().to_vec()).collect()
}

/// `a` is `b` or a descendant of `b` (case-insensitive).
fn ends_with(a: &Labels, b: &Labels) -> bool {
    a.len() >= b.len()
        && a[a.len() - b.len()..]
            .iter()
            .zip(b)
            .all(|(x, y)| x.eq_ignore_ascii_case(y))
}

fn parent(l: &Labels) -> Labels {
    l[1..].to_vec()
}

fn star(ce: &Labels) -> Labels {
    let mut v = vec![b"*".to_vec()];
    v.extend(ce.iter().cloned());
    v
}

// ------------------------------------------------------------ own crypto helpers

fn sha1(data: &[u8]) -> Vec<u8> {
    ring::digest::digest(&ring::digest::SHA1_FOR_LEGACY_USE_ONLY, data).as_ref().to_vec()
}

fn sha256(data: &[u8]) -> Vec<u8> {
    ring::digest::digest(&ring::digest::SHA256, data).as_ref().to_vec()
}

/// RFC 5155 section 5.
fn n3hash(name: &Labels, salt: &[u8], iters: u16) -> Vec<u8> {
    let mut buf = lower_wire(name);
    buf.extend_from_slice(salt);
    let mut h = sha1(&buf);
    for _ in 0..iters {
        let mut b = h.clone();
        b.extend_from_slice(salt);
        h = sha1(&b);
    }
    h
}

const B32: &[u8; 32] = b"0123456789abcdefghijklmnopqrstuv";

fn b32hex(data: &[u8]) -> Vec<u8> {
    let mut out = Vec::new();
    let mut acc: u32 = 0;
    let mut bits = 0;
    for &b in data {
        acc = (acc << 8) | b as u32;
        bits += 8;
        while bits >= 5 {
            out.push(B32[((acc >> (bits - 5)) & 31) as usize]);
            bits -= 5;
        }
    }
    if bits > 0 {
        out.push(B32[((acc << (5 - bits)) & 31) as usize]);
    }
    out
}

fn unb32hex(s: &[u8]) -> Option<Vec<u8>> {
    let mut out = Vec::new();
    let mut acc: u32 = 0;
    let mut bits = 0;
    for &c in s {
        let v = B32.iter().position(|&x| x == c.to_ascii_lowercase())? as u32;
        acc = (acc << 5) | v;
        bits += 5;
        if bits >= 8 {
            out.push(((acc >> (bits - 8)) & 0xff) as u8);
            bits -= 8;
        }
    }
    Some(out)
}

/// RFC 4034 appendix B.
fn key_tag(rdata: &[u8]) -> u16 {
    let mut ac: u32 = 0;
    for (i, &b) in rdata.iter().enumerate() {
        ac += if i & 1 == 1 { b as u32 } else { (b as u32) << 8 };
    }
    ac += (ac >> 16) & 0xFFFF;
    (ac & 0xFFFF) as u16
}

/// DS RDATA (digest type 2) for a DNSKEY RDATA at `owner`.
fn ds_rdata(owner: &Labels, dnskey: &[u8]) -> Vec<u8> {
    let mut buf = lower_wire(owner);
    buf.extend_from_slice(dnskey);
    let mut v = key_tag(dnskey).to_be_bytes().to_vec();
    v.push(dnskey[3]);
    v.push(2);
    v.extend_from_slice(&sha256(&buf));
    v
}

/// Zone-file text of the DS RDATA for a DNSKEY RDATA at `owner`; digest type 1 (SHA-1), 2 (SHA-256) or 4 (SHA-384).
fn ds_text(owner: &Labels, dnskey: &[u8], dtype: u8) -> String {
    let mut buf = lower_wire(owner);
    buf.extend_from_slice(dnskey);
    let d = match dtype {
        1 => sha1(&buf),
        2 => sha256(&buf),
        _ => ring::digest::digest(&ring::digest::SHA384, &buf).as_ref().to_vec(),
    };
    format!("{} {} {} {}", key_tag(dnskey), dnskey[3], dtype, hex(&d))
}

// ------------------------------------------------------------ zone model

#[derive(Clone, Debug, PartialEq, Eq)]
struct Rr {
    owner: Labels,
    rtype: u16,
    class: u16,
    ttl: u32,
    rdata: Vec<u8>,
}

#[derive(Clone, Debug)]
enum Denial {
    None,
    Nsec,
    Nsec3 { salt: Vec<u8>, iters: u16, opt_out: bool },
}

type SKey = SigningKey<Bytes, KeyPair>;

struct Zone {
    apex: Labels,
    secure: bool,
    denial: Denial,
    /// (owner key, type) -> (ttl, rdatas sorted).  No RRSIGs.
    sets: BTreeMap<(Labels, u16), (u32, Vec<Vec<u8>>)>,
    /// (owner key, type covered) -> per window (0 valid, 1 expired, 2 not yet
    /// valid) the RRSIG RDATAs.
    sigs: BTreeMap<(Labels, u16), [Vec<Vec<u8>>; 3]>,
    /// owner keys of the ordinary namespace (not the NSEC3 owners).
    names: BTreeSet<Labels>,
    /// empty non-terminals.
    ents: BTreeSet<Labels>,
    /// NSEC3 chain: (hash, owner key) sorted by hash.
    n3: Vec<(Vec<u8>, Labels)>,
    key: Option<Arc<SKey>>,
    dnskey: Vec<u8>,
}

impl Zone {
    fn has(&self, k: &Labels, t: u16) -> bool {
        self.sets.contains_key(&(k.clone(), t))
    }
    fn exists(&self, k: &Labels) -> bool {
        self.names.contains(k) || self.ents.contains(k)
    }
    fn nsec_owners(&self) -> Vec<Labels> {
        self.sets.keys().filter(|(_, t)| *t == T_NSEC).map(|(k, _)| k.clone()).collect()
    }
    /// NSEC whose owner is the greatest one <= k.
    fn nsec_cover(&self, k: &Labels) -> Labels {
        let o = self.nsec_owners();
        o.iter().rev().find(|x| *x <= k).cloned().unwrap_or_else(|| o.last().cloned().expect("nsec chain"))
    }
    fn n3params(&self) -> (Vec<u8>, u16) {
        match &self.denial {
            Denial::Nsec3 { salt, iters, .. } => (salt.clone(), *iters),
            _ => (vec![], 0),
        }
    }
    fn n3_match(&self, name: &Labels) -> Option<Labels> {
        let (s, i) = self.n3params();
        let h = n3hash(name, &s, i);
        self.n3.iter().find(|(x, _)| *x == h).map(|(_, o)| o.clone())
    }
    fn n3_cover(&self, name: &Labels) -> Labels {
        let (s, i) = self.n3params();
        let h = n3hash(name, &s, i);
        self.n3
            .iter()
            .rev()
            .find(|(x, _)| *x < h)
            .or_else(|| self.n3.last())
            .map(|(_, o)| o.clone())
            .expect("nsec3 chain")
    }
}

type LName = Name<Bytes>;
type LData = ZoneRecordData<Bytes, LName>;
type LRec = Record<LName, LData>;

fn rec(owner: &str, data: LData) -> LRec {
    Record::new(lname(&nm(owner)), Class::IN, Ttl::from_secs(3600), data)
}
fn r_a(o: &str, d: u8) -> LRec {
    rec(o, ZoneRecordData::A(A::from_octets(192, 0, 2, d)))
}
fn r_ns(o: &str, t: &str) -> LRec {
    rec(o, ZoneRecordData::Ns(Ns::new(lname(&nm(t)))))
}
fn r_cname(o: &str, t: &str) -> LRec {
    rec(o, ZoneRecordData::Cname(Cname::new(lname(&nm(t)))))
}
fn r_dname(o: &str, t: &str) -> LRec {
    rec(o, ZoneRecordData::Dname(domain::rdata::Dname::new(lname(&nm(t)))))
}
fn r_mx(o: &str, t: &str) -> LRec {
    rec(o, ZoneRecordData::Mx(Mx::new(10, lname(&nm(t)))))
}
fn r_txt(o: &str, t: &str) -> LRec {
    rec(o, ZoneRecordData::Txt(Txt::<Bytes>::build_from_slice(t.as_bytes()).expect("txt")))
}
fn r_soa(o: &str) -> LRec {
    let mut mn = vec![b"ns".to_vec()];
    mn.extend(nm(o));
    let mut rn = vec![b"admin".to_vec()];
    rn.extend(nm(o));
    rec(
        o,
        ZoneRecordData::Soa(Soa::new(
            lname(&mn),
            lname(&rn),
            Serial::from(1),
            Ttl::from_secs(7200),
            Ttl::from_secs(900),
            Ttl::from_secs(86400),
            Ttl::from_secs(600),
        )),
    )
}
fn r_raw(o: &str, t: u16, rdata: Vec<u8>) -> LRec {
    rec(
        o,
        ZoneRecordData::Unknown(UnknownRecordData::from_octets(Rtype::from_int(t), Bytes::from(rdata)).expect("raw")),
    )
}

fn rdata_of<D: ComposeRecordData>(d: &D) -> Vec<u8> {
    let mut v = Vec::new();
    d.compose_rdata(&mut v).expect("compose");
    v
}

fn load_key(alg_tag: &str, apex: &Labels) -> (Arc<SKey>, Vec<u8>, String) {
    let base = format!("/repo/test-data/dnssec-keys/Ktest.+{alg_tag}");
    let pubt = std::fs::read_to_string(format!("{base}.key")).expect("key file");
    let sect = std::fs::read_to_string(format!("{base}.private")).expect("private file");
    let rec = parse_from_bind::<Vec<u8>>(&pubt).expect("parse .key");
    let secret = SecretKeyBytes::parse_from_bind(&sect).expect("parse .private");
    let dnskey = rec.data().clone();
    let kp = KeyPair::from_bytes(&secret, &dnskey).expect("key pair");
    let rd = rdata_of(&dnskey);
    // zone-file text of the key RDATA for the trust anchor
    let line = pubt.lines().find(|l| l.contains("DNSKEY")).unwrap();
    let line = line.split(';').next().unwrap();
    let f: Vec<&str> = line.split_whitespace().collect();
    let pos = f.iter().position(|x| *x == "DNSKEY").unwrap();
    let text = f[pos + 1..].join(" ");
    (Arc::new(SigningKey::new(lname(apex), dnskey.flags(), kp)), rd, text)
}

/// Sign an arbitrary RRset with the library's `sign_rrset`; returns the
/// RRSIG RDATA.
fn sign_set(key: &SKey, owner: &Labels, rtype: u16, ttl: u32, rdatas: &[Vec<u8>], inc: u32, exp: u32) -> Vec<u8> {
    let recs: Vec<Record<LName, UnknownRecordData<Bytes>>> = rdatas
        .iter()
        .map(|rd| {
            Record::new(
                lname(owner),
                Class::IN,
                Ttl::from_secs(ttl),
                UnknownRecordData::from_octets(Rtype::from_int(rtype), Bytes::from(rd.clone())).expect("raw"),
            )
        })
        .collect();
    let rrset = Rrset::new_from_owned(&recs).expect("rrset");
    let sig = sign_rrset(key, &rrset, Timestamp::from(inc), Timestamp::from(exp)).expect("sign_rrset");
    rdata_of(sig.data())
}

fn windows(now: u32) -> [(u32, u32); 3] {
    [
        (now.wrapping_sub(86400), now.wrapping_add(86400)),
        (now.wrapping_sub(172800), now.wrapping_sub(3600)),
        (now.wrapping_add(3600), now.wrapping_add(172800)),
    ]
}

fn build_zone(apex: &str, content: Vec<LRec>, skey: Option<(Arc<SKey>, Vec<u8>)>, denial: Denial, now: u32, decoys: &[Vec<u8>], dnskey_signer: Option<&Arc<SKey>>) -> Zone {
    let apexl = nm(apex);
    let mut z = Zone {
        apex: apexl.clone(),
        secure: skey.is_some(),
        denial: denial.clone(),
        sets: BTreeMap::new(),
        sigs: BTreeMap::new(),
        names: BTreeSet::new(),
        ents: BTreeSet::new(),
        n3: vec![],
        key: skey.as_ref().map(|k| k.0.clone()),
        dnskey: skey.as_ref().map(|k| k.1.clone()).unwrap_or_default(),
    };
    let add_set = |z: &mut Zone, r: &LRec| {
        let k = key(&from_lname(r.owner()));
        let e = z.sets.entry((k, r.rtype().to_int())).or_insert((r.ttl().as_secs(), vec![]));
        let rd = rdata_of(r.data());
        if !e.1.contains(&rd) {
            e.1.push(rd);
            e.1.sort();
        }
    };
    match &skey {
        None => {
            for r in &content {
                add_set(&mut z, r);
            }
        }
        Some((sk, dnskey_rd)) => {
            for (w, (inc, exp)) in windows(now).iter().enumerate() {
                let mut sorted: SortedRecords<LName, LData> = SortedRecords::new();
                for r in &content {
                    sorted.insert(r.clone()).expect("distinct records");
                }
                let den: DenialConfig<Bytes, DefaultSorter> = match &denial {
                    Denial::Nsec => DenialConfig::Nsec(GenerateNsecConfig::new()),
                    Denial::Nsec3 { salt, iters, opt_out } => {
                        let salt = Nsec3Salt::<Bytes>::from_octets(Bytes::from(salt.clone())).expect("salt");
                        let p = Nsec3param::new(Nsec3HashAlgorithm::SHA1, 0, *iters, salt);
                        let mut c = GenerateNsec3Config::<Bytes, DefaultSorter>::new(p);
                        if *opt_out {
                            c = c.with_opt_out();
                        }
                        DenialConfig::Nsec3(c)
                    }
                    Denial::None => unreachable!(),
                };
                let cfg = SigningConfig::new(den, Timestamp::from(*inc), Timestamp::from(*exp));
                sorted.sign_zone(&lname(&apexl), &cfg, &[sk.as_ref()]).expect("sign_zone");
                for r in sorted.iter() {
                    let t = r.rtype().to_int();
                    if t == T_RRSIG {
                        let rd = rdata_of(r.data());
                        let cov = u16::from_be_bytes([rd[0], rd[1]]);
                        let k = key(&from_lname(r.owner()));
                        let e = z.sigs.entry((k, cov)).or_insert_with(Default::default);
                        e[w].push(rd);
                    } else if w == 0 {
                        add_set(&mut z, r);
                    }
                }
                // DNSKEY RRset and its signature
                // (other keys of the zone, which do not sign, are listed BEFORE the signing key)
                let mut keyset: Vec<Vec<u8>> = decoys.to_vec();
                keyset.push(dnskey_rd.clone());
                let sig = sign_set(dnskey_signer.unwrap_or(sk), &apexl, T_DNSKEY, 3600, &keyset, *inc, *exp);
                z.sigs.entry((key(&apexl), T_DNSKEY)).or_insert_with(Default::default)[w].push(sig);
            }
            let mut keyset: Vec<Vec<u8>> = decoys.to_vec();
            keyset.push(dnskey_rd.clone());
            z.sets.insert((key(&apexl), T_DNSKEY), (3600, keyset));
        }
    }
    // namespace
    for (k, t) in z.sets.keys() {
        if *t == T_NSEC3 {
            continue;
        }
        z.names.insert(k.clone());
    }
    let ak = key(&apexl);
    for n in z.names.clone() {
        let mut p = n.clone();
        while p.len() > ak.len() + 1 {
            p.pop();
            if !z.names.contains(&p) {
                z.ents.insert(p.clone());
            }
        }
    }
    for (k, t) in z.sets.keys() {
        if *t == T_NSEC3 {
            let first = k.last().expect("nsec3 owner label");
            let h = unb32hex(first).expect("nsec3 owner is base32hex");
            z.n3.push((h, k.clone()));
        }
    }
    z.n3.sort();
    z
}

#[derive(Clone, Copy, PartialEq, Eq, Debug)]
enum Kind {
    /// all secure
    Secure,
    /// zone.tld is an insecure delegation (no DS)
    InsecureChild,
}

struct Hier {
    name: &'static str,
    kind: Kind,
    nsec3: bool,
    opt_out: bool,
    zones: Vec<Zone>, // [root, tld, zone.tld]
    ta_text: String,
    now: u32,
    /// the validator's wall clock reads this value (instead of the real time) while an answer of
    /// this hierarchy is validated: the signature windows of the hierarchy lie around it
    clock: Option<u32>,
    /// attacker's key for zone.tld with the same key tag and algorithm as the real one
    forged: Option<(Arc<SKey>, Vec<u8>)>,
    /// zone.tld's DNSKEY RRset lists a second, non-signing key with the same algorithm and key tag first
    decoy: bool,
    /// per zone (root, tld., zone.tld.): DNSKEY RDATA in zone-file text and in wire form
    key_texts: Vec<(String, Vec<u8>)>,
    /// the zones carry the records of the redirect dimension
    redirect: bool,
}

#[derive(Clone)]
struct Spec {
    name: &'static str,
    kind: Kind,
    nsec3: bool,
    opt_out: bool,
    /// colliding-tag key in zone.tld's DNSKEY RRset, listed before the signing key
    decoy: bool,
    /// additional secure zones evil.tld. (sibling), a.b.tld. and x.b.tld. (below the empty non-terminal b.tld.)
    extra: bool,
    /// denial of zone.tld. if it differs from the rest of the hierarchy (zone re-signed with other parameters)
    zone_denial: Option<Denial>,
    /// zone.tld. content changed: nx.zone.tld. A and www.zone.tld. TXT added, mail.zone.tld. removed
    records_changed: bool,
    /// a second key Z published in zone.tld.'s DNSKEY RRset (which the DS-referenced key K keeps signing);
    /// the bool says whether Z (true) or K (false) signs the zone data
    zsk: Option<(Arc<SKey>, Vec<u8>, bool)>,
    /// a second key K2 of the root: the root's DNSKEY RRset is {K2, K1} and carries a signature of K2
    /// ONLY (K2 = key-signing key); the root's data stays signed by K1
    root_ksk: Option<(Arc<SKey>, Vec<u8>)>,
    /// the redirect dimension: zone.tld. and tld. carry DNAMEs at owners with and without other data, DNAME
    /// targets in the same zone / the parent zone / the child zone, DNAME->DNAME, CNAME->DNAME, DNAME->CNAME
    /// and CNAME chains that end in NXDOMAIN (see `build_hier`)
    redirect: bool,
}

/// A fresh ECDSAP256SHA256 key for `apex`.
fn gen_key(apex: &str) -> (Arc<SKey>, Vec<u8>) {
    let (sec, pk) = generate(&GenerateParams::EcdsaP256Sha256, 257).expect("generate");
    let kp = KeyPair::from_bytes(&sec, &pk).expect("key pair");
    let rd = rdata_of(&pk);
    (Arc::new(SigningKey::new(lname(&nm(apex)), 257, kp)), rd)
}

fn build_hier(spec: Spec, now: u32) -> Hier {
    let Spec { name, kind, nsec3, opt_out, decoy, extra, zone_denial, records_changed, zsk, root_ksk, redirect } = spec;
    let (k_root, rd_root, ta) = load_key("008+60616", &nm("."));
    let (k_tld, rd_tld, ta_tld) = load_key("010+46731", &nm("tld."));
    let (k_zone, rd_zone, ta_zone) = load_key("013+42253", &nm("zone.tld."));
    let key_texts = vec![(ta.clone(), rd_root.clone()), (ta_tld, rd_tld.clone()), (ta_zone, rd_zone.clone())];
    let den = |salt: &[u8], iters: u16, oo: bool| {
        if nsec3 {
            Denial::Nsec3 { salt: salt.to_vec(), iters, opt_out: oo }
        } else {
            Denial::Nsec
        }
    };
    let root = vec![
        r_soa("."),
        r_ns(".", "ns."),
        r_a("ns.", 1),
        r_txt("aaa.", "a"),
        r_txt("zzz.", "z"),
        r_ns("tld.", "ns.tld."),
        r_raw("tld.", T_DS, ds_rdata(&nm("tld."), &rd_tld)),
    ];
    let mut tld = vec![
        r_soa("tld."),
        r_ns("tld.", "ns.tld."),
        r_a("ns.tld.", 2),
        r_a("www.tld.", 3),
        r_txt("alpha.tld.", "alpha"),
        r_txt("zzz.tld.", "zzz"),
        r_ns("zone.tld.", "ns.zone.tld."),
    ];
    if kind == Kind::Secure {
        tld.push(r_raw("zone.tld.", T_DS, ds_rdata(&nm("zone.tld."), &rd_zone)));
    }
    let mut zone = vec![
        r_soa("zone.tld."),
        r_ns("zone.tld.", "ns.zone.tld."),
        r_a("zone.tld.", 10),
        r_a("ns.zone.tld.", 9),
        r_a("www.zone.tld.", 11),
        r_a("www.zone.tld.", 12),
        r_a("a.b.zone.tld.", 13),
        r_a("*.w.zone.tld.", 77),
        r_txt("*.w.zone.tld.", "wild"),
        r_a("explicit.w.zone.tld.", 78),
        r_cname("cn.zone.tld.", "www.zone.tld."),
        r_cname("ext.zone.tld.", "www.tld."),
        r_cname("*.wc.zone.tld.", "www.zone.tld."),
        r_cname("c1.zone.tld.", "www.zone.tld."),
        r_cname("c2.zone.tld.", "c1.zone.tld."),
        r_cname("c3.zone.tld.", "c2.zone.tld."),
        rec("d.zone.tld.", ZoneRecordData::Dname(domain::rdata::Dname::new(lname(&nm("w.zone.tld."))))),
    ];
    if redirect {
        zone.extend(vec![
            // a DNAME at an owner that also has address data; target in the same zone
            r_a("dn.zone.tld.", 30),
            r_dname("dn.zone.tld.", "rt.zone.tld."),
            r_txt("rt.zone.tld.", "rt"),
            r_a("www.rt.zone.tld.", 31),
            // DNAME -> CNAME
            r_cname("cn.rt.zone.tld.", "www.zone.tld."),
            // DNAME -> DNAME
            r_dname("d2.zone.tld.", "dn.zone.tld."),
            // a DNAME whose target is (the apex of) another signed zone, the parent
            r_dname("up.zone.tld.", "tld."),
            r_txt("up.zone.tld.", "up"),
            // CNAME -> DNAME -> data; CNAME -> the owner of a DNAME itself
            r_cname("cd.zone.tld.", "www.dn.zone.tld."),
            r_cname("co.zone.tld.", "dn.zone.tld."),
            // CNAME chains of length 1 and 2 that end at a name that does not exist
            r_cname("cx1.zone.tld.", "nx.zone.tld."),
            r_cname("cx2.zone.tld.", "cx1.zone.tld."),
        ]);
        // a DNAME in tld. into the child zone: another signed zone, or (insecure child) an insecure one
        tld.push(r_dname("dz.tld.", "zone.tld."));
        tld.push(r_txt("dz.tld.", "dz"));
    }
    if records_changed {
        zone.push(r_a("nx.zone.tld.", 50));
        zone.push(r_txt("www.zone.tld.", "now it has one"));
    } else {
        zone.push(r_mx("mail.zone.tld.", "www.zone.tld."));
    }
    // attacker key with colliding key tag (same algorithm): the flags field
    // is chosen such that the tag matches; the ZONE bit must stay set.
    let mut forged = None;
    if kind == Kind::Secure {
        let want = key_tag(&rd_zone);
        for _ in 0..64 {
            let (sec, pk) = generate(&GenerateParams::EcdsaP256Sha256, 256).expect("generate");
            let mut rd = rdata_of(&pk);
            rd[0] = 0;
            rd[1] = 0;
            let base = key_tag(&rd);
            // tag(flags) = fold(base_unfolded + flags); search the 16-bit flags space
            let mut found = None;
            for fl in 0..=0xFFFFu32 {
                if fl & 0x0100 == 0 {
                    continue;
                }
                rd[0] = (fl >> 8) as u8;
                rd[1] = fl as u8;
                if key_tag(&rd) == want {
                    found = Some(fl as u16);
                    break;
                }
            }
            let _ = base;
            if let Some(fl) = found {
                rd[0] = (fl >> 8) as u8;
                rd[1] = fl as u8;
                let pk2 = domain::rdata::Dnskey::new(fl, pk.protocol(), pk.algorithm(), pk.public_key().clone()).expect("dnskey");
                let kp = KeyPair::from_bytes(&sec, &pk2).expect("forged key pair");
                assert_eq!(rdata_of(&pk2), rd);
                forged = Some((Arc::new(SigningKey::new(lname(&nm("zone.tld.")), fl, kp)), rd));
                break;
            }
        }
        assert!(forged.is_some(), "MACHINERY: could not construct a tag-colliding key");
    }
    let mut extra_zones = vec![];
    if extra {
        for (apex, d) in [("evil.tld.", 20u8), ("a.b.tld.", 21), ("x.b.tld.", 22)] {
            let (k, rd) = gen_key(apex);
            tld.push(r_ns(apex, &format!("ns.{apex}")));
            tld.push(r_raw(apex, T_DS, ds_rdata(&nm(apex), &rd)));
            let content = vec![r_soa(apex), r_ns(apex, &format!("ns.{apex}")), r_a(&format!("ns.{apex}"), d), r_a(&format!("www.{apex}"), d + 10)];
            extra_zones.push(build_zone(apex, content, Some((k, rd)), Denial::Nsec, now, &[], None));
        }
    }
    let decoys: Vec<Vec<u8>> = if decoy { vec![forged.as_ref().expect("decoy needs the colliding key").1.clone()] } else { vec![] };
    let zroot = match &root_ksk {
        None => build_zone(".", root, Some((k_root, rd_root)), den(&[], 0, false), now, &[], None),
        Some((k2, rd2)) => build_zone(".", root, Some((k_root, rd_root)), den(&[], 0, false), now, &[rd2.clone()], Some(k2)),
    };
    let ztld = build_zone("tld.", tld, Some((k_tld, rd_tld)), den(&[0xAA, 0xBB], 1, opt_out), now, &[], None);
    let zden = zone_denial.unwrap_or_else(|| den(&[0x01], 2, false));
    let zzone = match (kind, zsk) {
        (Kind::InsecureChild, _) => build_zone("zone.tld.", zone, None, Denial::None, now, &[], None),
        (Kind::Secure, None) => build_zone("zone.tld.", zone, Some((k_zone, rd_zone.clone())), zden, now, &decoys, None),
        // K (DS-referenced) signs the DNSKEY RRset {K, Z}; the zone data is signed by K or by Z
        (Kind::Secure, Some((_, zrd, false))) => build_zone("zone.tld.", zone, Some((k_zone, rd_zone.clone())), zden, now, &[zrd], None),
        (Kind::Secure, Some((zk, zrd, true))) => build_zone("zone.tld.", zone, Some((zk, zrd)), zden, now, &[rd_zone.clone()], Some(&k_zone)),
    };
    let h = Hier {
        name,
        kind,
        nsec3,
        opt_out,
        zones: {
            let mut v = vec![zroot, ztld, zzone];
            v.extend(extra_zones);
            v
        },
        ta_text: format!(". 3600 IN DNSKEY {ta}"),
        now,
        clock: None,
        forged,
        decoy,
        key_texts,
        redirect,
    };
    h.sanity();
    h
}

// ------------------------------------------------------------ truth

#[derive(Clone, Debug, PartialEq, Eq)]
enum Truth {
    Pos { zone: usize, src: Labels, wildcard: bool, ce: Labels },
    Cname { zone: usize, src: Labels, wildcard: bool, ce: Labels, target: Labels },
    /// kind: 0 name exists, 1 empty non-terminal, 2 wildcard
    NoData { zone: usize, kind: u8, ce: Labels },
    NxDomain { zone: usize, ce: Labels },
    /// the name lies below the owner (key) of a DNAME; target = the name after substitution
    Dname { zone: usize, owner: Labels, target: Labels },
}

impl Truth {
    fn zone(&self) -> usize {
        match self {
            Truth::Pos { zone, .. } | Truth::Cname { zone, .. } | Truth::NoData { zone, .. } | Truth::NxDomain { zone, .. } | Truth::Dname { zone, .. } => *zone,
        }
    }
    fn short(&self) -> &'static str {
        match self {
            Truth::Pos { wildcard: false, src, .. } if src.last().map(|l| l.as_slice()) == Some(b"*") => "positive-at-wildcard-owner",
            Truth::Cname { wildcard: false, src, .. } if src.last().map(|l| l.as_slice()) == Some(b"*") => "cname-at-wildcard-owner",
            Truth::Pos { wildcard: false, .. } => "positive",
            Truth::Pos { .. } => "positive-wildcard",
            Truth::Cname { .. } => "cname",
            Truth::NoData { kind: 0, .. } => "nodata",
            Truth::NoData { kind: 1, .. } => "nodata-ent",
            Truth::NoData { .. } => "nodata-wildcard",
            Truth::NxDomain { .. } => "nxdomain",
            Truth::Dname { .. } => "dname",
        }
    }
}

fn name_in_rdata(rd: &[u8], at: usize) -> Labels {
    let mut p = at;
    let mut out = vec![];
    while p < rd.len() && rd[p] != 0 {
        let l = rd[p] as usize;
        out.push(rd[p + 1..p + 1 + l].to_vec());
        p += 1 + l;
    }
    out
}

impl Hier {
    fn zone_for(&self, qname: &Labels, qtype: u16) -> usize {
        let mut best = 0;
        for (i, z) in self.zones.iter().enumerate() {
            if ends_with(qname, &z.apex) && z.apex.len() >= self.zones[best].apex.len() {
                if qtype == T_DS && z.apex.len() == qname.len() && !z.apex.is_empty() {
                    continue;
                }
                best = i;
            }
        }
        best
    }

    /// What the authentic hierarchy says about (qname, qtype).
    fn classify(&self, qname: &Labels, qtype: u16) -> Truth {
        let zi = self.zone_for(qname, qtype);
        let z = &self.zones[zi];
        let k = key(qname);
        // RFC 6672: a name below the owner of a DNAME is redirected
        let apex_len = key(&z.apex).len();
        for n in (apex_len..k.len()).rev() {
            let anc: Labels = k[..n].to_vec();
            if let Some((_, rds)) = z.sets.get(&(anc.clone(), T_DNAME)) {
                let mut target: Labels = qname[..qname.len() - n].to_vec();
                target.extend(name_in_rdata(&rds[0], 0));
                return Truth::Dname { zone: zi, owner: anc, target };
            }
        }
        if z.has(&k, qtype) {
            return Truth::Pos { zone: zi, src: k.clone(), wildcard: false, ce: k };
        }
        if z.names.contains(&k) {
            if qtype != T_CNAME {
                if let Some((_, rds)) = z.sets.get(&(k.clone(), T_CNAME)) {
                    return Truth::Cname { zone: zi, src: k.clone(), wildcard: false, ce: k, target: name_in_rdata(&rds[0], 0) };
                }
            }
            return Truth::NoData { zone: zi, kind: 0, ce: k };
        }
        if z.ents.contains(&k) {
            return Truth::NoData { zone: zi, kind: 1, ce: k };
        }
        // closest encloser
        let mut ce = k.clone();
        loop {
            ce.pop();
            if z.exists(&ce) || ce.len() <= key(&z.apex).len() {
                break;
            }
        }
        let mut st = ce.clone();
        st.push(b"*".to_vec());
        if z.names.contains(&st) {
            if z.has(&st, qtype) {
                return Truth::Pos { zone: zi, src: st, wildcard: true, ce };
            }
            if qtype != T_CNAME {
                if let Some((_, rds)) = z.sets.get(&(st.clone(), T_CNAME)) {
                    return Truth::Cname { zone: zi, src: st, wildcard: true, ce, target: name_in_rdata(&rds[0], 0) };
                }
            }
            return Truth::NoData { zone: zi, kind: 2, ce };
        }
        Truth::NxDomain { zone: zi, ce }
    }

    /// Machinery self-check of the built hierarchy against this file's own
    /// hash / chain computations (a mismatch is a harness or signer problem,
    /// not a validator verdict).
    fn sanity(&self) {
        for z in &self.zones {
            if !z.secure {
                continue;
            }
            for ((k, t), _) in z.sets.iter() {
                let cut = *t == T_NS && k != &key(&z.apex);
                let s = z.sigs.get(&(k.clone(), *t));
                if cut {
                    assert!(s.is_none(), "MACHINERY: signed delegation NS");
                } else {
                    let s = s.unwrap_or_else(|| panic!("MACHINERY: no RRSIG for {} {}", show(&unkey(k)), tname(*t)));
                    assert!(s.iter().all(|w| w.len() == 1), "MACHINERY: RRSIG windows incomplete");
                }
            }
            // key tag / DNSKEY RDATA / DS digest: this file's own computations against the library's
            let lib = z.key.as_ref().expect("key").dnskey();
            assert_eq!(rdata_of(&lib), z.dnskey, "MACHINERY: DNSKEY RDATA");
            assert_eq!(lib.key_tag(), key_tag(&z.dnskey), "MACHINERY: key tag computation disagrees with the library");
            assert_eq!(z.sets.get(&(key(&z.apex), T_DNSKEY)).and_then(|s| s.1.last().cloned()), Some(z.dnskey.clone()), "MACHINERY: DNSKEY set");
            for (h, o) in &z.n3 {
                assert_eq!(b32hex(h), o.last().unwrap().to_ascii_lowercase(), "MACHINERY: base32hex");
            }
            if let Denial::Nsec3 { salt, iters, opt_out } = &z.denial {
                for n in z.names.iter().chain(z.ents.iter()) {
                    let is_insecure_cut = z.has(n, T_NS) && n != &key(&z.apex) && !z.has(n, T_DS);
                    let m = z.n3_match(&unkey(n));
                    if *opt_out && is_insecure_cut {
                        assert!(m.is_none(), "MACHINERY: opt-out delegation has an NSEC3");
                    } else {
                        assert!(m.is_some(), "MACHINERY: no NSEC3 for {} (salt {} iters {iters})", show(&unkey(n)), hex(salt));
                    }
                }
            }
        }
    }
}

// ------------------------------------------------------------ responses

#[derive(Clone, Debug)]
struct RrE {
    id: u16,
    rr: Rr,
    /// zone index, source owner key (for RRSIGs: owner key of the signed set), type (covered)
    src: (usize, Labels, u16),
}

#[derive(Clone, Debug)]
struct Resp {
    qname: Labels,
    qtype: u16,
    rcode: u8,
    sec: [Vec<RrE>; 3],
    counts: [Option<u16>; 4],
    cut: usize,
    up_err: bool,
    next_id: u16,
}

impl Resp {
    fn new(qname: &Labels, qtype: u16) -> Resp {
        Resp { qname: qname.clone(), qtype, rcode: 0, sec: Default::default(), counts: [None; 4], cut: 0, up_err: false, next_id: 1 }
    }
    fn push(&mut self, s: usize, rr: Rr, src: (usize, Labels, u16)) -> u16 {
        let id = self.next_id;
        self.next_id += 1;
        self.sec[s].push(RrE { id, rr, src });
        id
    }
    fn has_set(&self, s: usize, owner: &Labels, t: u16) -> bool {
        self.sec[s].iter().any(|e| e.rr.rtype == t && key(&e.rr.owner) == key(owner))
    }
    /// Add the RRset (src owner, type) of zone zi under owner `as_owner`
    /// followed by its RRSIGs.
    fn push_set(&mut self, h: &Hier, s: usize, zi: usize, srck: &Labels, as_owner: &Labels, t: u16) {
        if self.has_set(s, as_owner, t) {
            return;
        }
        let z = &h.zones[zi];
        let Some((ttl, rds)) = z.sets.get(&(srck.clone(), t)) else {
            panic!("MACHINERY: responder wants missing set {} {}", show(&unkey(srck)), tname(t));
        };
        for rd in rds {
            self.push(s, Rr { owner: as_owner.clone(), rtype: t, class: 1, ttl: *ttl, rdata: rd.clone() }, (zi, srck.clone(), t));
        }
        if let Some(sg) = z.sigs.get(&(srck.clone(), t)) {
            for rd in &sg[0] {
                self.push(s, Rr { owner: as_owner.clone(), rtype: T_RRSIG, class: 1, ttl: *ttl, rdata: rd.clone() }, (zi, srck.clone(), t));
            }
        }
    }
    fn push_denial(&mut self, h: &Hier, zi: usize, ownerk: &Labels) {
        let t = if matches!(h.zones[zi].denial, Denial::Nsec3 { .. }) { T_NSEC3 } else { T_NSEC };
        let o = unkey(ownerk);
        self.push_set(h, 1, zi, ownerk, &o, t);
    }

    fn encode(&self) -> Vec<u8> {
        let mut v = Vec::new();
        v.extend_from_slice(&0x1d1du16.to_be_bytes());
        let flags: u16 = 0x8000 | 0x0100 | 0x0080 | 0x0010 | (self.rcode as u16 & 0xF);
        v.extend_from_slice(&flags.to_be_bytes());
        let real = [1u16, self.sec[0].len() as u16, self.sec[1].len() as u16, self.sec[2].len() as u16];
        for i in 0..4 {
            v.extend_from_slice(&self.counts[i].unwrap_or(real[i]).to_be_bytes());
        }
        v.extend_from_slice(&wire(&self.qname));
        v.extend_from_slice(&self.qtype.to_be_bytes());
        v.extend_from_slice(&1u16.to_be_bytes());
        for s in 0..3 {
            for e in &self.sec[s] {
                v.extend_from_slice(&wire(&e.rr.owner));
                v.extend_from_slice(&e.rr.rtype.to_be_bytes());
                v.extend_from_slice(&e.rr.class.to_be_bytes());
                v.extend_from_slice(&e.rr.ttl.to_be_bytes());
                v.extend_from_slice(&(e.rr.rdata.len() as u16).to_be_bytes());
                v.extend_from_slice(&e.rr.rdata);
            }
        }
        let n = v.len().saturating_sub(self.cut);
        v.truncate(n);
        v
    }
}

impl Hier {
    /// The deterministic upstream: authentic answer for (qname, qtype).
    fn answer(&self, qname: &Labels, qtype: u16) -> Resp {
        self.answer_n(qname, qtype, usize::MAX)
    }

    /// The names SNAME takes in the authentic resolution of (qname, qtype): n_0 = qname, every name a
    /// CNAME / DNAME leads to, up to the name n_k the final answer or denial is about; with what the
    /// authentic hierarchy says about each.
    fn chain(&self, qname: &Labels, qtype: u16) -> Vec<(Labels, Truth)> {
        let mut v = vec![];
        let mut name = qname.clone();
        for _ in 0..8 {
            let t = self.classify(&name, qtype);
            v.push((name.clone(), t.clone()));
            match t {
                Truth::Cname { target, .. } | Truth::Dname { target, .. } => name = target,
                _ => break,
            }
        }
        v
    }

    /// The authentic answer, cut after `links` redirections: the records of the first `links` CNAME /
    /// DNAME links and nothing about the name the last of them leads to.
    fn answer_n(&self, qname: &Labels, qtype: u16, links: usize) -> Resp {
        let mut r = Resp::new(qname, qtype);
        let mut name = qname.clone();
        for step in 0..8 {
            if step == links {
                return r;
            }
            let t = self.classify(&name, qtype);
            let zi = t.zone();
            let z = &self.zones[zi];
            match t {
                Truth::Pos { src, wildcard, ce, .. } => {
                    r.push_set(self, 0, zi, &src, &name, qtype);
                    if wildcard && z.secure {
                        self.wildcard_proof(&mut r, zi, &name, &ce);
                    }
                    return r;
                }
                Truth::Cname { src, wildcard, ce, target, .. } => {
                    r.push_set(self, 0, zi, &src, &name, T_CNAME);
                    if wildcard && z.secure {
                        self.wildcard_proof(&mut r, zi, &name, &ce);
                    }
                    name = target;
                }
                Truth::Dname { owner, target, .. } => {
                    let o = unkey(&owner);
                    r.push_set(self, 0, zi, &owner, &o, T_DNAME);
                    {
                        // the synthesized CNAME is not signed
                        let ttl = z.sets.get(&(owner.clone(), T_DNAME)).map(|s| s.0).unwrap_or(0);
                        r.push(0, Rr { owner: name.clone(), rtype: T_CNAME, class: 1, ttl, rdata: wire(&target) }, (zi, key(&name), T_CNAME));
                    }
                    name = target;
                }
                t @ (Truth::NoData { .. } | Truth::NxDomain { .. }) => {
                    self.push_negative(&mut r, &name, &t);
                    return r;
                }
            }
        }
        r
    }

    /// SOA and denial records (and the rcode) of the negative answer `t` for `name`, as the zone's
    /// authoritative server composes them.
    fn push_negative(&self, r: &mut Resp, name: &Labels, t: &Truth) {
        let zi = t.zone();
        let z = &self.zones[zi];
        let apexk = key(&z.apex);
        match t.clone() {
            Truth::NoData { kind, ce, .. } => {
                let ao = z.apex.clone();
                r.push_set(self, 1, zi, &apexk, &ao, T_SOA);
                if z.secure {
                    let k = key(name);
                    match (&z.denial, kind) {
                        (Denial::Nsec, 0) => r.push_denial(self, zi, &k),
                        (Denial::Nsec, 1) => r.push_denial(self, zi, &z.nsec_cover(&k)),
                        (Denial::Nsec, _) => {
                            let mut st = ce.clone();
                            st.push(b"*".to_vec());
                            r.push_denial(self, zi, &z.nsec_cover(&k));
                            r.push_denial(self, zi, &st);
                        }
                        (Denial::Nsec3 { .. }, 0 | 1) => match z.n3_match(name) {
                            Some(o) => r.push_denial(self, zi, &o),
                            None => {
                                // opt-out: closest provable encloser + cover of next closer
                                self.n3_ce_proof(r, zi, name);
                            }
                        },
                        (Denial::Nsec3 { .. }, _) => {
                            let cel = unkey(&ce);
                            r.push_denial(self, zi, &z.n3_match(&cel).expect("ce nsec3"));
                            let nc = name[name.len() - cel.len() - 1..].to_vec();
                            r.push_denial(self, zi, &z.n3_cover(&nc));
                            r.push_denial(self, zi, &z.n3_match(&star(&cel)).expect("wildcard nsec3"));
                        }
                        (Denial::None, _) => unreachable!(),
                    }
                }
            }
            Truth::NxDomain { ce, .. } => {
                r.rcode = 3;
                let ao = z.apex.clone();
                r.push_set(self, 1, zi, &apexk, &ao, T_SOA);
                if z.secure {
                    let k = key(name);
                    let cel = unkey(&ce);
                    match &z.denial {
                        Denial::Nsec => {
                            r.push_denial(self, zi, &z.nsec_cover(&k));
                            r.push_denial(self, zi, &z.nsec_cover(&key(&star(&cel))));
                        }
                        Denial::Nsec3 { .. } => {
                            r.push_denial(self, zi, &z.n3_match(&cel).expect("ce nsec3"));
                            let nc = name[name.len() - cel.len() - 1..].to_vec();
                            r.push_denial(self, zi, &z.n3_cover(&nc));
                            r.push_denial(self, zi, &z.n3_cover(&star(&cel)));
                        }
                        Denial::None => unreachable!(),
                    }
                }
            }
            _ => {}
        }
    }

    fn wildcard_proof(&self, r: &mut Resp, zi: usize, name: &Labels, ce: &Labels) {
        let z = &self.zones[zi];
        match &z.denial {
            Denial::Nsec => r.push_denial(self, zi, &z.nsec_cover(&key(name))),
            Denial::Nsec3 { .. } => {
                let cel = unkey(ce);
                let nc = name[name.len() - cel.len() - 1..].to_vec();
                r.push_denial(self, zi, &z.n3_cover(&nc));
            }
            Denial::None => {}
        }
    }

    fn n3_ce_proof(&self, r: &mut Resp, zi: usize, name: &Labels) {
        let z = &self.zones[zi];
        let mut ce = name.clone();
        loop {
            ce = parent(&ce);
            if z.n3_match(&ce).is_some() || ce.len() <= z.apex.len() {
                break;
            }
        }
        r.push_denial(self, zi, &z.n3_match(&ce).expect("ce nsec3"));
        let nc = name[name.len() - ce.len() - 1..].to_vec();
        r.push_denial(self, zi, &z.n3_cover(&nc));
    }
}

// ------------------------------------------------------------ faults (types)

#[derive(Clone, Debug, Serialize, Deserialize, PartialEq, Eq, Hash)]
enum Target {
    Main,
    /// upstream response for (qname as shown, qtype)
    Up(String, u16),
}

#[derive(Clone, Debug, Serialize, Deserialize, PartialEq, Eq, Hash)]
enum Op {
    /// drop the records of an RRset (and, if with_sigs, its RRSIGs)
    DropSet { ids: Vec<u16>, with_sigs: bool },
    /// duplicate one record
    Dup { id: u16 },
    /// TTL of the listed records: mode 0 = original + 100000, 1 = 0, 2 = 0x7fffffff
    Ttl { ids: Vec<u16>, mode: u8 },
    /// flip one bit of the RDATA: pos 0 first octet, 1 middle, 2 last
    FlipRdata { id: u16, pos: u8 },
    /// xor the first octet of the first owner label of the listed records
    FlipOwner { ids: Vec<u16>, mask: u8 },
    DropSig { id: u16 },
    /// replace the RRSIG RDATA by an authentic one of (zone, owner, covered);
    /// patch: 0 none, 1 type covered rewritten to the expected one
    ReplaceSig { id: u16, zone: usize, owner: String, covered: u16, patch: u8 },
    /// flip the lowest bit of the last octet of field: 0 type covered, 1 algorithm, 2 labels,
    /// 3 original ttl, 4 expiration, 5 inception, 6 key tag, 7 signer name (first octet of first label),
    /// 8 signature first octet, 9 signature last octet; 10 labels - 1; 11 signer := parent zone; 12 signer := child zone
    SigField { id: u16, field: u8 },
    /// replace by the RRSIG the real signer made for window 1 (expired) or 2 (not yet valid)
    Window { id: u16, w: u8 },
    /// n corrupted copies of the RRSIG in front of the good one
    ManyBad { id: u16, n: u16 },
    /// DNSKEY: 0 empty key, 1 half key, 2 key minus last octet, 3 garbage of same length, 4 ZONE flag cleared,
    /// 5 algorithm 1 (RSAMD5), 6 algorithm 15, 7 protocol 2, 8 one-octet key, 9 extra garbage DNSKEY added
    Key { id: u16, how: u8 },
    /// DS: 0 digest last bit, 1 digest truncated to 16, 2 digest empty, 3 digest type 1, 4 digest type 99,
    /// 5 algorithm 15, 6 key tag + 1, 7 extra DS (alg 15) added
    Ds { id: u16, how: u8 },
    /// replace an NSEC/NSEC3 RRset and its RRSIGs by another authentic, validly signed one
    SwapDenial { ids: Vec<u16>, zone: usize, owner: String },
    /// NSEC3 owner hash label: 0 non-base32hex character, 1 31 characters, 2 33 characters, 3 16 characters,
    /// 4 non-UTF-8 octet, 5 single character, 6 upper case; resign: re-signed with the zone's real key
    N3Owner { ids: Vec<u16>, variant: u8, resign: bool },
    /// NSEC3 parameters altered and re-signed with the zone's real key: 0 iterations 101, 1 iterations 501,
    /// 2 hash algorithm 2, 3 opt-out flag set, 4 next hashed owner of 19 octets
    N3Param { ids: Vec<u16>, variant: u8 },
    /// header count: which 0 qd 1 an 2 ns 3 ar; mode 0 +1, 1 -1, 2 = 65535, 3 = 0, 4 = 2
    Counts { which: u8, mode: u8 },
    Rcode { to: u8 },
    /// cut octets from the end: mode 0 one octet, 1 half of the message, 2 down to 11 octets
    Cut { mode: u8 },
    /// the upstream request fails
    UpErr,
    /// all records removed
    Empty,
    /// the whole response (rcode and all sections, not the question) replaced by the authentic,
    /// validly signed response to another question
    ReplaceBy { qname: String, qtype: u16 },
    /// an unsigned RRset owned below the insecure delegation is added to section s
    InjectInsecure { s: u8 },
    /// answer RRset forged and signed with the attacker's tag-colliding key (main) /
    /// DNSKEY RRset of the child replaced by the attacker's self-signed key (upstream)
    Forge,
    /// answer RRset forged and signed with the real key of a zone that is not an ancestor of the owner
    OutOfBailiwick,
    /// the CNAME answer is dropped and replaced by a NODATA response made of the genuine signed SOA and
    /// the CNAME owner's own genuine NSEC / NSEC3 (whose bitmap lists CNAME)
    CnameToNodata,
    /// DS RRset at the cut forged and signed by the CHILD zone's real key (signer = owner; RFC 4035 5.3.1
    /// wants the parent).  The forged set is covered by a chain to the trust anchor, so the property text
    /// does not decide: information only.
    DsSignedByChild,
    // ---- the redirect dimension (main answer only; the message is composed anew from authentic, validly
    // signed RRsets of the hierarchy; n_0 = QNAME, n_1, .. n_k are the names of the authentic CNAME / DNAME chain)
    /// The authentic answer is cut after `keep` links; the genuine DNAME RRset of (zone, owner) follows as if
    /// it applied to the name n_keep reached there, which is not below its owner: rel 0 = n_keep is the DNAME's
    /// own owner, 1 = an ancestor of the owner, 2 = any other name; `synth`: with the CNAME synthesized
    /// accordingly; then the authentic answer (data or denial proof) for the name this "redirects" to.
    ApplyDname { keep: usize, zone: usize, owner: String, synth: bool, rel: u8 },
    /// Link `link` is a DNAME redirection; its synthesized (unsigned) CNAME gets another target: 0 the DNAME
    /// target without the prefix, 1 the prefix under the apex of the DNAME's zone, 2 www.zone.tld., 3 one more
    /// label in front of the right target; cont: the message goes on with the authentic answer for that
    /// target (otherwise with the authentic answer for the right target).
    SynthTarget { link: usize, variant: u8, cont: bool },
    /// The authentic answer cut after `keep` links, with the rcode and authority section of a denial for
    /// (name, rtype): the authentic negative answer if there is one; else the SOA with the name's own NSEC /
    /// NSEC3 (name exists) resp. with the records that would prove NXDOMAIN if the wildcard / the DNAME above
    /// the name were not there.  same: the denial is about the name the cut chain ends at.
    ChainCut { keep: usize, name: String, rtype: u16, same: bool },
    /// Link `link` of the chain removed: what 0 = its (signed or synthesized) CNAME, 1 = its DNAME (the
    /// synthesized CNAME stays), 2 = both.
    DropLink { link: usize, what: u8 },
    // ---- malformed public key selected by a signature (hostile zone owner: the zone's real key re-signs)
    /// A DNSKEY (flags 256, protocol 3, algorithm `alg`) whose public-key field is entry `shape` of
    /// `bad_key_menu(alg)` is put in front of the DNSKEY RRset of zone `zone`, and RRSIGs whose algorithm and
    /// key tag (RFC 4034 appendix B, `key_tag` of this file) select it are added.  What is done depends on the
    /// message the fault is applied to:
    /// * the upstream DNSKEY response of the zone: key added, RRset re-signed with the zone's real key, and an
    ///   RRSIG(DNSKEY) selecting the malformed key put in front of the good one (`only`: instead of it);
    /// * the upstream DS response for the zone: a DS (SHA-256) of the malformed key put in front of the good
    ///   DS (`only`: instead of it), RRset re-signed with the parent's real key;
    /// * the validated answer: in front of every RRSIG made by the zone an RRSIG selecting the malformed key
    ///   (`only`: instead of it).
    BadKey { zone: usize, alg: u8, shape: u8, only: bool },
}

/// The hostile public-key fields per DNSSEC algorithm: RSA (RFC 3110: exponent length in one or three octets,
/// exponent, modulus) for 5, 7, 8, 10; fixed-length keys for 13 (64), 14 (96), 15 (32), 16 (57 octets).
fn bad_key_menu(alg: u8) -> Vec<Vec<u8>> {
    let rep = |head: &[u8], b: u8, n: usize| {
        let mut v = head.to_vec();
        v.extend(std::iter::repeat(b).take(n));
        v
    };
    match alg {
        5 | 7 | 8 | 10 => vec![
            vec![],
            vec![0],
            vec![1],
            vec![0, 0],
            vec![0, 0, 0],
            vec![0, 0, 1],
            vec![1, 3],
            vec![3, 1, 0, 1],
            vec![4, 1, 0, 1],
            vec![0, 0, 3, 1, 0],
            vec![0, 0, 3, 1, 0, 1],
            rep(&[0, 1, 0], 1, 256),
            rep(&[0, 1, 0], 1, 255),
            rep(&[1, 0], 0xC5, 256),
            rep(&[3, 1, 0, 1, 0], 0xC5, 255),
            rep(&[3, 1, 0, 1], 0xC5, 513),
            rep(&[0, 2, 1], 0xC5, 513 + 256),
            vec![1, 3, 0xC5],
            rep(&[0xFF], 0xC5, 255),
        ],
        13 | 14 | 15 | 16 => {
            let n = match alg {
                13 => 64,
                14 => 96,
                15 => 32,
                _ => 57,
            };
            vec![vec![], vec![0xC5], rep(&[], 0xC5, n - 1), rep(&[], 0xC5, n + 1), rep(&[], 0, n), rep(&[], 0xFF, n)]
        }
        _ => vec![],
    }
}

const BAD_KEY_ALGS: [u8; 8] = [5, 7, 8, 10, 13, 14, 15, 16];

fn bad_key_rdata(alg: u8, shape: u8) -> Option<Vec<u8>> {
    let pk = bad_key_menu(alg).get(shape as usize)?.clone();
    let mut v = vec![1, 0, 3, alg];
    v.extend(pk);
    Some(v)
}

impl Op {
    fn is_redirect(&self) -> bool {
        matches!(self, Op::ApplyDname { .. } | Op::SynthTarget { .. } | Op::ChainCut { .. } | Op::DropLink { .. })
    }
    fn kind(&self) -> String {
        match self {
            Op::ApplyDname { synth, rel, .. } => format!("dname-applied-to-{}{}", ["its-own-owner", "an-ancestor-of-its-owner", "a-name-not-below-its-owner"][*rel as usize], if *synth { "-with-synthesized-cname" } else { "" }),
            Op::SynthTarget { cont, .. } => format!("synthesized-cname-with-wrong-target{}", if *cont { "-and-answer-for-it" } else { "" }),
            Op::ChainCut { same, .. } => format!("chain-cut-with-denial-for-{}", if *same { "the-link-name" } else { "another-name" }),
            Op::DropLink { what, .. } => format!("drop-chain-link-{}", ["cname", "dname", "dname-and-cname"][*what as usize]),
            Op::DropSet { with_sigs, .. } => if *with_sigs { "drop-rrset-and-rrsigs".into() } else { "drop-rrset".into() },
            Op::Dup { .. } => "duplicate-rr".into(),
            Op::Ttl { mode, .. } => format!("ttl-{}", ["raised", "zero", "max"][*mode as usize]),
            Op::FlipRdata { .. } => "flip-rdata-bit".into(),
            Op::FlipOwner { mask, .. } => if *mask == 0x20 { "owner-case".into() } else { "flip-owner-bit".into() },
            Op::DropSig { .. } => "drop-rrsig".into(),
            Op::ReplaceSig { patch, .. } => format!("replace-rrsig-p{patch}"),
            Op::SigField { field, .. } => format!("rrsig-field-{field}"),
            Op::Window { w, .. } => if *w == 1 { "expired".into() } else { "not-yet-valid".into() },
            Op::ManyBad { .. } => "many-bad-rrsigs".into(),
            Op::Key { how, .. } => format!("dnskey-{how}"),
            Op::Ds { how, .. } => format!("ds-{how}"),
            Op::SwapDenial { .. } => "swap-denial".into(),
            Op::N3Owner { variant, resign, .. } => format!("nsec3-owner-{variant}{}", if *resign { "-resigned" } else { "" }),
            Op::N3Param { variant, .. } => format!("nsec3-param-{variant}-resigned"),
            Op::Counts { .. } => "header-counts".into(),
            Op::Rcode { .. } => "rcode".into(),
            Op::Cut { .. } => "truncate".into(),
            Op::UpErr => "upstream-error".into(),
            Op::Empty => "empty-response".into(),
            Op::ReplaceBy { .. } => "replace-by-authentic-response-to-other-question".into(),
            Op::InjectInsecure { .. } => "inject-insecure-rrset".into(),
            Op::Forge => "forged-key-same-tag".into(),
            Op::OutOfBailiwick => "signer-not-ancestor".into(),
            Op::DsSignedByChild => "ds-signed-by-child".into(),
            Op::CnameToNodata => "cname-answer-replaced-by-nodata-with-own-nsec".into(),
            Op::BadKey { alg, only, .. } => format!("malformed-{}-public-key-selected-by-rrsig-{}", if *alg <= 10 { "rsa" } else { "fixed-length" }, if *only { "instead-of-the-good-one" } else { "beside-the-good-one" }),
        }
    }
    /// Faults that need the zone's real private key (hostile zone owner):
    /// the data they produce is "authentic" by definition, so only the
    /// no-panic / termination part of the property is judged.
    fn owner_adversary(&self) -> bool {
        matches!(self, Op::N3Owner { resign: true, .. } | Op::N3Param { .. } | Op::DsSignedByChild | Op::BadKey { .. })
    }
}

#[derive(Clone, Debug, Serialize, Deserialize, PartialEq, Eq, Hash)]
struct Fault {
    target: Target,
    op: Op,
}

// ------------------------------------------------------------ execution

fn block_on<F: Future>(f: F) -> F::Output {
    let waker = futures_util::task::noop_waker();
    let mut cx = Context::from_waker(&waker);
    let mut f = std::pin::pin!(f);
    loop {
        if let Poll::Ready(v) = f.as_mut().poll(&mut cx) {
            return v;
        }
        std::thread::yield_now();
    }
}

#[derive(Debug)]
struct Ready(Option<Result<Message<Bytes>, ReqError>>);

impl GetResponse for Ready {
    fn get_response(&mut self) -> Pin<Box<dyn Future<Output = Result<Message<Bytes>, ReqError>> + Send + Sync + '_>> {
        let r = self.0.take().unwrap_or(Err(ReqError::ConnectionClosed));
        Box::pin(std::future::ready(r))
    }
}

#[derive(Default)]
struct UpState {
    calls: AtomicUsize,
    over_budget: AtomicBool,
    asked: Mutex<Vec<(Labels, u16)>>,
    /// number of delivered messages that differ from the authentic ones
    altered: AtomicUsize,
}

#[derive(Clone)]
struct Upstream {
    h: Arc<Hier>,
    faults: Arc<Vec<Fault>>,
    st: Arc<UpState>,
    /// the wrapper used as the transport of net::client::validator::Connection: answers the main query
    main: bool,
    /// AD bit of the main answer as the (lying or validating) upstream sends it
    main_ad: bool,
    /// the main answer carries an OPT record (EDNS, DO set), as a real upstream's answer to a DO query does
    main_opt: bool,
}

impl Upstream {
    fn respond(&self, qname: &Labels, qtype: u16) -> Result<Message<Bytes>, ReqError> {
        let mut resp = self.h.answer(qname, qtype);
        let clean = resp.encode();
        let tgt = if self.main { Target::Main } else { Target::Up(show(qname), qtype) };
        for f in self.faults.iter() {
            if f.target == tgt {
                apply_op(&self.h, &f.op, &mut resp, self.main);
            }
        }
        if resp.up_err {
            self.st.altered.fetch_add(1, AO::Relaxed);
            return Err(ReqError::ConnectionClosed);
        }
        if self.main && self.main_opt {
            resp.push(2, Rr { owner: vec![], rtype: 41, class: 1232, ttl: 0x0000_8000, rdata: vec![] }, (0, vec![], 41));
        }
        let mut bytes = resp.encode();
        if self.main && self.main_ad && bytes.len() > 3 {
            bytes[3] |= 0x20;
        }
        if bytes != clean {
            self.st.altered.fetch_add(1, AO::Relaxed);
        }
        Message::from_octets(Bytes::from(bytes)).map_err(|_| ReqError::ShortMessage)
    }
}

impl SendRequest<RequestMessage<Vec<u8>>> for Upstream {
    fn send_request(&self, req: RequestMessage<Vec<u8>>) -> Box<dyn GetResponse + Send + Sync> {
        let n = self.st.calls.fetch_add(1, AO::SeqCst) + 1;
        if n > BUDGET {
            self.st.over_budget.store(true, AO::SeqCst);
            return Box::new(Ready(Some(Err(ReqError::ConnectionClosed))));
        }
        let q = req.to_vec().ok().and_then(|v| mc::wire::read_message(&v).ok()).and_then(|m| m.questions.first().cloned());
        let Some(q) = q else {
            return Box::new(Ready(Some(Err(ReqError::FormError))));
        };
        if !self.main {
            self.st.asked.lock().unwrap().push((q.qname.clone(), q.qtype));
        }
        Box::new(Ready(Some(self.respond(&q.qname, q.qtype))))
    }
}

#[derive(Clone, Debug, PartialEq, Eq)]
enum Verdict {
    State(String),
    Err(String),
    Panic(String),
    /// the (faulted) main answer is shorter than a DNS header: nothing to hand to validate_msg
    NoMessage,
}

impl Verdict {
    fn short(&self) -> String {
        match self {
            Verdict::State(s) => s.clone(),
            Verdict::Err(_) => "Err".into(),
            Verdict::Panic(_) => "Panic".into(),
            Verdict::NoMessage => "NoMessage".into(),
        }
    }
    fn secure(&self) -> bool {
        matches!(self, Verdict::State(s) if s == "Secure")
    }
}

struct Exec {
    verdict: Verdict,
    ede: String,
    /// the message after validation (validate_msg may rewrite it)
    out: Vec<u8>,
    /// the message handed in
    input: Vec<u8>,
    calls: usize,
    over_budget: bool,
    asked: Vec<(Labels, u16)>,
    altered: usize,
}

#[derive(Clone, Debug)]
struct Query {
    name: Labels,
    qtype: u16,
}

fn state_name(s: ValidationState) -> &'static str {
    match s {
        ValidationState::Secure => "Secure",
        ValidationState::Insecure => "Insecure",
        ValidationState::Bogus => "Bogus",
        ValidationState::Indeterminate => "Indeterminate",
    }
}

/// One execution through `ValidationContext::validate_msg`.
/// Moves the validator's clocks of this thread (hook `verif_clock`) so that its wall clock reads the
/// hierarchy's `clock` value; put back when the execution ends, however it ends.
struct ClockGuard;
impl ClockGuard {
    fn set(h: &Hier) -> ClockGuard {
        let off = match h.clock {
            Some(t) => {
                let real = std::time::SystemTime::now().duration_since(std::time::UNIX_EPOCH).unwrap().as_secs() as u32;
                t.wrapping_sub(real) as u64
            }
            None => 0,
        };
        verif_clock::set_offset_secs(off);
        ClockGuard
    }
}
impl Drop for ClockGuard {
    fn drop(&mut self) {
        verif_clock::set_offset_secs(0);
    }
}

fn run_direct(h: &Arc<Hier>, q: &Query, faults: &Arc<Vec<Fault>>) -> Exec {
    let _clock = ClockGuard::set(h);
    let st = Arc::new(UpState::default());
    let up = Upstream { h: h.clone(), faults: faults.clone(), st: st.clone(), main: false, main_ad: false, main_opt: false };
    let mainup = Upstream { h: h.clone(), faults: faults.clone(), st: st.clone(), main: true, main_ad: false, main_opt: false };
    let mut ex = Exec { verdict: Verdict::NoMessage, ede: String::new(), out: vec![], input: vec![], calls: 0, over_budget: false, asked: vec![], altered: 0 };
    let main = mainup.respond(&q.name, q.qtype);
    let main = match main {
        Ok(m) => m,
        Err(_) => {
            ex.altered = st.altered.load(AO::Relaxed);
            return ex;
        }
    };
    ex.input = main.as_slice().to_vec();
    let mut msg = Message::from_octets(ex.input.clone()).expect("checked length");
    let ta = TrustAnchors::from_u8(h.ta_text.as_bytes()).expect("trust anchor");
    let r = guard(|| {
        let vc = ValidationContext::new(ta, up);
        block_on(async { vc.validate_msg::<Vec<u8>, Vec<u8>>(&mut msg).await })
    });
    ex.verdict = match r {
        Ok(Ok((s, ede))) => {
            ex.ede = ede.map(|e| format!("{e:?}")).unwrap_or_default();
            Verdict::State(state_name(s).into())
        }
        Ok(Err(e)) => Verdict::Err(format!("{e}")),
        Err(p) => Verdict::Panic(p),
    };
    ex.out = msg.as_slice().to_vec();
    ex.calls = st.calls.load(AO::SeqCst);
    ex.over_budget = st.over_budget.load(AO::SeqCst);
    ex.asked = st.asked.lock().unwrap().clone();
    ex.altered = st.altered.load(AO::Relaxed);
    ex
}

/// One execution through `net::client::validator::Connection` (AD bit /
/// SERVFAIL are the observations).
fn run_conn(h: &Arc<Hier>, q: &Query, faults: &Arc<Vec<Fault>>) -> Exec {
    let _clock = ClockGuard::set(h);
    let st = Arc::new(UpState::default());
    let up = Upstream { h: h.clone(), faults: faults.clone(), st: st.clone(), main: false, main_ad: false, main_opt: false };
    let mainup = Upstream { h: h.clone(), faults: faults.clone(), st: st.clone(), main: true, main_ad: false, main_opt: false };
    let mut ex = Exec { verdict: Verdict::NoMessage, ede: String::new(), out: vec![], input: vec![], calls: 0, over_budget: false, asked: vec![], altered: 0 };
    let mut qr = Resp::new(&q.name, q.qtype);
    qr.rcode = 0;
    let mut qb = qr.encode();
    qb[2] = 0x01; // RD only, QR clear
    qb[3] = 0x00;
    let ta = TrustAnchors::from_u8(h.ta_text.as_bytes()).expect("trust anchor");
    let r = guard(|| {
        let vc = Arc::new(ValidationContext::new(ta, up));
        let conn = cval::Connection::<Upstream, Vec<u8>, Upstream>::new(mainup, vc);
        let mut req = RequestMessage::new(Message::from_octets(qb).expect("query")).expect("request");
        req.set_dnssec_ok(true);
        let mut g = conn.send_request(req);
        block_on(async { g.get_response().await })
    });
    ex.verdict = match r {
        Ok(Ok(m)) => {
            ex.out = m.as_slice().to_vec();
            let ad = m.header().ad();
            let rc = m.header().rcode().to_int();
            if ad {
                Verdict::State("Secure".into())
            } else if rc == 2 {
                Verdict::State("Bogus".into())
            } else {
                Verdict::State("Insecure".into())
            }
        }
        Ok(Err(e)) => Verdict::Err(format!("{e}")),
        Err(p) => Verdict::Panic(p),
    };
    ex.calls = st.calls.load(AO::SeqCst);
    ex.over_budget = st.over_budget.load(AO::SeqCst);
    ex.asked = st.asked.lock().unwrap().clone();
    ex.altered = st.altered.load(AO::Relaxed);
    ex
}

/// One ValidationContext used twice for the same answer, whose RRSIG (made by the real signer) expires
/// between the two validations.  Returns the two verdicts, or None if the first validation came too late.
fn run_across_expiry(h: &Arc<Hier>) -> Option<(Verdict, Verdict, u32)> {
    let q = Query { name: nm("www.zone.tld."), qtype: T_A };
    let z = &h.zones[2];
    let k = z.key.clone()?;
    let mut resp = h.answer(&q.name, q.qtype);
    let unix = || std::time::SystemTime::now().duration_since(std::time::UNIX_EPOCH).unwrap().as_secs() as u32;
    let exp = unix() + 6;
    let rds: Vec<Vec<u8>> = resp.sec[0].iter().filter(|e| e.rr.rtype == T_A).map(|e| e.rr.rdata.clone()).collect();
    let sig = sign_set(&k, &q.name, T_A, 3600, &rds, exp - 86400, exp);
    for e in resp.sec[0].iter_mut() {
        if e.rr.rtype == T_RRSIG {
            e.rr.rdata = sig.clone();
        }
    }
    let bytes = resp.encode();
    let st = Arc::new(UpState::default());
    let up = Upstream { h: h.clone(), faults: Arc::new(vec![]), st, main: false, main_ad: false, main_opt: false };
    let ta = TrustAnchors::from_u8(h.ta_text.as_bytes()).expect("trust anchor");
    let vc = ValidationContext::new(ta, up);
    let once = |vc: &ValidationContext<Upstream>| {
        let mut msg = Message::from_octets(bytes.clone()).expect("message");
        match guard(|| block_on(async { vc.validate_msg::<Vec<u8>, Vec<u8>>(&mut msg).await })) {
            Ok(Ok((s, _))) => Verdict::State(state_name(s).into()),
            Ok(Err(e)) => Verdict::Err(format!("{e}")),
            Err(p) => Verdict::Panic(p),
        }
    };
    let first = once(&vc);
    if unix() > exp {
        return None;
    }
    while unix() <= exp + 1 {
        std::thread::sleep(Duration::from_millis(200));
    }
    let second = once(&vc);
    Some((first, second, exp))
}

/// Validate `bytes` with `vc`; verdict and the message after validation.
fn validate_bytes(vc: &ValidationContext<Upstream>, bytes: &[u8]) -> (Verdict, Vec<u8>) {
    let mut msg = Message::from_octets(bytes.to_vec()).expect("message");
    let v = match guard(|| block_on(async { vc.validate_msg::<Vec<u8>, Vec<u8>>(&mut msg).await })) {
        Ok(Ok((s, _))) => Verdict::State(state_name(s).into()),
        Ok(Err(e)) => Verdict::Err(format!("{e}")),
        Err(p) => Verdict::Panic(p),
    };
    (v, msg.as_slice().to_vec())
}

fn fresh_context(h: &Arc<Hier>) -> ValidationContext<Upstream> {
    let up = Upstream { h: h.clone(), faults: Arc::new(vec![]), st: Arc::new(UpState::default()), main: false, main_ad: false, main_opt: false };
    ValidationContext::new(TrustAnchors::from_u8(h.ta_text.as_bytes()).expect("trust anchor"), up)
}

/// Signature cache across owners (needs the hierarchy with the sibling zone evil.tld.): the secure sibling
/// zone evil.tld. signs `*.tld. A 6.6.6.6` (RRSIG labels 1, signer evil.tld.).  Presented as x.evil.tld. the
/// signature itself verifies (the answer as a whole is not secure: no proof for the expansion); presented as
/// www.tld. -- a name of ANOTHER zone -- together with evil.tld.'s own NSEC it must never be secure.
/// Returns (verdict without priming, verdict of the priming message, verdict after priming in the same context).
fn run_sig_cache_sibling(h: &Arc<Hier>) -> Option<(Verdict, Verdict, Verdict)> {
    let zi = h.zones.iter().position(|z| z.apex == nm("evil.tld."))?;
    let k = h.zones[zi].key.clone()?;
    let (inc, exp) = windows(h.now)[0];
    let forged = vec![6u8, 6, 6, 6];
    let sig = sign_set(&k, &nm("*.tld."), T_A, 3600, &[forged.clone()], inc, exp);
    let mut nsec_rd = wire(&nm("zzzz.tld."));
    nsec_rd.extend_from_slice(&[0, 7, 0x22, 0, 0, 0, 0, 0x03, 0x80]); // NS SOA RRSIG NSEC DNSKEY
    let nsec_sig = sign_set(&k, &nm("evil.tld."), T_NSEC, 3600, &[nsec_rd.clone()], inc, exp);
    let src = (zi, key(&nm("*.tld.")), T_A);
    let msg_for = |owner: &str, with_nsec: bool| {
        let o = nm(owner);
        let mut r = Resp::new(&o, T_A);
        r.push(0, Rr { owner: o.clone(), rtype: T_A, class: 1, ttl: 3600, rdata: forged.clone() }, src.clone());
        r.push(0, Rr { owner: o.clone(), rtype: T_RRSIG, class: 1, ttl: 3600, rdata: sig.clone() }, src.clone());
        if with_nsec {
            let e = nm("evil.tld.");
            r.push(1, Rr { owner: e.clone(), rtype: T_NSEC, class: 1, ttl: 3600, rdata: nsec_rd.clone() }, src.clone());
            r.push(1, Rr { owner: e, rtype: T_RRSIG, class: 1, ttl: 3600, rdata: nsec_sig.clone() }, src.clone());
        }
        r.encode()
    };
    let attack = msg_for("www.tld.", true);
    let unprimed = validate_bytes(&fresh_context(h), &attack).0;
    let vc = fresh_context(h);
    let priming = validate_bytes(&vc, &msg_for("x.evil.tld.", false)).0;
    let primed = validate_bytes(&vc, &attack).0;
    Some((unprimed, priming, primed))
}

/// Two secure delegations a.b.tld. and x.b.tld. below the empty non-terminal b.tld.: one context validates
/// the authentic answers for www.x.b.tld. A and then www.a.b.tld. A.
fn run_shared_ent(h: &Arc<Hier>) -> (Verdict, Verdict) {
    let vc = fresh_context(h);
    let first = validate_bytes(&vc, &h.answer(&nm("www.x.b.tld."), T_A).encode()).0;
    let second = validate_bytes(&vc, &h.answer(&nm("www.a.b.tld."), T_A).encode()).0;
    (first, second)
}

// ------------------------------------------------------------ oracle

struct Parsed {
    rcode: u8,
    qname: Labels,
    qtype: u16,
    /// per section: (owner, type) -> canonical RDATAs, in order of first appearance
    sets: [Vec<((Labels, u16), Vec<Vec<u8>>, u32)>; 2],
}

/// RDATA with embedded compressible names expanded and lowercased.
fn canon_rdata(msg: &[u8], t: u16, pos: usize, rd: &[u8]) -> Option<Vec<u8>> {
    let mut p = vec![];
    match t {
        T_NS | T_CNAME | T_PTR => {
            let (n, _) = read_name(msg, pos, &mut p).ok()?;
            Some(lower_wire(&n))
        }
        T_MX => {
            let (n, _) = read_name(msg, pos + 2, &mut p).ok()?;
            let mut v = rd.get(0..2)?.to_vec();
            v.extend(lower_wire(&n));
            Some(v)
        }
        T_SOA => {
            let (a, p1) = read_name(msg, pos, &mut p).ok()?;
            let (b, p2) = read_name(msg, p1, &mut p).ok()?;
            let mut v = lower_wire(&a);
            v.extend(lower_wire(&b));
            v.extend_from_slice(msg.get(p2..p2 + 20)?);
            Some(v)
        }
        _ => Some(rd.to_vec()),
    }
}

/// Lenient reader: question, answer and authority as the counts say.
fn parse_lenient(msg: &[u8]) -> Option<Parsed> {
    if msg.len() < 12 {
        return None;
    }
    let rcode = msg[3] & 0xF;
    let qd = u16_at(msg, 4).ok()?;
    let an = u16_at(msg, 6).ok()?;
    let ns = u16_at(msg, 8).ok()?;
    let mut pos = 12;
    let mut ptrs = vec![];
    let mut qname = vec![];
    let mut qtype = 0;
    for i in 0..qd {
        let (n, p) = read_name(msg, pos, &mut ptrs).ok()?;
        let t = u16_at(msg, p).ok()?;
        u16_at(msg, p + 2).ok()?;
        pos = p + 4;
        if i == 0 {
            qname = n;
            qtype = t;
        }
    }
    let mut sets: [Vec<((Labels, u16), Vec<Vec<u8>>, u32)>; 2] = Default::default();
    for (s, cnt) in [(0usize, an), (1usize, ns)] {
        for _ in 0..cnt {
            let (owner, p) = read_name(msg, pos, &mut ptrs).ok()?;
            let t = u16_at(msg, p).ok()?;
            let ttl = u32_at(msg, p + 4).ok()?;
            let rdlen = u16_at(msg, p + 8).ok()? as usize;
            let rd = msg.get(p + 10..p + 10 + rdlen)?;
            let crd = canon_rdata(msg, t, p + 10, rd)?;
            pos = p + 10 + rdlen;
            let k = (key(&owner), t);
            match sets[s].iter_mut().find(|x| x.0 == k) {
                Some(e) => {
                    e.1.push(crd);
                    e.2 = e.2.max(ttl);
                }
                None => sets[s].push((k, vec![crd], ttl)),
            }
        }
    }
    Some(Parsed { rcode, qname, qtype, sets })
}

impl Hier {
    /// Is the RRset (owner key, type, RDATAs) authentic data of a SECURE zone of the hierarchy
    /// (exactly, or as the synthesis of the right wildcard)?
    fn authentic(&self, ownerk: &Labels, t: u16, rds: &[Vec<u8>]) -> bool {
        let mut got: Vec<Vec<u8>> = rds.to_vec();
        got.sort();
        got.dedup();
        for z in &self.zones {
            if !z.secure {
                continue;
            }
            if let Some((_, have)) = z.sets.get(&(ownerk.clone(), t)) {
                if t == T_NS && ownerk != &key(&z.apex) {
                    continue; // delegation NS is not authoritative data
                }
                let mut have = have.clone();
                have.sort();
                if have == got {
                    return true;
                }
            }
        }
        let owner = unkey(ownerk);
        if let Truth::Pos { zone, src, wildcard: true, .. } = self.classify(&owner, t) {
            let z = &self.zones[zone];
            if z.secure {
                if let Some((_, have)) = z.sets.get(&(src, t)) {
                    return *have == got;
                }
            }
        }
        false
    }
}

#[derive(Debug)]
struct Finding {
    sig: String,
    what: String,
}

/// Structural cause of an unvalidated RRset: the zone the validator attributes the RRset to (signer name
/// of its first RRSIG, or the owner if it has none) is an insecure zone of the hierarchy, so the RRset
/// gets state Insecure instead of Bogus and is then ignored.
fn lacking_cause(h: &Hier, p: &Parsed, s: usize, ok: &Labels, t: u16, kinds: &str) -> String {
    let sigs = p.sets[s].iter().find(|x| x.0 == (ok.clone(), T_RRSIG)).map(|x| x.1.clone()).unwrap_or_default();
    let first = sigs.iter().find(|rd| rd.len() > 19 && u16::from_be_bytes([rd[0], rd[1]]) == t);
    let attributed = match first {
        Some(rd) => name_in_rdata(rd, 18),
        None => unkey(ok),
    };
    let zi = h.zone_for(&attributed, T_A);
    let z = &h.zones[zi];
    // RFC 5155 6: a name without a matching NSEC3 in an opt-out zone may be an insecure delegation
    let optout_span = matches!(z.denial, Denial::Nsec3 { opt_out: true, .. }) && z.n3_match(&attributed).is_none();
    if !z.secure || optout_span {
        "cause=rrset-attributed-to-insecure-zone-is-ignored".into()
    } else {
        format!("fault={kinds}")
    }
}

/// Is (owner, CNAME, rdatas) exactly the CNAME that RFC 6672 synthesizes from an authentic DNAME of a secure zone?
/// Such a CNAME is not signed; it is authenticated by the DNAME.
fn dname_synthesized(h: &Hier, ownerk: &Labels, t: u16, rds: &[Vec<u8>]) -> bool {
    if t != T_CNAME || rds.len() != 1 {
        return false;
    }
    match h.classify(&unkey(ownerk), T_CNAME) {
        Truth::Dname { zone, target, .. } => h.zones[zone].secure && rds[0] == lower_wire(&target),
        _ => false,
    }
}

/// The Secure => authentic part of the oracle.
fn check_secure(h: &Hier, out: &[u8], kinds: &str) -> Vec<Finding> {
    let mut f = vec![];
    let Some(p) = parse_lenient(out) else {
        f.push(Finding { sig: format!("C14|validator|secure-but-sections-unreadable|fault={kinds}"), what: "Secure reported for a message whose answer/authority sections cannot be read as the header counts say".into() });
        return f;
    };
    // every RRset must be authentic data of a secure zone AND come with a signature that is valid NOW:
    // the only such signatures that exist are the ones the real signer made for the current window
    for s in 0..2 {
        for ((ok, t), rds, _) in &p.sets[s] {
            if *t == T_RRSIG {
                continue;
            }
            let owner = unkey(ok);
            let sec = ["answer", "authority"][s];
            if dname_synthesized(h, ok, *t, rds) {
                // must come with the DNAME it was made from
                let dn = match h.classify(&owner, T_CNAME) {
                    Truth::Dname { owner, .. } => owner,
                    _ => unreachable!(),
                };
                if p.sets[s].iter().any(|x| x.0 == (dn.clone(), T_DNAME)) {
                    continue;
                }
            }
            if !h.authentic(ok, *t, rds) {
                f.push(Finding {
                    sig: format!("C14|validator|secure-with-rrset-lacking-valid-chain|{}|section={sec}", lacking_cause(h, &p, s, ok, *t, kinds)),
                    what: format!("Secure reported although the {sec} section holds RRset {} {} ({} RR) that is not data of a secure zone of the authentic hierarchy", show(&owner), tname(*t), rds.len()),
                });
                continue;
            }
            let mut valid: Vec<&Vec<u8>> = vec![];
            for z in &h.zones {
                if let Some(w) = z.sigs.get(&(ok.clone(), *t)) {
                    valid.extend(w[0].iter());
                }
            }
            if let Truth::Pos { zone, src, wildcard: true, .. } = h.classify(&owner, *t) {
                if let Some(w) = h.zones[zone].sigs.get(&(src, *t)) {
                    valid.extend(w[0].iter());
                }
            }
            let present = p.sets[s].iter().find(|x| x.0 == (ok.clone(), T_RRSIG)).map(|x| x.1.clone()).unwrap_or_default();
            if !present.iter().any(|rd| valid.contains(&rd)) {
                f.push(Finding {
                    sig: format!("C14|validator|secure-with-rrset-lacking-valid-chain|{}|section={sec}", lacking_cause(h, &p, s, ok, *t, kinds)),
                    what: format!(
                        "Secure reported although RRset {} {} in the {sec} section carries none of the currently valid RRSIGs of the authentic zone ({} RRSIG for the type present)",
                        show(&owner),
                        tname(*t),
                        present.iter().filter(|rd| rd.len() > 2 && u16::from_be_bytes([rd[0], rd[1]]) == *t).count()
                    ),
                });
            }
        }
    }
    // the claim
    let mut sname = p.qname.clone();
    for _ in 0..12 {
        if p.qtype == T_CNAME {
            break;
        }
        let k = (key(&sname), T_CNAME);
        match p.sets[0].iter().find(|x| x.0 == k) {
            Some(e) if e.1.len() == 1 => sname = name_in_rdata(&e.1[0], 0),
            _ => {
                // a DNAME in the answer redirects the name also without the (optional) synthesized CNAME
                let sk = key(&sname);
                let dn = p.sets[0].iter().find(|x| x.0 .1 == T_DNAME && x.1.len() == 1 && is_desc(&sk, &x.0 .0));
                match dn {
                    Some(e) => {
                        let mut t: Labels = sname[..sname.len() - e.0 .0.len()].to_vec();
                        t.extend(name_in_rdata(&e.1[0], 0));
                        sname = t;
                    }
                    None => break,
                }
            }
        }
    }
    let has_answer = p.sets[0].iter().any(|x| x.0 == (key(&sname), p.qtype));
    let truth = h.classify(&sname, p.qtype);
    if !h.zones[truth.zone()].secure {
        f.push(Finding { sig: format!("C14|validator|secure-below-insecure-delegation|fault={kinds}"), what: format!("Secure reported for {} {} which lies in a zone without a secure delegation", show(&sname), tname(p.qtype)) });
        return f;
    }
    if p.rcode == 0 && !has_answer {
        if matches!(truth, Truth::Pos { .. } | Truth::Cname { .. } | Truth::Dname { .. }) {
            f.push(Finding {
                sig: format!("C14|validator|secure-false-negative-claim|fault={kinds}|claim=nodata|truth={}", truth.short()),
                what: format!("Secure reported for a NODATA response for {} {} although the authentic zone has {}", show(&sname), tname(p.qtype), truth.short()),
            });
        }
    } else if p.rcode == 3 && !matches!(truth, Truth::NxDomain { .. }) {
        f.push(Finding {
            sig: format!("C14|validator|secure-false-negative-claim|fault={kinds}|claim=nxdomain|truth={}", truth.short()),
            what: format!("Secure reported for an NXDOMAIN response for {} {} although the authentic zone has {}", show(&sname), tname(p.qtype), truth.short()),
        });
    }
    if f.is_empty() {
        if let Some(missing) = check_proof(h, &p, &sname, has_answer) {
            f.push(Finding {
                sig: format!("C14|validator|secure-without-complete-denial-proof|fault={kinds}|denial={}", if h.nsec3 { "nsec3" } else { "nsec" }),
                what: format!("Secure reported although the authority section holds no complete NSEC/NSEC3 proof of: {missing}"),
            });
        }
    }
    f
}

// ---- independent denial-proof checker (RFC 4035 5.4, RFC 4592, RFC 5155 8.3-8.8)

fn bitmap_types(b: &[u8]) -> BTreeSet<u16> {
    let mut out = BTreeSet::new();
    let mut p = 0;
    while p + 2 <= b.len() {
        let w = b[p] as u16;
        let l = b[p + 1] as usize;
        for (i, &oct) in b.get(p + 2..p + 2 + l).unwrap_or(&[]).iter().enumerate() {
            for bit in 0..8 {
                if oct & (0x80 >> bit) != 0 {
                    out.insert(w * 256 + (i as u16) * 8 + bit);
                }
            }
        }
        p += 2 + l;
    }
    out
}

struct NsecRec {
    o: Labels, // keys
    n: Labels,
    types: BTreeSet<u16>,
}

struct Nsec3Rec {
    ho: Vec<u8>,
    hn: Vec<u8>,
    salt: Vec<u8>,
    iters: u16,
    types: BTreeSet<u16>,
}

fn is_desc(x: &Labels, anc: &Labels) -> bool {
    // keys: ancestor is a prefix
    x.len() > anc.len() && x[..anc.len()] == anc[..]
}

fn common(a: &Labels, b: &Labels) -> Labels {
    a.iter().zip(b.iter()).take_while(|(x, y)| x == y).map(|(x, _)| x.clone()).collect()
}

struct Proofs {
    apexk: Labels,
    nsec: Vec<NsecRec>,
    nsec3: Vec<Nsec3Rec>,
}

impl Proofs {
    fn deleg_or_dname(t: &BTreeSet<u16>) -> bool {
        t.contains(&39) || (t.contains(&T_NS) && !t.contains(&T_SOA))
    }
    /// NSEC: x (key) proven not to exist; returns the closest encloser.
    fn nsec_nonexist(&self, x: &Labels) -> Option<Labels> {
        for r in &self.nsec {
            let covers = r.o < *x && (*x < r.n || r.n <= r.o);
            if !covers {
                continue;
            }
            if is_desc(&r.n, x) {
                continue; // x is an empty non-terminal
            }
            if is_desc(x, &r.o) && Self::deleg_or_dname(&r.types) {
                continue;
            }
            let a = common(x, &r.o);
            let b = common(x, &r.n);
            return Some(if a.len() >= b.len() { a } else { b });
        }
        None
    }
    fn nsec_nodata(&self, x: &Labels, t: u16) -> bool {
        for r in &self.nsec {
            if r.o == *x && !r.types.contains(&t) && !r.types.contains(&T_CNAME) {
                return true;
            }
            let covers = r.o < *x && (*x < r.n || r.n <= r.o);
            if covers && is_desc(&r.n, x) {
                return true; // empty non-terminal
            }
        }
        if let Some(ce) = self.nsec_nonexist(x) {
            let mut st = ce.clone();
            st.push(b"*".to_vec());
            for r in &self.nsec {
                if r.o == st && !r.types.contains(&t) && !r.types.contains(&T_CNAME) {
                    return true;
                }
            }
        }
        false
    }
    fn nsec_nxdomain(&self, x: &Labels) -> bool {
        match self.nsec_nonexist(x) {
            Some(ce) => {
                let mut st = ce;
                st.push(b"*".to_vec());
                self.nsec_nonexist(&st).is_some()
            }
            None => false,
        }
    }
    fn h3(&self, xk: &Labels) -> Option<Vec<u8>> {
        let r = self.nsec3.first()?;
        Some(n3hash(&unkey(xk), &r.salt, r.iters))
    }
    fn n3_match(&self, xk: &Labels) -> Option<&Nsec3Rec> {
        let h = self.h3(xk)?;
        self.nsec3.iter().find(|r| r.ho == h)
    }
    fn n3_cover(&self, xk: &Labels) -> bool {
        let Some(h) = self.h3(xk) else { return false };
        self.nsec3.iter().any(|r| if r.ho < r.hn { r.ho < h && h < r.hn } else { h > r.ho || h < r.hn })
    }
    /// closest-encloser proof for x: a (provably existing) ancestor whose next closer name is covered
    fn n3_ce(&self, x: &Labels) -> Option<Labels> {
        let mut ce = x.clone();
        while ce.len() > self.apexk.len() {
            let nc = ce.clone();
            ce.pop();
            let exists = ce == self.apexk || self.n3_match(&ce).map(|r| !Self::deleg_or_dname(&r.types)).unwrap_or(false);
            if exists && self.n3_cover(&nc) {
                return Some(ce);
            }
        }
        None
    }
    fn n3_nodata(&self, x: &Labels, t: u16) -> bool {
        if let Some(r) = self.n3_match(x) {
            if !r.types.contains(&t) && !r.types.contains(&T_CNAME) {
                return true;
            }
        }
        if let Some(ce) = self.n3_ce(x) {
            let mut st = ce;
            st.push(b"*".to_vec());
            if let Some(r) = self.n3_match(&st) {
                return !r.types.contains(&t) && !r.types.contains(&T_CNAME);
            }
        }
        false
    }
    fn n3_nxdomain(&self, x: &Labels) -> bool {
        match self.n3_ce(x) {
            Some(ce) => {
                let mut st = ce;
                st.push(b"*".to_vec());
                self.n3_cover(&st)
            }
            None => false,
        }
    }
    fn nonexist_for_wildcard(&self, x: &Labels, ce: &Labels) -> bool {
        if self.nsec_nonexist(x).is_some() {
            return true;
        }
        let nc: Labels = x[..(ce.len() + 1).min(x.len())].to_vec();
        self.n3_cover(&nc)
    }
}

/// Does the authority section hold a complete proof for what the (Secure) message claims?
/// Only NSEC/NSEC3 RRsets that are authentic data of the zone the claim is about are used.
fn check_proof(h: &Hier, p: &Parsed, sname: &Labels, has_answer: bool) -> Option<String> {
    let mut need: Vec<(usize, String, Box<dyn Fn(&Proofs) -> bool>)> = vec![];
    for ((ok, t), _, _) in &p.sets[0] {
        if *t == T_RRSIG {
            continue;
        }
        let o = unkey(ok);
        match h.classify(&o, *t) {
            Truth::Pos { zone, wildcard: true, ce, .. } => {
                let (x, ce) = (ok.clone(), ce.clone());
                need.push((zone, format!("non-existence of {} for the wildcard expansion", show(&o)), Box::new(move |pr| pr.nonexist_for_wildcard(&x, &ce))));
            }
            _ => {}
        }
    }
    let truth = h.classify(sname, p.qtype);
    let zi = truth.zone();
    let sk = key(sname);
    let qt = p.qtype;
    if p.rcode == 0 && !has_answer {
        let x = sk.clone();
        need.push((zi, format!("NODATA for {} {}", show(sname), tname(qt)), Box::new(move |pr| pr.nsec_nodata(&x, qt) || pr.n3_nodata(&x, qt))));
    } else if p.rcode == 3 {
        let x = sk.clone();
        need.push((zi, format!("NXDOMAIN for {}", show(sname)), Box::new(move |pr| pr.nsec_nxdomain(&x) || pr.n3_nxdomain(&x))));
    }
    for (zi, what, f) in need {
        let z = &h.zones[zi];
        if !z.secure {
            continue;
        }
        let mut pr = Proofs { apexk: key(&z.apex), nsec: vec![], nsec3: vec![] };
        for ((ok, t), rds, _) in &p.sets[1] {
            if !(*t == T_NSEC || *t == T_NSEC3) || rds.len() != 1 {
                continue;
            }
            if z.sets.get(&(ok.clone(), *t)).map(|s| s.1 == *rds) != Some(true) {
                continue;
            }
            let rd = &rds[0];
            if *t == T_NSEC {
                let n = name_in_rdata(rd, 0);
                let off = wire(&n).len();
                pr.nsec.push(NsecRec { o: ok.clone(), n: key(&n), types: bitmap_types(&rd[off..]) });
            } else {
                let sl = rd[4] as usize;
                let hl = rd[5 + sl] as usize;
                let Some(ho) = ok.last().and_then(|l| unb32hex(l)) else { continue };
                pr.nsec3.push(Nsec3Rec {
                    ho,
                    hn: rd[6 + sl..6 + sl + hl].to_vec(),
                    salt: rd[5..5 + sl].to_vec(),
                    iters: u16::from_be_bytes([rd[2], rd[3]]),
                    types: bitmap_types(&rd[6 + sl + hl..]),
                });
            }
        }
        if !f(&pr) {
            return Some(what);
        }
    }
    None
}

/// What an unmodified answer must be reported as.
fn expected_unmodified(h: &Hier, q: &Query) -> Vec<&'static str> {
    let mut name = q.name.clone();
    let mut any_insecure = false;
    for _ in 0..8 {
        let t = h.classify(&name, q.qtype);
        if !h.zones[t.zone()].secure {
            any_insecure = true;
        }
        match t {
            Truth::Cname { target, .. } | Truth::Dname { target, .. } => name = target,
            Truth::NoData { zone, .. } | Truth::NxDomain { zone, .. } if matches!(h.zones[zone].denial, Denial::Nsec3 { opt_out: true, .. }) => {
                // negative answers of an opt-out zone: RFC 5155 9.2 says not AD when the covering
                // NSEC3 has Opt-Out; the property text does not decide
                return vec!["Insecure", "Secure"];
            }
            _ => break,
        }
    }
    if any_insecure {
        vec!["Insecure"]
    } else {
        vec!["Secure"]
    }
}

// ------------------------------------------------------------ faults (application)

/// Offset of the signature field in an RRSIG RDATA.
fn sig_off(rd: &[u8]) -> usize {
    let mut p = 18;
    while p < rd.len() && rd[p] != 0 {
        p += 1 + rd[p] as usize;
    }
    (p + 1).min(rd.len())
}

impl Resp {
    fn find(&self, id: u16) -> Option<(usize, usize)> {
        for s in 0..3 {
            if let Some(i) = self.sec[s].iter().position(|e| e.id == id) {
                return Some((s, i));
            }
        }
        None
    }
    fn get_mut(&mut self, id: u16) -> Option<&mut RrE> {
        let (s, i) = self.find(id)?;
        Some(&mut self.sec[s][i])
    }
    fn remove(&mut self, ids: &[u16]) {
        for s in 0..3 {
            self.sec[s].retain(|e| !ids.contains(&e.id));
        }
    }
    fn insert_at(&mut self, s: usize, i: usize, rr: Rr, src: (usize, Labels, u16)) {
        let id = self.next_id;
        self.next_id += 1;
        let i = i.min(self.sec[s].len());
        self.sec[s].insert(i, RrE { id, rr, src });
    }
}

fn set_first_label(owner: &mut Labels, f: impl FnOnce(&mut Vec<u8>)) {
    if owner.is_empty() {
        owner.push(b"x".to_vec());
    } else {
        f(&mut owner[0]);
        if owner[0].is_empty() {
            owner.remove(0);
        }
    }
}

/// Re-sign, with `k`, every non-RRSIG RRset of section `s` whose source zone is `zi`:
/// the existing RRSIGs of those sets are replaced.
fn resign_section(h: &Hier, r: &mut Resp, s: usize, zi: usize, k: &SKey) {
    let mut groups: Vec<(Labels, u16, u32, Vec<Vec<u8>>, (usize, Labels, u16))> = vec![];
    for e in &r.sec[s] {
        if e.rr.rtype == T_RRSIG || e.src.0 != zi {
            continue;
        }
        match groups.iter_mut().find(|g| g.0 == e.rr.owner && g.1 == e.rr.rtype) {
            Some(g) => g.3.push(e.rr.rdata.clone()),
            None => groups.push((e.rr.owner.clone(), e.rr.rtype, e.rr.ttl, vec![e.rr.rdata.clone()], e.src.clone())),
        }
    }
    let (inc, exp) = windows(h.now)[0];
    for (owner, t, ttl, rds, src) in groups {
        let mut rds = rds;
        rds.sort();
        rds.dedup();
        let sig = sign_set(k, &owner, t, ttl, &rds, inc, exp);
        let mut done = false;
        for e in r.sec[s].iter_mut() {
            if e.rr.rtype == T_RRSIG && e.rr.owner == owner && e.src.2 == t && e.src.0 == zi {
                e.rr.rdata = sig.clone();
                done = true;
            }
        }
        if !done {
            let at = r.sec[s].iter().rposition(|e| e.rr.owner == owner && e.rr.rtype == t).map(|i| i + 1).unwrap_or(r.sec[s].len());
            r.insert_at(s, at, Rr { owner, rtype: T_RRSIG, class: 1, ttl, rdata: sig }, src);
        }
    }
}

fn apply_op(h: &Hier, op: &Op, r: &mut Resp, main: bool) {
    match op {
        Op::DropSet { ids, .. } => r.remove(ids),
        Op::Dup { id } => {
            if let Some((s, i)) = r.find(*id) {
                let e = r.sec[s][i].clone();
                r.insert_at(s, i + 1, e.rr, e.src);
            }
        }
        Op::Ttl { ids, mode } => {
            for id in ids {
                if let Some(e) = r.get_mut(*id) {
                    e.rr.ttl = match mode {
                        0 => e.rr.ttl + 100_000,
                        1 => 0,
                        _ => 0x7fff_ffff,
                    };
                }
            }
        }
        Op::FlipRdata { id, pos } => {
            if let Some(e) = r.get_mut(*id) {
                let n = e.rr.rdata.len();
                if n > 0 {
                    let (i, m) = match pos {
                        0 => (0, 0x01),
                        1 => (n / 2, 0x10),
                        _ => (n - 1, 0x80),
                    };
                    e.rr.rdata[i] ^= m;
                }
            }
        }
        Op::FlipOwner { ids, mask } => {
            for id in ids {
                if let Some(e) = r.get_mut(*id) {
                    set_first_label(&mut e.rr.owner, |l| l[0] ^= *mask);
                }
            }
        }
        Op::DropSig { id } => r.remove(&[*id]),
        Op::ReplaceSig { id, zone, owner, covered, patch } => {
            let donor = h.zones[*zone].sigs.get(&(key(&unshow(owner)), *covered)).map(|w| w[0][0].clone());
            if let (Some(d), Some(e)) = (donor, r.get_mut(*id).filter(|e| e.rr.rtype == T_RRSIG)) {
                let want = e.src.2;
                e.rr.rdata = d;
                if *patch == 1 {
                    e.rr.rdata[0..2].copy_from_slice(&want.to_be_bytes());
                }
            }
        }
        Op::SigField { id, field } => {
            let parent_apex = |zi: usize| h.zones[zi.saturating_sub(1)].apex.clone();
            if let Some(e) = r.get_mut(*id).filter(|e| e.rr.rtype == T_RRSIG && e.rr.rdata.len() > 20) {
                let zi = e.src.0;
                let rd = &mut e.rr.rdata;
                let so = sig_off(rd);
                match field {
                    0 => rd[1] ^= 1,
                    1 => rd[2] ^= 1,
                    2 => rd[3] ^= 1,
                    3 => rd[7] ^= 1,
                    4 => rd[11] ^= 1,
                    5 => rd[15] ^= 1,
                    6 => rd[17] ^= 1,
                    7 => {
                        if rd[18] != 0 {
                            rd[19] ^= 1;
                        } else {
                            rd.splice(18..19, [1, b'x', 0]);
                        }
                    }
                    8 => {
                        if so < rd.len() {
                            rd[so] ^= 1
                        }
                    }
                    9 => {
                        let n = rd.len();
                        rd[n - 1] ^= 1
                    }
                    10 => rd[3] = rd[3].wrapping_sub(1),
                    11 | 12 => {
                        let new = if *field == 11 { parent_apex(zi) } else { h.zones[(zi + 1).min(2)].apex.clone() };
                        let w = wire(&new);
                        rd.splice(18..so, w);
                    }
                    _ => {}
                }
            }
        }
        Op::Window { id, w } => {
            if let Some(e) = r.get_mut(*id).filter(|e| e.rr.rtype == T_RRSIG) {
                if let Some(s) = h.zones[e.src.0].sigs.get(&(e.src.1.clone(), e.src.2)) {
                    e.rr.rdata = s[*w as usize][0].clone();
                }
            }
        }
        Op::ManyBad { id, n } => {
            if let Some((s, i)) = r.find(*id).filter(|(s, i)| r.sec[*s][*i].rr.rtype == T_RRSIG && r.sec[*s][*i].rr.rdata.len() > 20) {
                let e = r.sec[s][i].clone();
                for j in 0..*n {
                    let mut rr = e.rr.clone();
                    let l = rr.rdata.len();
                    rr.rdata[l - 1] ^= (j as u8).wrapping_add(1);
                    rr.rdata[l - 2] ^= ((j >> 8) as u8).wrapping_add(0x40);
                    r.insert_at(s, i, rr, e.src.clone());
                }
            }
        }
        Op::Key { id, how } => {
            if let Some((s, i)) = r.find(*id).filter(|(s, i)| r.sec[*s][*i].rr.rtype == T_DNSKEY && r.sec[*s][*i].rr.rdata.len() > 4) {
                let e = r.sec[s][i].clone();
                let rd = &mut r.sec[s][i].rr.rdata;
                let kl = rd.len() - 4;
                match how {
                    0 => rd.truncate(4),
                    1 => rd.truncate(4 + kl / 2),
                    2 => rd.truncate(4 + kl - 1),
                    3 => {
                        for b in rd[4..].iter_mut() {
                            *b = 0xAA
                        }
                    }
                    4 => rd[0] &= !0x01,
                    5 => rd[3] = 1,
                    6 => rd[3] = 15,
                    7 => rd[2] = 2,
                    8 => rd.truncate(5),
                    _ => {
                        let mut rr = e.rr.clone();
                        rr.rdata = vec![1, 1, 3, 8, 3, 1, 0];
                        r.insert_at(s, i, rr, e.src);
                    }
                }
            }
        }
        Op::Ds { id, how } => {
            if let Some((s, i)) = r.find(*id).filter(|(s, i)| r.sec[*s][*i].rr.rtype == T_DS && r.sec[*s][*i].rr.rdata.len() > 4) {
                let e = r.sec[s][i].clone();
                let rd = &mut r.sec[s][i].rr.rdata;
                match how {
                    0 => {
                        let n = rd.len();
                        rd[n - 1] ^= 1
                    }
                    1 => rd.truncate(4 + 16),
                    2 => rd.truncate(4),
                    3 => rd[3] = 1,
                    4 => rd[3] = 99,
                    5 => rd[2] = 15,
                    6 => rd[1] = rd[1].wrapping_add(1),
                    _ => {
                        let mut rr = e.rr.clone();
                        rr.rdata[2] = 15;
                        r.insert_at(s, i, rr, e.src);
                    }
                }
            }
        }
        Op::SwapDenial { ids, zone, owner } => {
            let Some((s, i)) = ids.iter().filter_map(|id| r.find(*id)).min() else { return };
            r.remove(ids);
            let z = &h.zones[*zone];
            let ok = key(&unshow(owner));
            let t = if z.has(&ok, T_NSEC3) { T_NSEC3 } else { T_NSEC };
            let Some((ttl, rds)) = z.sets.get(&(ok.clone(), t)) else { return };
            let mut at = i;
            let o = unkey(&ok);
            for rd in rds {
                r.insert_at(s, at, Rr { owner: o.clone(), rtype: t, class: 1, ttl: *ttl, rdata: rd.clone() }, (*zone, ok.clone(), t));
                at += 1;
            }
            if let Some(sg) = z.sigs.get(&(ok.clone(), t)) {
                for rd in &sg[0] {
                    r.insert_at(s, at, Rr { owner: o.clone(), rtype: T_RRSIG, class: 1, ttl: *ttl, rdata: rd.clone() }, (*zone, ok.clone(), t));
                    at += 1;
                }
            }
        }
        Op::N3Owner { ids, variant, resign } => {
            let mut zi = None;
            let mut section = 0;
            for id in ids {
                if let Some((s, _)) = r.find(*id) {
                    section = s;
                }
                if let Some(e) = r.get_mut(*id) {
                    zi = Some(e.src.0);
                    set_first_label(&mut e.rr.owner, |l| match variant {
                        0 => l[0] = b'z',
                        1 => {
                            l.pop();
                        }
                        2 => l.push(b'0'),
                        3 => l.truncate(16),
                        4 => l[0] = 0xff,
                        5 => l.truncate(1),
                        _ => l.make_ascii_uppercase(),
                    });
                }
            }
            if let (true, Some(zi)) = (*resign, zi) {
                if let Some(k) = h.zones[zi].key.clone() {
                    resign_subset(h, r, section, ids, &k);
                }
            }
        }
        Op::N3Param { ids, variant } => {
            let mut zi = None;
            let mut section = 0;
            for id in ids {
                if let Some((s, _)) = r.find(*id) {
                    section = s;
                }
                if let Some(e) = r.get_mut(*id) {
                    zi = Some(e.src.0);
                    if e.rr.rtype != T_NSEC3 {
                        continue;
                    }
                    let rd = &mut e.rr.rdata;
                    match variant {
                        0 => rd[2..4].copy_from_slice(&101u16.to_be_bytes()),
                        1 => rd[2..4].copy_from_slice(&501u16.to_be_bytes()),
                        2 => rd[0] = 2,
                        3 => rd[1] |= 1,
                        _ => {
                            let sl = rd[4] as usize;
                            let hl_at = 5 + sl;
                            let hl = rd[hl_at] as usize;
                            if hl > 1 {
                                rd[hl_at] = (hl - 1) as u8;
                                rd.remove(hl_at + hl);
                            }
                        }
                    }
                }
            }
            if let Some(zi) = zi {
                if let Some(k) = h.zones[zi].key.clone() {
                    resign_subset(h, r, section, ids, &k);
                }
            }
        }
        Op::Counts { which, mode } => {
            let real = [1u16, r.sec[0].len() as u16, r.sec[1].len() as u16, r.sec[2].len() as u16][*which as usize];
            r.counts[*which as usize] = Some(match mode {
                0 => real.wrapping_add(1),
                1 => real.wrapping_sub(1),
                2 => 65535,
                3 => 0,
                _ => 2,
            });
        }
        Op::Rcode { to } => r.rcode = *to,
        Op::Cut { mode } => {
            let n = r.encode().len() + r.cut;
            r.cut = match mode {
                0 => 1,
                1 => n / 2,
                _ => n.saturating_sub(11),
            };
        }
        Op::UpErr => r.up_err = true,
        Op::Empty => {
            for s in 0..3 {
                r.sec[s].clear();
            }
        }
        Op::ReplaceBy { qname, qtype } => {
            let mut d = h.answer(&unshow(qname), *qtype);
            // fresh ids: positions of the replaced message no longer exist
            for s in 0..3 {
                for e in d.sec[s].iter_mut() {
                    e.id += 1000;
                }
            }
            r.rcode = d.rcode;
            r.sec = d.sec;
            r.next_id = d.next_id + 1000;
        }
        Op::InjectInsecure { s } => {
            let owner = nm("inj.zone.tld.");
            r.push(*s as usize, Rr { owner: owner.clone(), rtype: T_A, class: 1, ttl: 3600, rdata: vec![192, 0, 2, 66] }, (2, key(&owner), T_A));
        }
        Op::Forge => {
            let Some((fk, frd)) = &h.forged else { return };
            if main {
                for e in r.sec[0].iter_mut() {
                    if e.rr.rtype != T_RRSIG && e.src.0 == 2 {
                        let n = e.rr.rdata.len();
                        e.rr.rdata[n - 1] ^= 0x40;
                    }
                }
                resign_section(h, r, 0, 2, fk);
                resign_section(h, r, 1, 2, fk);
            } else if r.qtype == T_DNSKEY {
                for e in r.sec[0].iter_mut() {
                    if e.rr.rtype == T_DNSKEY {
                        e.rr.rdata = frd.clone();
                    }
                }
                resign_section(h, r, 0, 2, fk);
            }
        }
        Op::CnameToNodata => {
            if let Truth::Cname { zone, src, wildcard: false, .. } = h.classify(&r.qname, r.qtype) {
                let z = &h.zones[zone];
                if z.secure {
                    let mut d = Resp::new(&r.qname, r.qtype);
                    d.next_id = 2000;
                    let ao = z.apex.clone();
                    d.push_set(h, 1, zone, &key(&ao), &ao, T_SOA);
                    match &z.denial {
                        Denial::Nsec => d.push_denial(h, zone, &src),
                        Denial::Nsec3 { .. } => {
                            if let Some(o) = z.n3_match(&unkey(&src)) {
                                d.push_denial(h, zone, &o);
                            }
                        }
                        Denial::None => {}
                    }
                    r.rcode = 0;
                    r.sec = d.sec;
                    r.next_id = d.next_id;
                }
            }
        }
        Op::ApplyDname { .. } | Op::SynthTarget { .. } | Op::ChainCut { .. } | Op::DropLink { .. } => {
            if !main {
                return;
            }
            if let Some(mut d) = compose_redirect(h, op, &r.qname, r.qtype) {
                // fresh ids: positions of the replaced message no longer exist
                for s in 0..3 {
                    for e in d.sec[s].iter_mut() {
                        e.id += 3000;
                    }
                }
                r.rcode = d.rcode;
                r.sec = d.sec;
                r.next_id = d.next_id + 3000;
            }
        }
        Op::BadKey { zone, alg, shape, only } => {
            let Some(krd) = bad_key_rdata(*alg, *shape) else { return };
            let tag = key_tag(&krd);
            let apexk = key(&h.zones[*zone].apex);
            let select = |rd: &[u8]| {
                let mut v = rd.to_vec();
                v[2] = *alg;
                v[16..18].copy_from_slice(&tag.to_be_bytes());
                v
            };
            if main {
                for s in 0..2 {
                    let mut i = 0;
                    while i < r.sec[s].len() {
                        let e = r.sec[s][i].clone();
                        if e.rr.rtype == T_RRSIG && e.src.0 == *zone && e.rr.rdata.len() > 20 {
                            let mut rr = e.rr.clone();
                            rr.rdata = select(&e.rr.rdata);
                            if *only {
                                r.sec[s][i].rr = rr;
                            } else {
                                r.insert_at(s, i, rr, e.src);
                                i += 1;
                            }
                        }
                        i += 1;
                    }
                }
            } else if r.qtype == T_DNSKEY && key(&r.qname) == apexk {
                let Some(k) = h.zones[*zone].key.clone() else { return };
                let Some(i) = r.sec[0].iter().position(|e| e.rr.rtype == T_DNSKEY && e.src.0 == *zone) else { return };
                let e = r.sec[0][i].clone();
                let mut rr = e.rr.clone();
                rr.rdata = krd.clone();
                r.insert_at(0, i, rr, e.src);
                resign_section(h, r, 0, *zone, &k);
                if let Some(j) = r.sec[0].iter().position(|e| e.rr.rtype == T_RRSIG && e.src.0 == *zone && e.src.2 == T_DNSKEY && e.rr.rdata.len() > 20) {
                    let g = r.sec[0][j].clone();
                    let mut rr = g.rr.clone();
                    rr.rdata = select(&g.rr.rdata);
                    if *only {
                        r.sec[0].retain(|e| !(e.rr.rtype == T_RRSIG && e.src.0 == *zone && e.src.2 == T_DNSKEY));
                    }
                    r.insert_at(0, j, rr, g.src);
                }
            } else if r.qtype == T_DS && key(&r.qname) == apexk {
                let Some(i) = r.sec[0].iter().position(|e| e.rr.rtype == T_DS) else { return };
                let e = r.sec[0][i].clone();
                let pz = e.src.0;
                let Some(k) = h.zones[pz].key.clone() else { return };
                if *only {
                    r.sec[0].retain(|x| x.rr.rtype != T_DS);
                }
                let mut rr = e.rr.clone();
                rr.rdata = ds_rdata(&h.zones[*zone].apex, &krd);
                r.insert_at(0, i, rr, e.src);
                resign_section(h, r, 0, pz, &k);
            }
        }
        Op::OutOfBailiwick | Op::DsSignedByChild => {
            let Some(k) = h.zones[2].key.clone() else { return };
            for e in r.sec[0].iter_mut() {
                if e.rr.rtype != T_RRSIG && e.src.0 == 1 {
                    let n = e.rr.rdata.len();
                    e.rr.rdata[n - 1] ^= 0x40;
                }
            }
            resign_section(h, r, 0, 1, &k);
        }
    }
}

impl Resp {
    /// Append the records of `other` that are not there yet (same section); the rcode becomes `other`'s.
    fn append(&mut self, other: &Resp) {
        for s in 0..3 {
            for e in &other.sec[s] {
                if self.sec[s].iter().any(|x| x.rr == e.rr) {
                    continue;
                }
                self.push(s, e.rr.clone(), e.src.clone());
            }
        }
        self.rcode = other.rcode;
    }
}

/// The message of a redirect-dimension fault for the question (qname, qtype), composed from the authentic
/// data of the hierarchy; None if the fault has no position in this question's chain.
fn compose_redirect(h: &Hier, op: &Op, qname: &Labels, qtype: u16) -> Option<Resp> {
    let ch = h.chain(qname, qtype);
    let unsigned_cname = |r: &mut Resp, zi: usize, owner: &Labels, ttl: u32, target: &Labels| {
        r.push(0, Rr { owner: owner.clone(), rtype: T_CNAME, class: 1, ttl, rdata: wire(target) }, (zi, key(owner), T_CNAME));
    };
    match op {
        Op::ApplyDname { keep, zone, owner, synth, .. } => {
            let (n, _) = ch.get(*keep)?;
            let ok = key(&unshow(owner));
            let (ttl, rds) = h.zones.get(*zone)?.sets.get(&(ok.clone(), T_DNAME))?;
            let o = unkey(&ok);
            let mut mapped: Labels = if n.len() > o.len() { n[..n.len() - o.len()].to_vec() } else { vec![] };
            mapped.extend(name_in_rdata(&rds[0], 0));
            let mut r = h.answer_n(qname, qtype, *keep);
            r.push_set(h, 0, *zone, &ok, &o, T_DNAME);
            if *synth {
                unsigned_cname(&mut r, *zone, n, *ttl, &mapped);
            }
            r.append(&h.answer(&mapped, qtype));
            Some(r)
        }
        Op::SynthTarget { link, variant, cont } => {
            let (n, t) = ch.get(*link)?;
            let Truth::Dname { zone, owner, target } = t else { return None };
            let z = &h.zones[*zone];
            let (ttl, rds) = z.sets.get(&(owner.clone(), T_DNAME))?;
            let o = unkey(owner);
            let prefix: Labels = n[..n.len() - o.len()].to_vec();
            let wrong: Labels = match variant {
                0 => name_in_rdata(&rds[0], 0),
                1 => prefix.iter().cloned().chain(z.apex.iter().cloned()).collect(),
                2 => nm("www.zone.tld."),
                _ => std::iter::once(b"x".to_vec()).chain(target.iter().cloned()).collect(),
            };
            if key(&wrong) == key(target) {
                return None;
            }
            let mut r = h.answer_n(qname, qtype, *link);
            r.push_set(h, 0, *zone, owner, &o, T_DNAME);
            unsigned_cname(&mut r, *zone, n, *ttl, &wrong);
            r.append(&h.answer(if *cont { &wrong } else { target }, qtype));
            Some(r)
        }
        Op::ChainCut { keep, name, rtype, .. } => {
            if *keep >= ch.len() {
                return None;
            }
            let x = unshow(name);
            let xk = key(&x);
            let t = h.classify(&x, *rtype);
            let zi = t.zone();
            let z = &h.zones[zi];
            let claim = match &t {
                Truth::NoData { .. } | Truth::NxDomain { .. } => t.clone(),
                Truth::Pos { wildcard: false, .. } | Truth::Cname { wildcard: false, .. } => Truth::NoData { zone: zi, kind: 0, ce: xk.clone() },
                Truth::Pos { ce, .. } | Truth::Cname { ce, .. } => Truth::NxDomain { zone: zi, ce: ce.clone() },
                Truth::Dname { owner, .. } => Truth::NxDomain { zone: zi, ce: owner.clone() },
            };
            if z.secure && matches!(z.denial, Denial::Nsec) && matches!(claim, Truth::NoData { kind: 0, .. }) && !z.has(&xk, T_NSEC) {
                return None;
            }
            let mut d = Resp::new(&x, *rtype);
            h.push_negative(&mut d, &x, &claim);
            let mut r = h.answer_n(qname, qtype, *keep);
            d.sec[0].clear();
            r.append(&d);
            Some(r)
        }
        Op::DropLink { link, what } => {
            let (n, t) = ch.get(*link)?;
            let mut r = h.answer(qname, qtype);
            let nk = key(n);
            let drop_cname = |r: &mut Resp| r.sec[0].retain(|e| !(key(&e.rr.owner) == nk && (e.rr.rtype == T_CNAME || (e.rr.rtype == T_RRSIG && e.src.2 == T_CNAME))));
            match t {
                Truth::Cname { .. } if *what == 0 => drop_cname(&mut r),
                Truth::Dname { owner, .. } => {
                    if *what != 1 {
                        drop_cname(&mut r);
                    }
                    if *what != 0 {
                        r.sec[0].retain(|e| !(e.src.1 == *owner && e.src.2 == T_DNAME));
                    }
                }
                _ => return None,
            }
            Some(r)
        }
        _ => None,
    }
}

/// The redirect-dimension faults for one question: every fault kind at every link of the authentic chain,
/// with every DNAME of the hierarchy / every name of the chain as material; faults that compose the same
/// octets (or the authentic answer itself) are listed once.
fn redirect_ops(h: &Hier, q: &Query) -> Vec<Op> {
    let ch = h.chain(&q.name, q.qtype);
    let mut seen: BTreeSet<Vec<u8>> = BTreeSet::new();
    seen.insert(h.answer(&q.name, q.qtype).encode());
    let mut out = vec![];
    let mut offer = |op: Op| {
        if let Some(r) = compose_redirect(h, &op, &q.name, q.qtype) {
            if seen.insert(r.encode()) {
                out.push(op);
            }
        }
    };
    let mut dnames: Vec<(usize, Labels)> = vec![];
    for (zi, z) in h.zones.iter().enumerate() {
        for (k, t) in z.sets.keys() {
            if *t == T_DNAME {
                dnames.push((zi, k.clone()));
            }
        }
    }
    for (keep, (n, _)) in ch.iter().enumerate() {
        let nk = key(n);
        for (zi, k) in &dnames {
            let rel = if nk == *k {
                0
            } else if is_desc(k, &nk) {
                1
            } else if is_desc(&nk, k) {
                continue; // the DNAME does apply
            } else {
                2
            };
            for synth in [false, true] {
                offer(Op::ApplyDname { keep, zone: *zi, owner: show(&unkey(k)), synth, rel });
            }
        }
    }
    let mut names: Vec<Labels> = vec![];
    for (link, (n, t)) in ch.iter().enumerate() {
        names.push(n.clone());
        if let Truth::Dname { zone, owner, .. } = t {
            names.push(unkey(owner));
            if let Some((_, rds)) = h.zones[*zone].sets.get(&(owner.clone(), T_DNAME)) {
                names.push(name_in_rdata(&rds[0], 0));
            }
            for variant in 0..4 {
                for cont in [true, false] {
                    offer(Op::SynthTarget { link, variant, cont });
                }
            }
        }
        for what in 0..3 {
            offer(Op::DropLink { link, what });
        }
    }
    let mut uniq: Vec<Labels> = vec![];
    for n in names {
        if !uniq.contains(&n) {
            uniq.push(n);
        }
    }
    for keep in 0..ch.len() {
        for x in &uniq {
            for rtype in [q.qtype, T_PTR, T_CNAME] {
                offer(Op::ChainCut { keep, name: show(x), rtype, same: key(x) == key(&ch[keep].0) });
            }
        }
    }
    out
}

/// Re-sign the RRset formed by the non-RRSIG records among `ids` (section s) and store the
/// signature in the RRSIG records among `ids`.
fn resign_subset(h: &Hier, r: &mut Resp, s: usize, ids: &[u16], k: &SKey) {
    let recs: Vec<&RrE> = r.sec[s].iter().filter(|e| ids.contains(&e.id) && e.rr.rtype != T_RRSIG).collect();
    let Some(first) = recs.first() else { return };
    let (owner, t, ttl) = (first.rr.owner.clone(), first.rr.rtype, first.rr.ttl);
    let mut rds: Vec<Vec<u8>> = recs.iter().map(|e| e.rr.rdata.clone()).collect();
    rds.sort();
    rds.dedup();
    let (inc, exp) = windows(h.now)[0];
    let sig = sign_set(k, &owner, t, ttl, &rds, inc, exp);
    for e in r.sec[s].iter_mut() {
        if ids.contains(&e.id) && e.rr.rtype == T_RRSIG {
            e.rr.rdata = sig.clone();
        }
    }
}

// ------------------------------------------------------------ faults (enumeration)

struct SetPos {
    s: usize,
    t: u16,
    zi: usize,
    srck: Labels,
    ids: Vec<u16>,
    sigids: Vec<u16>,
}

fn sets_of(r: &Resp) -> Vec<SetPos> {
    let mut v: Vec<SetPos> = vec![];
    for s in 0..3 {
        for e in &r.sec[s] {
            if e.rr.rtype == T_RRSIG {
                continue;
            }
            match v.iter_mut().find(|p| p.s == s && p.t == e.rr.rtype && p.srck == e.src.1 && p.zi == e.src.0) {
                Some(p) => p.ids.push(e.id),
                None => v.push(SetPos { s, t: e.rr.rtype, zi: e.src.0, srck: e.src.1.clone(), ids: vec![e.id], sigids: vec![] }),
            }
        }
        for e in &r.sec[s] {
            if e.rr.rtype != T_RRSIG {
                continue;
            }
            if let Some(p) = v.iter_mut().find(|p| p.s == s && p.t == e.src.2 && p.srck == e.src.1 && p.zi == e.src.0) {
                p.sigids.push(e.id);
            }
        }
    }
    v
}

/// Every fault of the menu at every position of the response `r`.
/// The bool marks the representatives used for fault PAIRS.
fn enumerate_ops(h: &Hier, r: &Resp, main: bool, swap_only: bool) -> Vec<(Op, bool)> {
    let mut v: Vec<(Op, bool)> = vec![];
    let sets = sets_of(r);
    if !swap_only {
        let real = [1usize, r.sec[0].len(), r.sec[1].len(), r.sec[2].len()];
        for (which, mode) in [(0u8, 3u8), (0, 4), (1, 0), (1, 1), (1, 2), (2, 0), (2, 1), (2, 2), (3, 0), (3, 2)] {
            if mode == 1 && real[which as usize] == 0 {
                continue;
            }
            v.push((Op::Counts { which, mode }, (which, mode) == (1, 0) || (which, mode) == (2, 2)));
        }
        v.push((Op::Rcode { to: if r.rcode == 0 { 3 } else { 0 } }, true));
        v.push((Op::Rcode { to: 2 }, false));
        for mode in 0..3 {
            v.push((Op::Cut { mode }, mode == 0));
        }
        v.push((Op::Empty, true));
        if !main {
            v.push((Op::UpErr, true));
        }
        // authentic responses to other questions
        let mut donors: Vec<(Labels, u16)> = vec![];
        for t in [T_A, T_TXT, T_MX, T_DS, T_DNSKEY, T_SOA, T_NS, T_CNAME] {
            donors.push((r.qname.clone(), t));
        }
        for n in [".", "tld.", "zone.tld.", "www.zone.tld.", "x.w.zone.tld.", "nx.zone.tld.", "b.zone.tld.", "cn.zone.tld.", "www.tld.", "nx.tld.", "mail.zone.tld.", "a.b.zone.tld."] {
            for t in [T_A, T_DS, T_DNSKEY, T_TXT] {
                donors.push((nm(n), t));
            }
        }
        if !r.qname.is_empty() {
            donors.push((parent(&r.qname), r.qtype));
            let mut c = vec![b"sub".to_vec()];
            c.extend(r.qname.iter().cloned());
            donors.push((c, r.qtype));
        }
        donors.sort();
        donors.dedup();
        let mut first = true;
        for (n, t) in donors {
            if n == r.qname && t == r.qtype {
                continue;
            }
            v.push((Op::ReplaceBy { qname: show(&n), qtype: t }, first));
            first = false;
        }
    }
    for p in &sets {
        let z = &h.zones[p.zi];
        let all: Vec<u16> = p.ids.iter().chain(p.sigids.iter()).cloned().collect();
        let denial = p.t == T_NSEC || p.t == T_NSEC3;
        if denial && z.secure {
            let mut first = true;
            for (zi2, z2) in h.zones.iter().enumerate() {
                if !z2.secure {
                    continue;
                }
                let donors: Vec<Labels> = z2.sets.keys().filter(|(_, t)| *t == p.t).map(|(k, _)| k.clone()).collect();
                for (n, d) in donors.iter().enumerate() {
                    if zi2 == p.zi && *d == p.srck {
                        continue;
                    }
                    let _ = n;
                    v.push((Op::SwapDenial { ids: all.clone(), zone: zi2, owner: show(&unkey(d)) }, first));
                    first = false;
                }
            }
        }
        if swap_only {
            continue;
        }
        v.push((Op::DropSet { ids: p.ids.clone(), with_sigs: false }, true));
        if !p.sigids.is_empty() {
            v.push((Op::DropSet { ids: all.clone(), with_sigs: true }, false));
        }
        v.push((Op::Dup { id: p.ids[0] }, true));
        v.push((Op::Ttl { ids: p.ids.clone(), mode: 0 }, false));
        v.push((Op::Ttl { ids: all.clone(), mode: 0 }, true));
        v.push((Op::Ttl { ids: all.clone(), mode: 1 }, true));
        v.push((Op::Ttl { ids: all.clone(), mode: 2 }, false));
        for (n, id) in p.ids.iter().enumerate() {
            for pos in 0..3 {
                v.push((Op::FlipRdata { id: *id, pos }, n == 0 && pos == 2));
            }
        }
        v.push((Op::FlipOwner { ids: p.ids.clone(), mask: 1 }, true));
        v.push((Op::FlipOwner { ids: all.clone(), mask: 1 }, false));
        v.push((Op::FlipOwner { ids: p.ids.clone(), mask: 0x20 }, false));
        v.push((Op::FlipOwner { ids: all.clone(), mask: 0x20 }, false));
        if p.t == T_DNSKEY {
            for id in &p.ids {
                for how in 0..=9 {
                    v.push((Op::Key { id: *id, how }, how == 3));
                }
            }
        }
        if p.t == T_DS {
            for id in &p.ids {
                for how in 0..=7 {
                    v.push((Op::Ds { id: *id, how }, how == 0));
                }
            }
        }
        if p.t == T_NSEC3 && z.secure {
            for variant in 0..=6 {
                v.push((Op::N3Owner { ids: all.clone(), variant, resign: false }, variant == 0));
                v.push((Op::N3Owner { ids: all.clone(), variant, resign: true }, variant == 0));
            }
            for variant in 0..=4 {
                v.push((Op::N3Param { ids: all.clone(), variant }, false));
            }
        }
        if !z.secure {
            continue;
        }
        // donors for RRSIG replacement
        let mut donors: Vec<(usize, Labels, u16)> = vec![];
        if let Some(d) = z.sigs.keys().find(|(k, t)| *k == p.srck && *t != p.t) {
            donors.push((p.zi, d.0.clone(), d.1));
        }
        if let Some(d) = z.sigs.keys().find(|(k, t)| *k != p.srck && *t == p.t) {
            donors.push((p.zi, d.0.clone(), d.1));
        }
        let ak = key(&z.apex);
        if !(p.srck == ak && p.t == T_DNSKEY) {
            donors.push((p.zi, ak.clone(), T_DNSKEY));
        }
        for zi2 in [(p.zi + 1) % 3, (p.zi + 2) % 3] {
            if h.zones[zi2].secure {
                donors.push((zi2, key(&h.zones[zi2].apex), T_SOA));
                break;
            }
        }
        for sid in &p.sigids {
            v.push((Op::DropSig { id: *sid }, true));
            for (n, (dz, dk, dt)) in donors.iter().enumerate() {
                for patch in 0..2 {
                    v.push((Op::ReplaceSig { id: *sid, zone: *dz, owner: show(&unkey(dk)), covered: *dt, patch }, n == 0 && patch == 1));
                }
            }
            for field in 0..=12 {
                v.push((Op::SigField { id: *sid, field }, field == 9 || field == 6));
            }
            v.push((Op::Window { id: *sid, w: 1 }, true));
            v.push((Op::Window { id: *sid, w: 2 }, true));
            v.push((Op::ManyBad { id: *sid, n: 50 }, true));
        }
    }
    v
}

// ------------------------------------------------------------ driver

#[derive(Clone)]
struct Case {
    hi: usize,
    q: Query,
    faults: Arc<Vec<Fault>>,
    /// also run through net::client::validator::Connection
    conn: bool,
}

fn target_class(t: &Target) -> String {
    match t {
        Target::Main => "main".into(),
        Target::Up(_, ty) => format!("up-{}", tname(*ty)),
    }
}

fn kinds_of(faults: &[Fault]) -> String {
    if faults.is_empty() {
        return "none".into();
    }
    let mut k: Vec<String> = faults.iter().map(|f| format!("{}:{}", target_class(&f.target), f.op.kind())).collect();
    k.sort();
    k.dedup();
    k.join("+")
}

fn case_json(h: &Hier, c: &Case, via: &str) -> Value {
    json!({
        "scenario": h.name,
        "qname": show(&c.q.name),
        "qtype": c.q.qtype,
        "via": via,
        "faults": serde_json::to_value(&*c.faults).unwrap(),
    })
}

struct Run {
    ctx: Arc<Ctx>,
    stats: Stats,
    hiers: Vec<Arc<Hier>>,
    verbose: bool,
}

impl Run {
    fn judge(&self, c: &Case, via: &str, ex: &Exec) {
        let h = &self.hiers[c.hi];
        let kinds = kinds_of(&c.faults);
        let replay = || case_json(h, c, via);
        self.stats.eval();
        self.stats.count(&format!("outcome|{via}|{}|{}", kinds_class(&c.faults), ex.verdict.short()));
        if self.verbose {
            println!("  {via}: verdict {:?} ede={} upstream calls {} altered messages {}", ex.verdict, ex.ede, ex.calls, ex.altered);
        }
        if let Ok(t) = std::env::var("C14_TRACE") {
            let (k, v) = t.split_once('=').unwrap_or((&t, ""));
            if via == "validate_msg" && kinds.contains(k) && (v.is_empty() || ex.verdict.short() == v) && ex.altered > 0 {
                println!("TRACE {} {} {} {:?} -> {:?} {}", h.name, show(&c.q.name), tname(c.q.qtype), c.faults, ex.verdict, ex.ede);
            }
        }
        if let Verdict::Panic(p) = &ex.verdict {
            self.ctx.violation(
                &format!("C14|validator|panic|{}", panic_sig(p)),
                &format!("validator panicked ({p}) on scenario {} query {} {} with faults {kinds}", h.name, show(&c.q.name), tname(c.q.qtype)),
                replay(),
            );
            return;
        }
        if ex.verdict.secure() && c.faults.iter().any(|f| f.op == Op::DsSignedByChild) {
            self.stats.count("info|ds-rrset-signed-by-the-child-zone-key-reported-secure");
        }
        // malformed public key selected by a signature: besides "no panic, no loop" (above / raw_findings)
        if !c.faults.is_empty() && c.faults.iter().all(|f| matches!(f.op, Op::BadKey { .. })) {
            let only = c.faults.iter().any(|f| matches!(f.op, Op::BadKey { only: true, .. }));
            let rsa = c.faults.iter().any(|f| matches!(f.op, Op::BadKey { alg, .. } if alg <= 10));
            let route = if c.faults.iter().any(|f| matches!(f.target, Target::Up(_, T_DS))) { "ds-selects-the-key" } else { "answer-rrsig-selects-the-key" };
            let comp = if via == "connection" { "connection" } else { "validator" };
            let class = if rsa { "rsa" } else { "fixed-length" };
            let got = ex.verdict.short();
            self.stats.count(&format!("malformed-public-key|{via}|{route}|{class}|{}|{got}", if only { "only" } else { "beside-good" }));
            if only {
                // no well-formed key is selected by any signature over the data (resp. by any DS): nothing
                // is covered by a valid signature chain
                if ex.altered > 0 && ex.verdict.secure() {
                    self.ctx.violation(
                        &format!("C14|{comp}|malformed-public-key|{route}|key={class}|no-signature-by-a-well-formed-key|reported-Secure"),
                        &format!("only signatures / DS records that select a DNSKEY with a malformed public key cover the data of scenario {} query {} {}, reported Secure [{kinds}]", h.name, show(&c.q.name), tname(c.q.qtype)),
                        replay(),
                    );
                }
            } else {
                // the authentic key, DS and signatures are all still there (one unusable signature is within
                // the validator's default tolerance for bad signatures): the answer is as authentic as before
                let exp = expected_unmodified(h, &c.q);
                if !exp.contains(&got.as_str()) {
                    self.ctx.violation(
                        &format!("C14|{comp}|malformed-public-key|{route}|key={class}|good-key-and-signature-also-present|expected={}|observed={got}", exp[0]),
                        &format!("an additional DNSKEY with a malformed public key, and one signature selecting it, beside the authentic key and signatures: scenario {} query {} {} reported {:?} (ede {}), expected {:?} [{kinds}]", h.name, show(&c.q.name), tname(c.q.qtype), ex.verdict, ex.ede, exp),
                        replay(),
                    );
                }
            }
        }
        let found = self.raw_findings(c, ex);
        if self.verbose {
            println!("  {via}: oracle findings: {}", found.len());
        }
        for f in found {
            // attribute a finding of a multi-fault case to a single fault if that fault alone produces it
            let mut attributed = kinds.clone();
            let mut rc = c.clone();
            if c.faults.len() > 1 {
                for single in c.faults.iter() {
                    let sc = Case { hi: c.hi, q: c.q.clone(), faults: Arc::new(vec![single.clone()]), conn: c.conn };
                    let sex = if via == "connection" { run_conn(h, &sc.q, &sc.faults) } else { run_direct(h, &sc.q, &sc.faults) };
                    if self.raw_findings(&sc, &sex).iter().any(|x| x.sig == f.sig) {
                        attributed = kinds_of(&sc.faults);
                        rc = sc;
                        break;
                    }
                }
            }
            let mut sig = f.sig.replace("{F}", &attributed);
            if via == "connection" {
                sig = sig.replace("C14|validator|", "C14|connection|");
            }
            self.ctx.violation(&sig, &format!("{} [scenario {} query {} {}]", f.what, h.name, show(&c.q.name), tname(c.q.qtype)), case_json(h, &rc, via));
        }
        if c.faults.is_empty() {
            let exp = expected_unmodified(h, &c.q);
            let got = ex.verdict.short();
            if !exp.contains(&got.as_str()) {
                let truth = h.classify(&c.q.name, c.q.qtype);
                let comp = if via == "connection" { "connection" } else { "validator" };
                let what = if exp[0] == "Insecure" { "below-insecure-delegation" } else { "correctly-signed" };
                let detail = if h.decoy {
                    "zone-has-second-dnskey-with-same-algorithm-and-key-tag-listed-first".to_string()
                } else {
                    format!("denial={}|answer={}", if h.nsec3 { if h.opt_out { "nsec3-optout" } else { "nsec3" } } else { "nsec" }, truth.short())
                };
                self.ctx.violation(
                    &format!("C14|{comp}|unmodified-{what}-reported-{got}|{detail}"),
                    &format!("unmodified authentic answer for {} {} in scenario {} reported {:?} (ede {}), expected {:?}", show(&c.q.name), tname(c.q.qtype), h.name, ex.verdict, ex.ede, exp),
                    replay(),
                );
            }
        } else if ex.altered > 0 {
            // information only (outside the property text): a tampered answer for a name of a SECURE zone
            // that is reported Insecure instead of Bogus
            if c.faults.len() == 1 && via == "validate_msg" && ex.verdict.short() == "Insecure" && expected_unmodified(h, &c.q) == vec!["Secure"] {
                self.stats.count(&format!("info|secure-zone-answer-reported-insecure-after|{}", kinds));
            }
            self.stats.distinct(fnv(format!("{}|{}|{}|{:?}", h.name, show(&c.q.name), c.q.qtype, c.faults).as_bytes()));
            // information only: TTL clamping (RFC 4035 5.3.3) is not part of the property text
            if ex.verdict.secure() && c.faults.iter().any(|f| matches!(f.op, Op::Ttl { mode: 0 | 2, .. }) && f.target == Target::Main) {
                if let Some(p) = parse_lenient(&ex.out) {
                    let high = p.sets.iter().flatten().any(|x| x.2 > 100_000);
                    self.stats.count(if high { "info|secure-with-ttl-above-original-left-in-message" } else { "info|secure-ttl-clamped" });
                }
            }
        } else {
            self.stats.count("vacuous|fault-did-not-alter-any-delivered-message");
        }
    }

    /// Oracle findings with the placeholder {F} for the fault kinds.
    fn raw_findings(&self, c: &Case, ex: &Exec) -> Vec<Finding> {
        let h = &self.hiers[c.hi];
        let mut found = vec![];
        if ex.over_budget {
            found.push(Finding {
                sig: "C14|validator|upstream-budget-exceeded|fault={F}".into(),
                what: format!("more than {BUDGET} upstream queries for one validation"),
            });
        }
        if ex.verdict.secure() && !c.faults.iter().any(|f| f.op.owner_adversary()) {
            found.extend(check_secure(h, &ex.out, "{F}"));
        }
        found
    }

    fn run_case(&self, c: &Case, wd: Option<&Watchdog>) {
        let h = &self.hiers[c.hi];
        if let Some(wd) = wd {
            wd.enter(|| case_json(h, c, "validate_msg"));
        }
        let ex = run_direct(h, &c.q, &c.faults);
        self.judge(c, "validate_msg", &ex);
        if c.conn {
            let ex2 = run_conn(h, &c.q, &c.faults);
            self.judge(c, "connection", &ex2);
        }
        if let Some(wd) = wd {
            wd.leave();
        }
    }
}

/// Panic class without the variable part of the message and without toolchain paths.
fn panic_sig(p: &str) -> String {
    let c = panic_class(p);
    let (m, loc) = c.rsplit_once(" @ ").unwrap_or((&c, ""));
    let m = m.split(':').next().unwrap_or(m);
    let loc = if loc.starts_with("/rustc/") { "rust-std" } else { loc };
    format!("{m} @ {loc}")
}

fn kinds_class(faults: &[Fault]) -> String {
    match faults.len() {
        0 => "none".into(),
        1 => faults[0].op.kind(),
        _ => "pair".into(),
    }
}

/// All cases for one (hierarchy, query).
fn cases_for(hiers: &[Arc<Hier>], hi: usize, q: &Query, mode: u8, pairs: u8, counts: &Mutex<BTreeMap<String, u64>>) -> (Vec<Case>, Vec<Fault>) {
    let swap_only = mode == 1;
    let h = &hiers[hi];
    let none = Arc::new(vec![]);
    let base = run_direct(h, q, &none);
    let mut out = vec![Case { hi, q: q.clone(), faults: none, conn: true }];
    let mut targets: Vec<(Target, Resp)> = vec![(Target::Main, h.answer(&q.name, q.qtype))];
    for (n, t) in &base.asked {
        let tg = Target::Up(show(n), *t);
        if !targets.iter().any(|x| x.0 == tg) {
            targets.push((tg, h.answer(n, *t)));
        }
    }
    let mut singles: Vec<(Fault, bool)> = vec![];
    if mode != 2 {
        if let Truth::Cname { zone, wildcard: false, .. } = h.classify(&q.name, q.qtype) {
            if h.zones[zone].secure && mode != 1 {
                singles.push((Fault { target: Target::Main, op: Op::CnameToNodata }, true));
            }
        }
    }
    for (tg, resp) in &targets {
        if mode >= 2 {
            break;
        }
        let main = *tg == Target::Main;
        if swap_only && !main {
            continue;
        }
        for (op, rep) in enumerate_ops(h, resp, main, swap_only) {
            singles.push((Fault { target: tg.clone(), op }, rep));
        }
    }
    // specials
    if mode == 0 {
        let truth = h.classify(&q.name, q.qtype);
        if let Truth::Pos { zone, .. } = truth {
            if h.kind == Kind::InsecureChild && h.zones[zone].secure {
                for s in 0..2 {
                    singles.push((Fault { target: Target::Main, op: Op::InjectInsecure { s } }, s == 0));
                }
            }
            if h.kind == Kind::Secure && zone == 2 && !h.decoy {
                out.push(Case {
                    hi,
                    q: q.clone(),
                    faults: Arc::new(vec![Fault { target: Target::Main, op: Op::Forge }, Fault { target: Target::Up("zone.tld.".into(), T_DNSKEY), op: Op::Forge }]),
                    conn: true,
                });
            }
            if h.kind == Kind::Secure && zone == 1 {
                if ends_with(&q.name, &h.zones[2].apex) {
                    singles.push((Fault { target: Target::Main, op: Op::DsSignedByChild }, false));
                } else {
                    singles.push((Fault { target: Target::Main, op: Op::OutOfBailiwick }, true));
                }
            }
        }
    }
    // the redirect dimension (hierarchies that carry its records)
    let mut n_redirect = 0u64;
    if h.redirect && (mode == 0 || mode == 4) {
        for op in redirect_ops(h, q) {
            singles.push((Fault { target: Target::Main, op }, false));
            n_redirect += 1;
        }
    }
    {
        let mut g = counts.lock().unwrap();
        *g.entry("cases|redirect-dimension".into()).or_insert(0) += n_redirect;
        *g.entry("positions|targets".into()).or_insert(0) += targets.len() as u64;
        *g.entry("positions|rrsets".into()).or_insert(0) += targets.iter().map(|t| sets_of(&t.1).len() as u64).sum::<u64>();
        *g.entry("positions|records".into()).or_insert(0) += targets.iter().map(|t| t.1.sec.iter().map(|s| s.len() as u64).sum::<u64>()).sum::<u64>();
        *g.entry("cases|single".into()).or_insert(0) += singles.len() as u64;
    }
    for (f, _) in &singles {
        out.push(Case { hi, q: q.clone(), faults: Arc::new(vec![f.clone()]), conn: true });
    }
    // menu for fault pairs: 0 none, 1 the representatives (one per kind and position), 2 every single fault
    let menu: Vec<Fault> = match pairs {
        0 => vec![],
        1 => singles.iter().filter(|x| x.1).map(|x| x.0.clone()).collect(),
        _ => singles.iter().filter(|x| x.1 || !(matches!(x.0.op, Op::ReplaceBy { .. }) || x.0.op.is_redirect())).map(|x| x.0.clone()).collect(),
    };
    *counts.lock().unwrap().entry("cases|pair".into()).or_insert(0) += (menu.len() * menu.len().saturating_sub(1) / 2) as u64;
    (out, menu)
}

/// The dimension "malformed public key selected by a signature" for one (hierarchy, query): every zone of the
/// chain that has a key x every algorithm of `algs` x every entry of `bad_key_menu` x {beside, instead of the
/// good signature / DS} x two routes to the key parser:
/// (A) the key sits in the (validly re-signed) DNSKEY RRset and an RRSIG of the validated answer selects it;
/// (B) the parent's (validly re-signed) DS RRset selects it and an RRSIG over the DNSKEY RRset selects it.
/// Only cases in which every fault changes the message it is applied to, and whose upstream targets are asked
/// for in the unfaulted run.
fn bad_key_cases(hiers: &[Arc<Hier>], hi: usize, q: &Query, algs: &[u8], ds_algs: &[u8], counts: &Mutex<BTreeMap<String, u64>>) -> Vec<Case> {
    let h = &hiers[hi];
    let base = run_direct(h, q, &Arc::new(vec![]));
    let mut out = vec![];
    for zone in 0..h.zones.len().min(3) {
        if h.zones[zone].key.is_none() {
            continue;
        }
        let apexk = key(&h.zones[zone].apex);
        let apex = show(&h.zones[zone].apex);
        let asked = |t: u16| base.asked.iter().any(|(n, ty)| *ty == t && key(n) == apexk);
        if !asked(T_DNSKEY) {
            continue;
        }
        let main_alters = |op: &Op| {
            let mut r = h.answer(&q.name, q.qtype);
            let before = r.encode();
            apply_op(h, op, &mut r, true);
            r.encode() != before
        };
        for &alg in algs {
            for shape in 0..bad_key_menu(alg).len() as u8 {
                for only in [false, true] {
                    let op = |only: bool| Op::BadKey { zone, alg, shape, only };
                    if main_alters(&op(only)) {
                        out.push(Case { hi, q: q.clone(), faults: Arc::new(vec![Fault { target: Target::Up(apex.clone(), T_DNSKEY), op: op(false) }, Fault { target: Target::Main, op: op(only) }]), conn: true });
                        *counts.lock().unwrap().entry("cases|malformed-public-key|answer-rrsig-selects-the-key".into()).or_insert(0) += 1;
                    }
                    if zone > 0 && asked(T_DS) && ds_algs.contains(&alg) {
                        out.push(Case { hi, q: q.clone(), faults: Arc::new(vec![Fault { target: Target::Up(apex.clone(), T_DNSKEY), op: op(only) }, Fault { target: Target::Up(apex.clone(), T_DS), op: op(only) }]), conn: true });
                        *counts.lock().unwrap().entry("cases|malformed-public-key|ds-selects-the-key".into()).or_insert(0) += 1;
                    }
                }
            }
        }
    }
    out
}

// ------------------------------------------------------------ histories across zone changes

/// Upstream whose authentic zone data can be exchanged between validations.
#[derive(Clone)]
struct HistUp {
    cur: Arc<Mutex<Arc<Hier>>>,
}

impl SendRequest<RequestMessage<Vec<u8>>> for HistUp {
    fn send_request(&self, req: RequestMessage<Vec<u8>>) -> Box<dyn GetResponse + Send + Sync> {
        let q = req.to_vec().ok().and_then(|v| mc::wire::read_message(&v).ok()).and_then(|m| m.questions.first().cloned());
        let Some(q) = q else {
            return Box::new(Ready(Some(Err(ReqError::FormError))));
        };
        let h = self.cur.lock().unwrap().clone();
        let bytes = h.answer(&q.qname, q.qtype).encode();
        Box::new(Ready(Some(Message::from_octets(Bytes::from(bytes)).map_err(|_| ReqError::ShortMessage))))
    }
}

/// One ValidationContext validates, in order, the authentic answer of state `steps[i].0` for query
/// `steps[i].1`; between the validations the zone is re-signed (the upstream serves the current state).
/// Returns the index of the first step that is not reported as an unmodified answer must be, with what
/// was reported.
fn run_history(states: &[Arc<Hier>], steps: &[(usize, Query)]) -> Option<(usize, Verdict, Vec<&'static str>)> {
    let up = HistUp { cur: Arc::new(Mutex::new(states[steps[0].0].clone())) };
    let ta = TrustAnchors::from_u8(states[0].ta_text.as_bytes()).expect("trust anchor");
    let vc = ValidationContext::new(ta, up.clone());
    for (i, (si, q)) in steps.iter().enumerate() {
        let h = &states[*si];
        *up.cur.lock().unwrap() = h.clone();
        let bytes = h.answer(&q.name, q.qtype).encode();
        let mut msg = Message::from_octets(bytes).expect("message");
        let v = match guard(|| block_on(async { vc.validate_msg::<Vec<u8>, Vec<u8>>(&mut msg).await })) {
            Ok(Ok((s, _))) => Verdict::State(state_name(s).into()),
            Ok(Err(e)) => Verdict::Err(format!("{e}")),
            Err(p) => Verdict::Panic(p),
        };
        let exp = expected_unmodified(h, q);
        if !exp.contains(&v.short().as_str()) {
            return Some((i, v, exp));
        }
        if v.secure() && !check_secure(h, msg.as_slice(), "none").is_empty() {
            return Some((i, Verdict::Err("Secure, but the harness oracle rejects the authentic answer".into()), exp));
        }
    }
    None
}

/// May state `later` follow a context whose zone.tld. node was built in state `first`?  The validator may
/// legitimately keep the DNSKEY RRset it has validated for its TTL, so the key that signs `later` must be
/// in the DNSKEY RRset of `first`.
fn history_allowed(first: &Hier, later: &Hier) -> bool {
    let z0 = &first.zones[2];
    let z1 = &later.zones[2];
    z0.sets.get(&(key(&z0.apex), T_DNSKEY)).map(|s| s.1.contains(&z1.dnskey)).unwrap_or(false)
}

// ------------------------------------------------------------ Connection: reply post-processing

/// One request through `net::client::validator::Connection` with the given request flags; the
/// upstream's answer carries AD = `up_ad`.  `ta`: trust anchor text (empty: no trust anchor).
/// Returns (reply or error text, the message the upstream delivered).
fn run_conn_flags(h: &Arc<Hier>, q: &Query, faults: &Arc<Vec<Fault>>, ta: &str, ad: bool, dok: bool, cd: bool, up_ad: bool, up_opt: bool) -> (Result<Vec<u8>, String>, Vec<u8>) {
    let st = Arc::new(UpState::default());
    let up = Upstream { h: h.clone(), faults: faults.clone(), st: st.clone(), main: false, main_ad: false, main_opt: false };
    let mainup = Upstream { h: h.clone(), faults: faults.clone(), st, main: true, main_ad: up_ad, main_opt: up_opt };
    let delivered = mainup.respond(&q.name, q.qtype).map(|m| m.as_slice().to_vec()).unwrap_or_default();
    let mut qb = Resp::new(&q.name, q.qtype).encode();
    qb[2] = 0x01;
    qb[3] = if ad { 0x20 } else { 0 } | if cd { 0x10 } else { 0 };
    let tas = if ta.is_empty() { TrustAnchors::empty() } else { TrustAnchors::from_u8(ta.as_bytes()).expect("trust anchor") };
    let r = guard(|| {
        let vc = Arc::new(ValidationContext::new(tas, up));
        let conn = cval::Connection::<Upstream, Vec<u8>, Upstream>::with_config(mainup, vc, cval::Config::new());
        let mut req = RequestMessage::new(Message::from_octets(qb).expect("query")).expect("request");
        if dok {
            req.set_dnssec_ok(true);
        }
        let mut g = conn.send_request(req);
        block_on(async { g.get_response().await })
    });
    let r = match r {
        Ok(Ok(m)) => Ok(m.as_slice().to_vec()),
        Ok(Err(e)) => Err(format!("error: {e}")),
        Err(p) => Err(format!("panic: {p}")),
    };
    (r, delivered)
}

/// RFC 4035 3.1 / 3.2, RFC 6840 5.7-5.9 for the reply of the validating transport.
/// `outcome`: what validate_msg says about the delivered message (the harness obtains it from an
/// independent run); returns (what is wrong) list.
fn check_postprocess(outcome: &str, ad: bool, dok: bool, cd: bool, reply: &[u8], delivered: &[u8]) -> Vec<String> {
    let mut bad = vec![];
    let (Some(rp), Some(dp)) = (parse_lenient(reply), parse_lenient(delivered)) else {
        return vec!["reply-unreadable".into()];
    };
    let r_ad = reply[3] & 0x20 != 0;
    let validated = !cd;
    let want_ad = validated && outcome == "Secure" && (ad || dok);
    if r_ad && !want_ad {
        bad.push("ad-set-on-reply-that-must-not-have-it".into());
    }
    if !r_ad && want_ad {
        bad.push("ad-missing-on-secure-reply".into());
    }
    let servfail = validated && outcome == "Bogus";
    if servfail {
        if rp.rcode != 2 {
            bad.push("bogus-not-servfail".into());
        }
        if rp.sets.iter().any(|s| !s.is_empty()) {
            bad.push("bogus-reply-carries-records".into());
        }
        return bad;
    }
    if rp.rcode != dp.rcode {
        bad.push("rcode-changed".into());
    }
    if rp.qname != dp.qname || rp.qtype != dp.qtype {
        bad.push("question-changed".into());
    }
    let dnssec = |t: u16| t == T_RRSIG || t == T_NSEC || t == T_NSEC3;
    for s in 0..2 {
        for ((ok, t), rds, _) in &dp.sets[s] {
            let keep = dok || !(dnssec(*t) || *t == T_DNSKEY) || (s == 0 && *t == dp.qtype);
            let got = rp.sets[s].iter().find(|x| x.0 == (ok.clone(), *t)).map(|x| {
                let mut v = x.1.clone();
                v.sort();
                v
            });
            let mut want = rds.clone();
            want.sort();
            if keep && got.as_ref() != Some(&want) {
                bad.push(if dnssec(*t) { "dnssec-records-lost-although-do-set".into() } else { "data-records-lost-or-changed".to_string() });
            }
            if !dok && dnssec(*t) && !(s == 0 && *t == dp.qtype) && got.is_some() {
                bad.push("dnssec-records-without-do".into());
            }
        }
        for ((ok, t), _, _) in &rp.sets[s] {
            if !dp.sets[s].iter().any(|x| x.0 == (ok.clone(), *t)) {
                bad.push("records-invented".into());
            }
        }
    }
    bad.sort();
    bad.dedup();
    bad
}

/// The two context-reuse cases on the hierarchy with the additional zones; reports violations, returns
/// what was observed.
fn reuse_specials(ctx: &Ctx, stats: &Stats, h: &Arc<Hier>, only: Option<&str>) -> Value {
    let mut out = serde_json::Map::new();
    if only.is_none() || only == Some("signature-cache-across-owners") {
        let replay = json!({"scenario": h.name, "special": "signature-cache-across-owners", "qname": "www.tld.", "qtype": T_A, "faults": []});
        if let Some((unprimed, priming, primed)) = run_sig_cache_sibling(h) {
            for _ in 0..3 {
                stats.eval();
            }
            for (v, when) in [(&unprimed, "fresh context"), (&priming, "priming message x.evil.tld. A"), (&primed, "after priming")] {
                if let Verdict::Panic(p) = v {
                    ctx.violation(&format!("C14|validator|panic|{}", panic_sig(p)), &format!("validator panicked ({p}) in the signature-cache case ({when})"), replay.clone());
                }
            }
            if unprimed.secure() || priming.secure() {
                ctx.violation(
                    "C14|validator|rrset-signed-by-sibling-zone-reported-secure",
                    &format!("www.tld. A 6.6.6.6 / x.evil.tld. A 6.6.6.6 carrying evil.tld.'s RRSIG over *.tld. A reported {unprimed:?} / {priming:?} in a fresh context"),
                    replay.clone(),
                );
            } else if primed.secure() {
                ctx.violation(
                    "C14|validator|context-reuse|signature-cache-ignores-owner|rrset-signed-by-sibling-zone-reported-secure-after-priming",
                    &format!(
                        "www.tld. A 6.6.6.6 with the RRSIG that the sibling zone evil.tld. made over *.tld. A (labels 1) is reported {unprimed:?} by a fresh context, but {primed:?} by a context that has validated the same RRset and RRSIG under the owner x.evil.tld. before (that validation: {priming:?})"
                    ),
                    replay,
                );
            }
            out.insert("signature_cache_across_owners".into(), json!({"fresh": unprimed.short(), "priming": priming.short(), "after_priming": primed.short()}));
        }
    }
    if only.is_none() || only == Some("two-delegations-below-one-empty-non-terminal") {
        let replay = json!({"scenario": h.name, "special": "two-delegations-below-one-empty-non-terminal", "qname": "www.a.b.tld.", "qtype": T_A, "faults": []});
        let (first, second) = run_shared_ent(h);
        stats.eval();
        stats.eval();
        for v in [&first, &second] {
            if let Verdict::Panic(p) = v {
                ctx.violation(&format!("C14|validator|panic|{}", panic_sig(p)), &format!("validator panicked ({p}) in the shared empty non-terminal case"), replay.clone());
            }
        }
        if !first.secure() && !matches!(first, Verdict::Panic(_)) {
            ctx.violation(
                &format!("C14|validator|unmodified-correctly-signed-reported-{}|delegation-below-empty-non-terminal", first.short()),
                &format!("authentic answer for www.x.b.tld. A (secure delegation x.b.tld. below the empty non-terminal b.tld.) reported {first:?} by a fresh context"),
                replay.clone(),
            );
        } else if !second.secure() && !matches!(second, Verdict::Panic(_)) {
            ctx.violation(
                &format!("C14|validator|context-reuse|second-delegation-below-cached-empty-non-terminal-reported-{}", second.short()),
                &format!("one context validated the authentic www.x.b.tld. A as {first:?} and then reports the authentic www.a.b.tld. A (other secure delegation below the same empty non-terminal b.tld.) as {second:?}"),
                replay,
            );
        }
        out.insert("two_delegations_below_one_empty_non_terminal".into(), json!({"first": first.short(), "second": second.short()}));
    }
    Value::Object(out)
}

// ------------------------------------------------------------ the letter case of the query name
//
// RFC 4034 6.2 / RFC 5155 5: signatures and NSEC3 hashes are made over owner names in canonical (lower-case)
// form, RFC 4343: names compare case-insensitively.  So the verdict for an answer does not depend on how the
// query name is spelled (0x20 mixed-case queries, users typing upper case).  The authentic upstream echoes
// the question in the query's spelling; records come in the zone's spelling, except that owners equal to the
// query name may repeat the query's spelling (servers that compress them to a pointer into the question) and
// wildcard expansions necessarily do.

/// Spelling `mode` of a name: 0 as given (lower case), 1 all letters upper case, 2 alternating case starting
/// with upper case (counted over the letters of the whole name), 3 alternating starting with lower case.
fn respell(l: &Labels, mode: u8) -> Labels {
    let mut n = 0usize;
    l.iter()
        .map(|lab| {
            lab.iter()
                .map(|&b| {
                    if !b.is_ascii_alphabetic() {
                        return b;
                    }
                    n += 1;
                    match mode {
                        0 => b,
                        1 => b.to_ascii_uppercase(),
                        2 => if n % 2 == 1 { b.to_ascii_uppercase() } else { b.to_ascii_lowercase() },
                        _ => if n % 2 == 0 { b.to_ascii_uppercase() } else { b.to_ascii_lowercase() },
                    }
                })
                .collect()
        })
        .collect()
}

/// Owners of records that are not wildcard expansions put back into the zone's spelling.
fn zone_spelling(r: &mut Resp) {
    for s in 0..3 {
        for e in r.sec[s].iter_mut() {
            if key(&e.rr.owner) == e.src.1 {
                e.rr.owner = unkey(&e.src.1);
            }
        }
    }
}

/// One ValidationContext validates the authentic answers for the SAME (name, type) asked in the spellings
/// `spellings` one after the other (caches keyed by names must not make the second verdict depend on the first).
/// owners: 0 owners equal to the query name repeat the query's spelling, 1 all owners in the zone's spelling.
fn judge_case_reuse(ctx: &Ctx, stats: &Stats, h: &Arc<Hier>, q: &Query, owners: u8, spellings: &[u8], verbose: bool) {
    let vc = fresh_context(h);
    let replay = json!({"scenario": h.name, "special": "query-name-case", "qname": show(&q.name), "qtype": q.qtype, "owners": owners, "spellings": spellings, "faults": []});
    let denial = if h.nsec3 { if h.opt_out { "nsec3-optout" } else { "nsec3" } } else { "nsec" };
    for (i, sp) in spellings.iter().enumerate() {
        let qn = respell(&q.name, *sp);
        let qq = Query { name: qn.clone(), qtype: q.qtype };
        let mut resp = h.answer(&qn, q.qtype);
        if owners == 1 {
            zone_spelling(&mut resp);
        }
        let (v, out) = validate_bytes(&vc, &resp.encode());
        stats.eval();
        stats.count(&format!("query-name-case|one-context|step{}|{}", i + 1, v.short()));
        if verbose {
            println!("  step {} {} {}: {v:?}", i + 1, show(&qn), tname(q.qtype));
        }
        let step = if i == 0 { "fresh-context" } else { "same-name-in-other-spelling-validated-before" };
        if let Verdict::Panic(p) = &v {
            ctx.violation(&format!("C14|validator|panic|{}", panic_sig(p)), &format!("validator panicked ({p}) on the authentic answer for {} {} in scenario {}", show(&qn), tname(q.qtype), h.name), replay.clone());
            return;
        }
        let exp = expected_unmodified(h, &qq);
        let truth = h.classify(&qn, q.qtype);
        if !exp.contains(&v.short().as_str()) {
            let what = if exp[0] == "Insecure" { "below-insecure-delegation" } else { "correctly-signed" };
            ctx.violation(
                &format!("C14|validator|query-name-not-in-lower-case|{step}|unmodified-{what}-reported-{}|denial={denial}|answer={}", v.short(), truth.short()),
                &format!(
                    "scenario {}: authentic answer for {} {} (step {} of the spellings {:?} of one name on one ValidationContext; 0 lower, 1 upper, 2/3 alternating case) reported {v:?}, expected {exp:?} as for the lower-case spelling",
                    h.name,
                    show(&qn),
                    tname(q.qtype),
                    i + 1,
                    spellings
                ),
                replay.clone(),
            );
        }
        if v.secure() {
            for f in check_secure(h, &out, "none") {
                ctx.violation(&format!("{}|query-name-not-in-lower-case|{step}", f.sig), &format!("{} [scenario {} query {} {}]", f.what, h.name, show(&qn), tname(q.qtype)), replay.clone());
            }
        }
    }
}

fn case_reuse_plan(quick: bool) -> (Vec<Query>, Vec<Vec<u8>>) {
    let q = |n: &str, t: u16| Query { name: nm(n), qtype: t };
    // positive, wildcard, NODATA, NXDOMAIN, DS (NODATA at the insecure delegation), name of the parent zone,
    // wildcard NODATA, NXDOMAIN two labels below the closest encloser, CNAME, empty non-terminal / other name
    let queries = vec![q("www.zone.tld.", T_A), q("x.w.zone.tld.", T_A), q("www.zone.tld.", T_TXT), q("nx.zone.tld.", T_A), q("zone.tld.", T_DS), q("www.tld.", T_A), q("x.w.zone.tld.", T_MX), q("deep.nx.zone.tld.", T_A), q("cn.zone.tld.", T_A), q("b.zone.tld.", T_A), q("nx.tld.", T_A)];
    let n = if quick { 3u8 } else { 4 };
    let mut seqs = vec![];
    for a in 0..n {
        for b in 0..n {
            if a != b {
                seqs.push(vec![a, b]);
                if !quick {
                    for c in 0..n {
                        if c != b {
                            seqs.push(vec![a, b, c]);
                        }
                    }
                }
            }
        }
    }
    (queries, seqs)
}

// ------------------------------------------------------------ trust anchor forms and non-default Config

/// Trust anchors from zone-file lines through one of the three construction routes.
fn build_ta(lines: &[String], route: u8) -> TrustAnchors {
    let text = lines.join("\n");
    match route {
        0 => TrustAnchors::from_u8(text.as_bytes()).expect("from_u8"),
        1 => {
            let mut t = TrustAnchors::empty();
            for l in lines {
                t.add_u8(l.as_bytes()).expect("add_u8");
            }
            t
        }
        _ => TrustAnchors::from_reader(std::io::Cursor::new(format!("{text}\n").into_bytes())).expect("from_reader"),
    }
}

/// validate_msg on a fresh context made with `with_config`.
fn validate_cfg(h: &Arc<Hier>, q: &Query, faults: &Arc<Vec<Fault>>, tas: TrustAnchors, cfg: VConfig) -> (Verdict, Vec<u8>) {
    let st = Arc::new(UpState::default());
    let up = Upstream { h: h.clone(), faults: faults.clone(), st: st.clone(), main: false, main_ad: false, main_opt: false };
    let mainup = Upstream { h: h.clone(), faults: faults.clone(), st, main: true, main_ad: false, main_opt: false };
    let Ok(m) = mainup.respond(&q.name, q.qtype) else { return (Verdict::NoMessage, vec![]) };
    let vc = ValidationContext::with_config(tas, up, cfg);
    validate_bytes(&vc, m.as_slice())
}

struct Expect<'a> {
    ctx: &'a Ctx,
    stats: &'a Stats,
    only: Option<String>,
}

impl Expect<'_> {
    /// Report a violation of the trust-anchor / configuration block (with `only`: just that class).
    fn report(&self, h: &Hier, sig: String, what: String, extra: &Value) {
        if self.only.as_ref().map(|o| *o == sig).unwrap_or(true) {
            if self.only.is_some() {
                println!("  {what}");
            }
            let replay = json!({"scenario": h.name, "special": "anchors-config", "faults": [], "qname": ".", "qtype": 0, "case": extra});
            self.ctx.violation(&sig, &what, replay);
        }
    }

    /// Report if `v` is not one of `exp`, or Secure without the harness oracle agreeing.
    fn check(&self, h: &Hier, sig: String, what: String, v: &Verdict, out: &[u8], exp: &[&str], extra: Value) {
        self.stats.eval();
        self.stats.distinct(fnv(format!("cfg|{sig}|{what}").as_bytes()));
        self.stats.count(&format!("anchors-config|{}", v.short()));
        let replay = json!({"scenario": h.name, "special": "anchors-config", "faults": [], "qname": ".", "qtype": 0, "case": extra});
        let report = |sig: String, what: String| {
            if self.only.as_ref().map(|o| *o == sig).unwrap_or(true) {
                if self.only.is_some() {
                    println!("  {what}");
                }
                self.ctx.violation(&sig, &what, replay.clone());
            }
        };
        if let Verdict::Panic(p) = v {
            report(format!("C14|validator|panic|{}", panic_sig(p)), format!("validator panicked ({p}): {what}"));
            return;
        }
        if !exp.is_empty() && !exp.contains(&v.short().as_str()) {
            report(format!("{sig}|expected-{}|reported-{}", exp.join("-or-"), v.short()), format!("{what}: reported {v:?}, expected {exp:?}"));
        }
        if v.secure() {
            for f in check_secure(h, out, "none") {
                report(f.sig.replace("fault=none", &format!("config={}", sig.rsplit('|').next().unwrap_or(""))), format!("{what}: {}", f.what));
            }
        }
    }
}

// ---- histories of trust-anchor configuration

fn base64(data: &[u8]) -> String {
    const A: &[u8; 64] = b"ABCDEFGHIJKLMNOPQRSTUVWXYZabcdefghijklmnopqrstuvwxyz0123456789+/";
    let mut s = String::new();
    for c in data.chunks(3) {
        let n = (c[0] as u32) << 16 | (*c.get(1).unwrap_or(&0) as u32) << 8 | *c.get(2).unwrap_or(&0) as u32;
        s.push(A[(n >> 18) as usize & 63] as char);
        s.push(A[(n >> 12) as usize & 63] as char);
        s.push(if c.len() > 1 { A[(n >> 6) as usize & 63] as char } else { '=' });
        s.push(if c.len() > 2 { A[n as usize & 63] as char } else { '=' });
    }
    s
}

/// Zone-file text of a DNSKEY RDATA.
fn dnskey_text(rd: &[u8]) -> String {
    format!("{} {} {} {}", u16::from_be_bytes([rd[0], rd[1]]), rd[2], rd[3], base64(&rd[4..]))
}

impl Hier {
    /// The DNSKEY RDATAs of zone `zi` that made a currently valid RRSIG over the zone's DNSKEY RRset: a
    /// trust anchor authenticates the zone iff it designates one of them (RFC 4035 5: the DNSKEY RRset
    /// must be signed by a key that matches a configured anchor; any one such key suffices).
    fn dnskey_signers(&self, zi: usize) -> Vec<Vec<u8>> {
        let z = &self.zones[zi];
        let ak = key(&z.apex);
        // RRSIG RDATA: type covered, algorithm [2], labels, original TTL, expiration, inception, key tag [16..18]
        let by: Vec<(u16, u8)> = z.sigs.get(&(ak.clone(), T_DNSKEY)).map(|w| w[0].iter().map(|rd| (u16::from_be_bytes([rd[16], rd[17]]), rd[2])).collect()).unwrap_or_default();
        z.sets.get(&(ak, T_DNSKEY)).map(|s| s.1.iter().filter(|k| by.contains(&(key_tag(k), k[3]))).cloned().collect()).unwrap_or_default()
    }
}

/// One record of the trust-anchor menu.
struct TaRec {
    label: &'static str,
    owner: Labels,
    /// zone-file line
    line: String,
    /// the DNSKEY RDATA the record designates (directly, or by its digest)
    key: Vec<u8>,
}

/// The menu of anchor records for a hierarchy.  `k2`: RDATA of the second key of the root.
fn ta_menu(h: &Hier, k2: &[u8], full: bool) -> Vec<TaRec> {
    let dnskey = |label, o: &str, rd: &[u8]| TaRec { label, owner: nm(o), line: format!("{o} 3600 IN DNSKEY {}", dnskey_text(rd)), key: rd.to_vec() };
    let ds = |label, o: &str, rd: &[u8], dtype: u8| TaRec { label, owner: nm(o), line: format!("{o} 3600 IN DS {}", ds_text(&nm(o), rd, dtype)), key: rd.to_vec() };
    let (k1, kt, kz) = (&h.key_texts[0].1, &h.key_texts[1].1, &h.key_texts[2].1);
    // the harness's own base64 against the text of the key file
    assert_eq!(dnskey_text(k1).split_whitespace().collect::<Vec<_>>().concat(), h.key_texts[0].0.split_whitespace().collect::<Vec<_>>().concat(), "MACHINERY: DNSKEY text");
    let mut m = vec![
        dnskey("root-key1", ".", k1),
        dnskey("root-key2", ".", k2),
        ds("root-ds-of-key1", ".", k1, 2),
        dnskey("tld-key", "tld.", kt),
        // an owner that is not at or above any name of the hierarchy that is asked for
        dnskey("unrelated-owner", "other.", k2),
    ];
    if full {
        m.push(ds("root-ds-of-key2", ".", k2, 2));
        // a second record of tld.: a key that is not in tld.'s DNSKEY RRset
        m.push(dnskey("tld-foreign-key", "tld.", kz));
        // 'ld.' is a suffix of 'tld.' as a string, not as a name
        m.push(dnskey("unrelated-owner-string-suffix", "ld.", k2));
    }
    m
}

/// Execute one configuration history: the constructor (0 from_u8, 1 from_reader, 2 empty) followed by
/// add_u8 calls; `chunks` are the record lists of the calls (route 2: all of them are add_u8 calls).
/// Err = name of the operation that rejected well-formed text, or the panic text.
fn ta_history(menu: &[TaRec], route: u8, chunks: &[Vec<usize>]) -> Result<TrustAnchors, (String, bool)> {
    let text = |c: &Vec<usize>| c.iter().map(|r| menu[*r].line.clone()).collect::<Vec<_>>().join("\n");
    let r = guard(|| {
        let empty = vec![];
        let (first, rest) = match route {
            2 => (None, chunks),
            _ => (Some(chunks.first().unwrap_or(&empty)), chunks.get(1..).unwrap_or(&[])),
        };
        let mut t = match (route, first) {
            (0, Some(c)) => TrustAnchors::from_u8(text(c).as_bytes()).map_err(|_| "from_u8")?,
            (1, Some(c)) => TrustAnchors::from_reader(std::io::Cursor::new(format!("{}\n", text(c)).into_bytes())).map_err(|_| "from_reader")?,
            _ => TrustAnchors::empty(),
        };
        for c in rest {
            t.add_u8(text(c).as_bytes()).map_err(|_| "add_u8")?;
        }
        Ok::<_, &'static str>(t)
    });
    match r {
        Ok(Ok(t)) => Ok(t),
        Ok(Err(op)) => Err((op.to_string(), false)),
        Err(p) => Err((p, true)),
    }
}

/// What RFC 4035 (4.3, 5) demands for the unmodified answer to `q` of the fully signed hierarchy `h` when
/// the SET `set` (bit i = menu record i) of anchors is configured: the configured owner nearest to (at or
/// above) the zone of the answer decides; none -> Indeterminate; one of its records designates a key that
/// signs that zone's DNSKEY RRset -> Secure; else Bogus.  Also returns the zone index of that owner.
fn ta_expected(h: &Hier, menu: &[TaRec], set: u32, q: &Query) -> (&'static str, Option<usize>) {
    let z = h.classify(&q.name, q.qtype).zone();
    let zone_of = |r: &TaRec| (0..3usize).find(|zi| key(&h.zones[*zi].apex) == key(&r.owner));
    let members: Vec<(&TaRec, usize)> = menu.iter().enumerate().filter(|(i, _)| set & (1 << i) != 0).filter_map(|(_, r)| zone_of(r).map(|zi| (r, zi))).filter(|(_, zi)| *zi <= z).collect();
    let Some(nearest) = members.iter().map(|m| m.1).max() else { return ("Indeterminate", None) };
    let signers = h.dnskey_signers(nearest);
    if members.iter().any(|(r, zi)| *zi == nearest && signers.contains(&r.key)) {
        ("Secure", Some(nearest))
    } else {
        ("Bogus", Some(nearest))
    }
}

/// HISTORIES of trust-anchor configuration.  Alphabet: the constructors empty(), from_u8(text),
/// from_reader(text) and the one public mutator add_u8(text), over every sequence (with repetitions) of
/// at most `depth` records of the menu, cut into calls in every way.  Oracle: (1) the verdict for each
/// query of a fixed menu is the one RFC 4035 demands for the resulting SET of anchors (`ta_expected`);
/// (2) it equals the verdict of the one-shot configuration from_u8(records of the set in menu order):
/// history independence; (3) Secure answers pass the harness's chain oracle.
fn anchor_histories(ex: &Expect, hiers: &[Arc<Hier>], r2: Option<usize>, k2: &[u8]) -> Value {
    let quick = ex.ctx.quick();
    let none: Arc<Vec<Fault>> = Arc::new(vec![]);
    let q = |n: &str, t: u16| Query { name: nm(n), qtype: t };
    let mut queries = vec![q("www.zone.tld.", T_A), q("aaa.", T_TXT), q("nx.tld.", T_A)];
    if !quick {
        queries.extend([q("www.tld.", T_A), q("nx.", T_A), q("tld.", T_DS), q("zone.tld.", T_DS), q("x.w.zone.tld.", T_A)]);
    }
    let depth = 3usize;
    let mut his = vec![0usize];
    if !quick {
        his.extend(r2);
    }
    let menus: Vec<Vec<TaRec>> = his.iter().map(|hi| ta_menu(&hiers[*hi], k2, !quick)).collect();
    let n = menus[0].len();
    // all record sequences of length 0..=depth
    let mut seqs: Vec<Vec<usize>> = vec![vec![]];
    let mut frontier: Vec<Vec<usize>> = vec![vec![]];
    for _ in 0..depth {
        let mut next = vec![];
        for s in &frontier {
            for r in 0..n {
                let mut t = s.clone();
                t.push(r);
                next.push(t);
            }
        }
        seqs.extend(next.iter().cloned());
        frontier = next;
    }
    let mask_of = |s: &[usize]| s.iter().fold(0u32, |m, r| m | 1 << r);
    // (1) one-shot configuration of every reachable set
    let masks: BTreeSet<u32> = seqs.iter().map(|s| mask_of(s)).collect();
    let mut oneshot_jobs: Vec<(usize, u32, usize)> = vec![];
    for k in 0..his.len() {
        for m in &masks {
            for qi in 0..queries.len() {
                oneshot_jobs.push((k, *m, qi));
            }
        }
    }
    let oneshot: BTreeMap<(usize, u32, usize), String> = oneshot_jobs
        .par_iter()
        .map(|(k, m, qi)| {
            let recs: Vec<usize> = (0..n).filter(|i| m & (1 << i) != 0).collect();
            let v = match ta_history(&menus[*k], 0, &[recs]) {
                Ok(t) => validate_cfg(&hiers[his[*k]], &queries[*qi], &none, t, VConfig::new()).0.short(),
                Err(_) => "not-constructed".to_string(),
            };
            ((*k, *m, *qi), v)
        })
        .collect();
    // (2) every history
    let mut jobs: Vec<(usize, usize, u32, u8)> = vec![];
    for k in 0..his.len() {
        for (si, s) in seqs.iter().enumerate() {
            for cuts in 0..1u32 << s.len().saturating_sub(1) {
                for route in 0..3u8 {
                    jobs.push((k, si, cuts, route));
                }
            }
        }
    }
    let rname = ["from_u8", "from_reader", "empty"];
    jobs.par_iter().for_each(|(k, si, cuts, route)| {
        let h = &hiers[his[*k]];
        let menu = &menus[*k];
        let s = &seqs[*si];
        let mut chunks: Vec<Vec<usize>> = vec![];
        for (i, r) in s.iter().enumerate() {
            if i == 0 || cuts & (1 << (i - 1)) != 0 {
                chunks.push(vec![]);
            }
            chunks.last_mut().unwrap().push(*r);
        }
        let set = mask_of(s);
        // the operations as text
        let mut ops: Vec<(String, Vec<usize>)> = vec![];
        if *route == 2 {
            ops.push(("empty".into(), vec![]));
        }
        for (i, c) in chunks.iter().enumerate() {
            ops.push((if i == 0 && *route != 2 { rname[*route as usize].to_string() } else { "add_u8".to_string() }, c.clone()));
        }
        if ops.is_empty() {
            ops.push((rname[*route as usize].to_string(), vec![]));
        }
        let shown = ops.iter().map(|(o, c)| format!("{o}[{}]", c.iter().map(|r| menu[*r].label).collect::<Vec<_>>().join(" + "))).collect::<Vec<_>>().join(" ; ");
        let extra = json!({"history": ops.iter().map(|(o, c)| json!([o, c.iter().map(|r| menu[*r].line.clone()).collect::<Vec<_>>()])).collect::<Vec<_>>()});
        ex.stats.count("anchor-histories|histories");
        ex.stats.count(&format!("anchor-histories|operations={}", ops.len()));
        for (qi, qq) in queries.iter().enumerate() {
            let tas = match ta_history(menu, *route, &chunks) {
                Ok(t) => t,
                Err((op, panicked)) => {
                    ex.stats.eval();
                    if panicked {
                        ex.report(h, format!("C14|validator|panic|{}", panic_sig(&op)), format!("configuring trust anchors panicked ({op}): {shown}"), &extra);
                    } else {
                        ex.report(h, format!("C14|validator|trust-anchors|configuration-history|well-formed-anchor-text-rejected|operation={op}"), format!("{op} returned an error for well-formed DS/DNSKEY lines in the history {shown}"), &extra);
                    }
                    break;
                }
            };
            let (exp, nearest) = ta_expected(h, menu, set, qq);
            // shape of the history as seen from the deciding owner
            let (calls, distinct) = match nearest {
                None => (0, 0),
                Some(zi) => {
                    let at = |r: &usize| key(&menu[*r].owner) == key(&h.zones[zi].apex);
                    (chunks.iter().filter(|c| c.iter().any(at)).count(), (0..n).filter(|r| set & (1 << r) != 0 && at(r)).count())
                }
            };
            let shape = format!("constructor={}|deciding-owner-configured-by-{calls}-calls|{distinct}-distinct-records", rname[*route as usize]);
            let (v, out) = validate_cfg(h, qq, &none, tas, VConfig::new());
            let what = format!("trust-anchor configuration history {shown}; unmodified answer for {} {} in {}", show(&qq.name), tname(qq.qtype), h.name);
            ex.check(h, format!("C14|validator|trust-anchors|configuration-history|{shape}"), what.clone(), &v, &out, &[exp], extra.clone());
            let one = &oneshot[&(*k, set, qi)];
            if *one != v.short() && !matches!(v, Verdict::Panic(_)) {
                ex.report(
                    h,
                    format!("C14|validator|trust-anchors|configuration-history|verdict-depends-on-the-history-not-on-the-set|{shape}|one-shot-{one}|history-{}", v.short()),
                    format!("{what}: reported {v:?}, but {one} when the same set of records is configured by one from_u8 call"),
                    &extra,
                );
            }
        }
    });
    json!({
        "hierarchies": his.iter().map(|hi| hiers[*hi].name).collect::<Vec<_>>(),
        "menu": menus[0].iter().map(|r| r.label).collect::<Vec<_>>(),
        "max_records_per_history": depth,
        "record_sequences": seqs.len(),
        "anchor_sets": masks.len(),
        "histories_per_hierarchy": jobs.len() / his.len(),
        "queries": queries.iter().map(|qq| format!("{} {}", show(&qq.name), tname(qq.qtype))).collect::<Vec<_>>(),
        "validations": jobs.len() * queries.len() + oneshot_jobs.len(),
        "rule": "history = constructor (empty / from_u8 / from_reader) then add_u8 calls; every sequence with repetitions of at most 3 menu records x every way of cutting it into calls x the three constructors; verdict per query = what RFC 4035 demands for the resulting SET (nearest configured owner; any one record designating a key that signs its DNSKEY RRset suffices) and = the verdict of the one-shot from_u8 configuration of the same set",
    })
}

/// Trust-anchor forms / routes and non-default validator configurations.
fn anchors_and_config(ctx: &Ctx, stats: &Stats, hiers: &[Arc<Hier>], s7: usize, r2: Option<usize>, k2: &[u8], only: Option<String>) -> Value {
    let ex = Expect { ctx, stats, only };
    let none: Arc<Vec<Fault>> = Arc::new(vec![]);
    let q = |n: &str, t: u16| Query { name: nm(n), qtype: t };
    let owner_text = ["." , "tld.", "zone.tld."];

    // ---- trust anchors: (zone, form 0 DNSKEY / 1,2,4 DS digest type, good)
    let cfgs: Vec<Vec<(usize, u8, bool)>> = vec![
        vec![(0, 0, true)],
        vec![(0, 1, true)],
        vec![(0, 2, true)],
        vec![(0, 4, true)],
        vec![(0, 0, false)],
        vec![(0, 2, false)],
        vec![(0, 0, false), (0, 2, true)],
        vec![(0, 2, false), (0, 0, true)],
        vec![(0, 0, true), (1, 0, true)],
        vec![(0, 0, false), (1, 2, true)],
        vec![(1, 0, true)],
        vec![(1, 4, true)],
        vec![(2, 2, true)],
        vec![(2, 0, true), (0, 0, false)],
        vec![(0, 0, true), (1, 0, false)],
        vec![(0, 2, true), (2, 0, false)],
        vec![],
    ];
    let aq = [q("www.zone.tld.", T_A), q("nx.zone.tld.", T_A), q("x.w.zone.tld.", T_A), q("www.tld.", T_A), q("zone.tld.", T_DS), q("aaa.", T_TXT), q("nx.", T_A)];
    let mut jobs: Vec<(usize, usize, u8, usize)> = vec![];
    for hi in [0usize, 1] {
        for c in 0..cfgs.len() {
            for route in 0..3u8 {
                for qi in 0..aq.len() {
                    jobs.push((hi, c, route, qi));
                }
            }
        }
    }
    jobs.par_iter().for_each(|(hi, c, route, qi)| {
        let h = &hiers[*hi];
        let lines: Vec<String> = cfgs[*c]
            .iter()
            .map(|(z, form, good)| {
                let o = owner_text[*z];
                let owner = nm(o);
                // a wrong anchor: the key of another zone / a digest with one bit changed
                let (ktext, krd) = if *good { h.key_texts[*z].clone() } else { h.key_texts[(*z + 1) % 3].clone() };
                if *form == 0 {
                    format!("{o} 3600 IN DNSKEY {ktext}")
                } else {
                    let mut t = ds_text(&owner, &h.key_texts[*z].1, *form);
                    if !*good {
                        let last = t.pop().unwrap();
                        t.push(if last == '0' { '1' } else { '0' });
                    }
                    let _ = krd;
                    format!("{o} 3600 IN DS {t}")
                }
            })
            .collect();
        let qq = &aq[*qi];
        let z = h.classify(&qq.name, qq.qtype).zone();
        let nearest = cfgs[*c].iter().filter(|a| a.0 <= z).map(|a| a.0).max();
        let exp: Vec<&str> = match nearest {
            None => vec!["Indeterminate"],
            Some(n) => {
                if cfgs[*c].iter().any(|a| a.0 == n && a.2) {
                    vec!["Secure"]
                } else {
                    vec!["Bogus"]
                }
            }
        };
        let label: Vec<String> = cfgs[*c].iter().map(|(z, f, g)| format!("{}:{}:{}", ["root", "tld", "zone"][*z], ["dnskey", "ds-sha1", "ds-sha256", "", "ds-sha384"][*f as usize], if *g { "right" } else { "wrong" })).collect();
        let rname = ["from_u8", "add_u8", "from_reader"][*route as usize];
        let (v, out) = validate_cfg(h, qq, &none, build_ta(&lines, *route), VConfig::new());
        ex.check(
            h,
            format!("C14|validator|trust-anchors|{}|route={rname}", if label.is_empty() { "none".to_string() } else { label.join("+") }),
            format!("trust anchors [{}] via {rname}, unmodified answer for {} {} in {}", lines.join(" / "), show(&qq.name), tname(qq.qtype), h.name),
            &v,
            &out,
            &exp,
            json!({"anchors": lines, "route": rname, "qname": show(&qq.name), "qtype": qq.qtype}),
        );
    });

    // ---- histories of trust-anchor configuration
    let ta_hist = anchor_histories(&ex, hiers, r2, k2);

    // ---- Config: tolerated bad signatures
    let ta = |h: &Hier| TrustAnchors::from_u8(h.ta_text.as_bytes()).expect("trust anchor");
    let mut jobs: Vec<(u8, u16, usize)> = vec![];
    for kset in [0u8, 1, 2, 3, 7, 8, 9] {
        let k = kset.clamp(1, 8) as u16;
        for n in [0, k.saturating_sub(1), k, k + 1] {
            for qi in 0..2 {
                jobs.push((kset, n, qi));
            }
        }
    }
    jobs.sort();
    jobs.dedup();
    let bq = [q("www.zone.tld.", T_A), q("www.zone.tld.", T_TXT)];
    jobs.par_iter().for_each(|(kset, n, qi)| {
        let k = (*kset).clamp(1, 8) as u16;
        let mut cfg = VConfig::new();
        cfg.set_bad_signatures(*kset);
        for hi in [0usize, 1] {
            let h = &hiers[hi];
            let qq = &bq[*qi];
            let resp = h.answer(&qq.name, qq.qtype);
            let sid = resp.sec.iter().flatten().find(|e| e.rr.rtype == T_RRSIG).map(|e| e.id).expect("an RRSIG");
            let faults = Arc::new(if *n == 0 { vec![] } else { vec![Fault { target: Target::Main, op: Op::ManyBad { id: sid, n: *n } }] });
            let (v, out) = validate_cfg(h, qq, &faults, ta(h), cfg.clone());
            let exp: Vec<&str> = if *n <= k { vec!["Secure"] } else { vec![] };
            ex.check(
                h,
                format!("C14|validator|config|set_bad_signatures|bad-signatures-before-the-good-one-{}-limit", if *n <= k { "within" } else { "above" }),
                format!("set_bad_signatures({kset}) (effective {k}); {n} corrupted RRSIGs in front of the valid one, {} {} in {}", show(&qq.name), tname(qq.qtype), h.name),
                &v,
                &out,
                &exp,
                json!({"set_bad_signatures": kset, "bad": n, "qname": show(&qq.name), "qtype": qq.qtype}),
            );
        }
        // the zone with a second key of the same tag: one failed attempt per signature is normal
        let h = &hiers[4];
        let qq = &bq[*qi];
        if *n == 0 {
            let (v, out) = validate_cfg(h, qq, &none, ta(h), cfg.clone());
            ex.check(h, "C14|validator|config|set_bad_signatures|colliding-key-tag-zone".into(), format!("set_bad_signatures({kset}); unmodified {} {} in {}", show(&qq.name), tname(qq.qtype), h.name), &v, &out, &["Secure"], json!({"set_bad_signatures": kset}));
        }
    });

    // ---- Config: NSEC3 iteration limits.  zone.tld. uses 2 iterations (S2) or 150 (S7)
    let nq = [q("www.zone.tld.", T_A), q("www.zone.tld.", T_TXT), q("nx.zone.tld.", T_A), q("b.zone.tld.", T_A), q("x.w.zone.tld.", T_A), q("x.w.zone.tld.", T_MX), q("zone.tld.", T_DS), q("cn.zone.tld.", T_A)];
    let mut jobs: Vec<(usize, u16, u16, usize)> = vec![];
    for hi in [1usize, s7] {
        for ins in [0u16, 1, 2, 3, 100, 149, 150, 151, 500, 501] {
            for bog in [0u16, 1, 2, 3, 149, 150, 151, 500, 600] {
                for qi in 0..nq.len() {
                    jobs.push((hi, ins, bog, qi));
                }
            }
        }
    }
    jobs.par_iter().for_each(|(hi, ins, bog, qi)| {
        let h = &hiers[*hi];
        let qq = &nq[*qi];
        let mut cfg = VConfig::new();
        cfg.set_nsec3_iter_insecure(*ins);
        cfg.set_nsec3_iter_bogus(*bog);
        let (ie, be) = ((*ins).min(500), (*bog).min(500));
        let iters = match &h.zones[2].denial {
            Denial::Nsec3 { iters, .. } => *iters,
            _ => 0,
        };
        // does the answer need NSEC3 records of zone.tld.?
        let needs = h.answer(&qq.name, qq.qtype).sec[1].iter().any(|e| e.rr.rtype == T_NSEC3);
        let exp: Vec<&str> = if !needs {
            vec!["Secure"]
        } else if iters > be {
            vec!["Bogus", "Insecure"]
        } else if iters > ie {
            vec!["Insecure"]
        } else {
            vec!["Secure"]
        };
        let (v, out) = validate_cfg(h, qq, &none, ta(h), cfg);
        let rel = |i: u16, l: u16| if i > l { "above" } else { "within" };
        ex.check(
            h,
            format!("C14|validator|config|nsec3-iteration-limits|iterations-{}-insecure-limit-{}-bogus-limit|answer-{}", rel(iters, ie), rel(iters, be), if needs { "uses-nsec3" } else { "without-nsec3" }),
            format!("set_nsec3_iter_insecure({ins}) set_nsec3_iter_bogus({bog}); zone uses {iters} iterations; unmodified {} {} in {}", show(&qq.name), tname(qq.qtype), h.name),
            &v,
            &out,
            &exp,
            json!({"insecure": ins, "bogus": bog, "qname": show(&qq.name), "qtype": qq.qtype}),
        );
    });

    // ---- Config: CNAME/DNAME chain limit
    let cq = [(q("c3.zone.tld.", T_A), 3u8), (q("cn.zone.tld.", T_A), 1), (q("x.d.zone.tld.", T_A), 1), (q("www.zone.tld.", T_A), 0), (q("ext.zone.tld.", T_A), 1)];
    for hi in [0usize, 1] {
        for nset in [0u8, 1, 2, 3, 4, 11, 100, 200] {
            for (qq, len) in &cq {
                let h = &hiers[hi];
                let mut cfg = VConfig::new();
                cfg.set_max_cname_dname(nset);
                let eff = nset.min(100);
                let (v, out) = validate_cfg(h, qq, &none, ta(h), cfg);
                let exp: Vec<&str> = if *len <= eff { vec!["Secure"] } else { vec!["Bogus", "Insecure", "Indeterminate"] };
                ex.check(
                    h,
                    format!("C14|validator|config|set_max_cname_dname|chain-{}-limit", if *len <= eff { "within" } else { "above" }),
                    format!("set_max_cname_dname({nset}); chain of {len} CNAME/DNAME, unmodified {} {} in {}", show(&qq.name), tname(qq.qtype), h.name),
                    &v,
                    &out,
                    &exp,
                    json!({"max_cname_dname": nset, "qname": show(&qq.name), "qtype": qq.qtype}),
                );
            }
        }
    }

    // ---- Config: smallest caches and validity limits; one context, every query twice
    for hi in [0usize, 1, 2] {
        let h = &hiers[hi];
        for size in [0u64, 1] {
            let mut cfg = VConfig::new();
            cfg.set_max_node_cache(size);
            cfg.set_max_nsec3_cache(size);
            cfg.set_max_isig_cache(size);
            cfg.set_max_usig_cache(size);
            cfg.set_max_validity(Duration::from_secs(1));
            cfg.set_max_bogus_validity(Duration::from_secs(0));
            let up = Upstream { h: h.clone(), faults: none.clone(), st: Arc::new(UpState::default()), main: false, main_ad: false, main_opt: false };
            let vc = ValidationContext::with_config(ta(h), up, cfg);
            let all = [nq.to_vec(), aq.to_vec()].concat();
            for round in 0..2 {
                for qq in &all {
                    let (v, out) = validate_bytes(&vc, &h.answer(&qq.name, qq.qtype).encode());
                    let exp = expected_unmodified(h, qq);
                    ex.check(
                        h,
                        "C14|validator|config|caches-of-one-entry".into(),
                        format!("all caches limited to {size} (effective 1) entry, round {round}: unmodified {} {} in {}", show(&qq.name), tname(qq.qtype), h.name),
                        &v,
                        &out,
                        &exp,
                        json!({"cache_size": size}),
                    );
                }
            }
        }
    }
    ta_hist
}

/// Verdict of validate_msg for the (faulted) answer with the given trust anchor text ("" = none).
fn verdict_with_ta(h: &Arc<Hier>, q: &Query, faults: &Arc<Vec<Fault>>, ta: &str) -> Verdict {
    let st = Arc::new(UpState::default());
    let up = Upstream { h: h.clone(), faults: faults.clone(), st: st.clone(), main: false, main_ad: false, main_opt: false };
    let mainup = Upstream { h: h.clone(), faults: faults.clone(), st, main: true, main_ad: false, main_opt: false };
    let Ok(m) = mainup.respond(&q.name, q.qtype) else { return Verdict::NoMessage };
    let tas = if ta.is_empty() { TrustAnchors::empty() } else { TrustAnchors::from_u8(ta.as_bytes()).expect("trust anchor") };
    let vc = ValidationContext::new(tas, up);
    let mut msg = Message::from_octets(m.as_slice().to_vec()).expect("message");
    match guard(|| block_on(async { vc.validate_msg::<Vec<u8>, Vec<u8>>(&mut msg).await })) {
        Ok(Ok((s, _))) => Verdict::State(state_name(s).into()),
        Ok(Err(e)) => Verdict::Err(format!("{e}")),
        Err(p) => Verdict::Panic(p),
    }
}

/// Which parameters of zone.tld. differ between two states.
fn changed_dims(a: &Hier, b: &Hier) -> String {
    let (za, zb) = (&a.zones[2], &b.zones[2]);
    let mut d = vec![];
    match (&za.denial, &zb.denial) {
        (Denial::Nsec3 { salt: s1, iters: i1, .. }, Denial::Nsec3 { salt: s2, iters: i2, .. }) => {
            if s1 != s2 {
                d.push("nsec3-salt");
            }
            if i1 != i2 {
                d.push("nsec3-iterations");
            }
        }
        (Denial::Nsec, Denial::Nsec) | (Denial::None, Denial::None) => {}
        _ => d.push("nsec-vs-nsec3"),
    }
    if za.names != zb.names || za.sets.keys().filter(|k| k.1 != T_NSEC && k.1 != T_NSEC3 && k.1 != 51).ne(zb.sets.keys().filter(|k| k.1 != T_NSEC && k.1 != T_NSEC3 && k.1 != 51)) {
        d.push("records");
    }
    let ks = |z: &Zone| {
        let mut v = z.sets.get(&(key(&z.apex), T_DNSKEY)).map(|s| s.1.clone()).unwrap_or_default();
        v.sort();
        v
    };
    if ks(za) != ks(zb) {
        d.push("dnskey-rrset");
    }
    if za.dnskey != zb.dnskey {
        d.push("signing-key");
    }
    if d.is_empty() {
        "nothing".into()
    } else {
        d.join("+")
    }
}

fn state_label(h: &Hier) -> &str {
    h.name.split_once('-').map(|x| x.1).unwrap_or(h.name)
}

/// Run one history and report.
fn judge_history(ctx: &Ctx, stats: &Stats, all: &[Arc<Hier>], h0: usize, steps: &[(usize, Query)], verbose: bool) {
    let states = &all[h0..];
    for _ in steps {
        stats.eval();
    }
    stats.distinct(fnv(format!("history|{:?}", steps.iter().map(|(s, q)| (s, show(&q.name), q.qtype)).collect::<Vec<_>>()).as_bytes()));
    let r = run_history(states, steps);
    if verbose {
        println!("history {:?}: {:?}", steps.iter().map(|(s, q)| format!("{} {} {}", states[*s].name, show(&q.name), tname(q.qtype))).collect::<Vec<_>>(), r);
    }
    let Some((i, v, exp)) = r else {
        stats.count("history|all-steps-as-expected");
        return;
    };
    let replay = json!({
        "scenario": states[steps[0].0].name, "special": "history", "faults": [],
        "qname": show(&steps[i].1.name), "qtype": steps[i].1.qtype,
        "steps": steps.iter().map(|(s, q)| json!([states[*s].name, show(&q.name), q.qtype])).collect::<Vec<_>>(),
    });
    let cur = &states[steps[i].0];
    let truth = cur.classify(&steps[i].1.name, steps[i].1.qtype);
    if let Verdict::Panic(p) = &v {
        ctx.violation(&format!("C14|validator|panic|{}", panic_sig(p)), &format!("validator panicked ({p}) in step {i} of a history with one context"), replay);
        return;
    }
    if i == 0 {
        ctx.violation(
            &format!("C14|validator|unmodified-correctly-signed-reported-{}|state={}|answer={}", v.short(), state_label(cur), truth.short()),
            &format!("fresh context: authentic answer for {} {} in state {} reported {v:?}, expected {exp:?}", show(&steps[0].1.name), tname(steps[0].1.qtype), cur.name),
            replay,
        );
        return;
    }
    let prev = &states[steps[i - 1].0];
    ctx.violation(
        &format!("C14|validator|context-reuse|zone-re-signed|changed={}|answer={}|reported-{}", changed_dims(prev, cur), truth.short(), v.short()),
        &format!(
            "one ValidationContext: after validating {} the zone was re-signed ({} -> {}); the authentic answer of the new zone for {} {} is reported {v:?}, expected {exp:?}",
            steps[..i].iter().map(|(s, q)| format!("{} {} [{}]", show(&q.name), tname(q.qtype), states[*s].name)).collect::<Vec<_>>().join(", then "),
            prev.name,
            cur.name,
            show(&steps[i].1.name),
            tname(steps[i].1.qtype)
        ),
        replay,
    );
}

/// Run one Connection request with flags and report.
fn judge_flags(ctx: &Ctx, stats: &Stats, h: &Arc<Hier>, q: &Query, faults: &Arc<Vec<Fault>>, ta: bool, flags: (bool, bool, bool, bool, bool), verbose: bool) {
    let (ad, dok, cd, up_ad, up_opt) = flags;
    let ta_text = if ta { h.ta_text.clone() } else { String::new() };
    let outcome = verdict_with_ta(h, q, faults, &ta_text);
    let Verdict::State(o) = &outcome else {
        stats.count("connection-flags|skipped-no-validation-state");
        return;
    };
    stats.eval();
    stats.distinct(fnv(format!("flags|{}|{}|{}|{:?}|{ta}|{flags:?}", h.name, show(&q.name), q.qtype, faults).as_bytes()));
    let (reply, delivered) = run_conn_flags(h, q, faults, &ta_text, ad, dok, cd, up_ad, up_opt);
    stats.count(&format!("connection-flags|outcome={o}"));
    let replay = json!({"scenario": h.name, "special": "connection-flags", "qname": show(&q.name), "qtype": q.qtype, "faults": serde_json::to_value(&**faults).unwrap(),
        "trust_anchor": ta, "request_ad": ad, "request_do": dok, "request_cd": cd, "upstream_ad": up_ad, "upstream_opt": up_opt});
    let req = format!("request-ad={}-do={}-cd={}", ad as u8, dok as u8, cd as u8);
    match reply {
        Err(e) if e.starts_with("panic") => {
            ctx.violation(&format!("C14|connection|panic|{}", panic_sig(e.trim_start_matches("panic: "))), &format!("Connection panicked: {e}"), replay);
        }
        Err(e) => {
            ctx.violation(&format!("C14|connection|reply-postprocessing|error-instead-of-reply|outcome={o}|{req}"), &format!("Connection returned {e} for an answer that validate_msg reports as {o}"), replay);
        }
        Ok(bytes) => {
            let bad = check_postprocess(o, ad, dok, cd, &bytes, &delivered);
            if verbose {
                println!("connection-flags {} {} {} outcome {o} {req} upstream-ad={up_ad}: reply flags {:02x}{:02x} findings {bad:?}", h.name, show(&q.name), tname(q.qtype), bytes[2], bytes[3]);
            }
            // information only: RFC 4035 3.2.2 wants CD copied from the query
            if (bytes[3] & 0x10 != 0) != cd {
                stats.count(&format!("info|connection-reply-cd-differs-from-request-cd|outcome={o}"));
            }
            for b in bad {
                ctx.violation(
                    &format!("C14|connection|reply-postprocessing|{b}|outcome={o}|{req}"),
                    &format!("Connection reply for {} {} (scenario {}, validate_msg says {o}; request AD={ad} DO={dok} CD={cd}; upstream AD={up_ad}): {b}; reply header flags {:02x}{:02x}", show(&q.name), tname(q.qtype), h.name, bytes[2], bytes[3]),
                    replay.clone(),
                );
            }
        }
    }
}

// ------------------------------------------------------------ histories in which TIME PASSES on one context
//
// Hook `dnssec::validator::verif_clock` (feature verif-hooks): a per-thread offset added to both clocks the
// validator reads (Timestamp::now() for signature validity and ttl_for_sig, Instant for the age of cached
// nodes).  A history is executed on ONE thread: the offset is set before every validation (the harness'
// block_on polls the validation future on the calling thread) and reset to 0 before and after the history.
//
// All times `x` below are seconds relative to a base B fixed at the start of the run (B = start + 100000,
// so that the offset B + x - real_now is never negative); the signatures are made for absolute windows
// [B + inc, B + exp].

use domain::dnssec::validator::verif_clock;

/// TTL of every record of the hierarchies (see `rec`); the RRSIG validity ends of the schedules are short
/// compared with it.
const TIME_TTL: i64 = 3600;
/// Default of Config::max_node_validity / the value configured in config variant 1.
const TIME_MAXV_DEFAULT: i64 = 604_800;
const TIME_MAXV_SHORT: i64 = 250;
/// Default of Config::max_bogus_validity: a Bogus node may be kept this long.
const TIME_BOGUS_VALIDITY: i64 = 30;
const TIME_PAST: i64 = -86_400;
const TIME_FAR: i64 = 2_000_000;

#[derive(Clone, Copy, PartialEq, Eq, Hash, PartialOrd, Ord, Debug)]
enum LinkKind {
    /// RRSIG of an ordinary RRset of a zone (answer data, SOA of a negative answer)
    Data,
    /// RRSIG of an NSEC / NSEC3 RRset of a zone
    Denial,
    /// RRSIG of the zone's DNSKEY RRset
    Key,
    /// RRSIG (made by the parent) of the DS RRset for the zone
    Ds,
}

/// One link of a chain of trust: all RRSIGs of one kind of one zone share one validity window.
#[derive(Clone, Copy, PartialEq, Eq, Hash, PartialOrd, Ord, Debug)]
struct Link {
    kind: LinkKind,
    /// zone index; for Ds the CHILD zone
    zone: usize,
}

fn link_of(h: &Hier, zi: usize, srck: &Labels, t: u16) -> Link {
    match t {
        T_DNSKEY => Link { kind: LinkKind::Key, zone: zi },
        T_DS => match h.zones.iter().position(|z| !z.apex.is_empty() && key(&z.apex) == *srck) {
            Some(c) => Link { kind: LinkKind::Ds, zone: c },
            None => Link { kind: LinkKind::Data, zone: zi },
        },
        T_NSEC | T_NSEC3 => Link { kind: LinkKind::Denial, zone: zi },
        _ => Link { kind: LinkKind::Data, zone: zi },
    }
}

fn link_name(h: &Hier, l: Link) -> String {
    let k = match l.kind {
        LinkKind::Data => "data-rrsig",
        LinkKind::Denial => "denial-rrsig",
        LinkKind::Key => "dnskey-rrsig",
        LinkKind::Ds => "ds-rrsig",
    };
    format!("{k}@{}", show(&h.zones[l.zone].apex))
}

/// Which signatures the upstream hands out.
#[derive(Clone, Copy, PartialEq, Eq, Debug)]
enum Sched {
    /// nothing expires within any horizon of the menu
    None,
    /// link k (index into the link order) expires at +100 s, the others at +200, +300, ... in link order
    Expire(usize),
    /// link k becomes valid only at +100 s; everything else is valid from the past to the far future
    Incept(usize),
}

#[derive(Clone, Copy, PartialEq, Eq, Debug)]
enum Ver {
    /// the records as originally signed (windows of the schedule)
    Orig,
    /// re-signed at virtual time x: [x - 3600, x + 86400]
    Fresh(i64),
}

#[derive(Clone, Debug)]
struct Served {
    set: (usize, Labels, u16),
    link: Link,
    inc: i64,
    exp: i64,
    ttl: i64,
}

impl Served {
    /// valid at some / at every second of [lo, hi]
    fn valid_some(&self, lo: i64, hi: i64) -> bool {
        self.inc <= hi && lo <= self.exp
    }
    fn valid_all(&self, lo: i64, hi: i64) -> bool {
        self.inc <= lo && hi <= self.exp
    }
}

/// One RRset of the chain from the trust anchor to a zone, with the upstream question that delivers it.
#[derive(Clone, Debug)]
struct ChainSet {
    set: (usize, Labels, u16),
    link: Link,
    /// needed for a Secure verdict: DS and DNSKEY RRsets (not the records of a negative DS response)
    strict: bool,
}

struct TimeCtx {
    h: Arc<Hier>,
    base: i64,
    /// links touched by the query menu, leaf zone first
    links: Vec<Link>,
    queries: Vec<Query>,
    memo: std::sync::RwLock<std::collections::HashMap<(usize, Labels, u16, i64, i64), Vec<u8>>>,
    /// per zone: the RRsets of its chain
    chains: Vec<Vec<ChainSet>>,
}

fn unix_now() -> i64 {
    std::time::SystemTime::now().duration_since(std::time::UNIX_EPOCH).unwrap().as_secs() as i64
}

impl TimeCtx {
    fn new(h: &Arc<Hier>, base: i64, queries: Vec<Query>) -> TimeCtx {
        let mut chains = vec![];
        for z in &h.zones {
            chains.push(time_chain(h, &z.apex));
        }
        let mut tc = TimeCtx { h: h.clone(), base, links: vec![], queries, memo: Default::default(), chains };
        // links touched by the menu: RRsets of the answers and of the chains of the zones involved
        let mut links: BTreeSet<Link> = BTreeSet::new();
        for q in &tc.queries {
            let r = h.answer(&q.name, q.qtype);
            let mut zones: BTreeSet<usize> = BTreeSet::new();
            zones.insert(h.classify(&q.name, q.qtype).zone());
            for p in sets_of(&r) {
                if p.s < 2 && !p.sigids.is_empty() {
                    links.insert(link_of(h, p.zi, &p.srck, p.t));
                    zones.insert(p.zi);
                }
            }
            for z in zones {
                for c in &tc.chains[z] {
                    links.insert(c.link);
                }
            }
        }
        // leaf zone first, the anchor zone last
        let rank = |z: usize| match z {
            0 => 1000,
            1 => 999,
            z => z,
        };
        let mut v: Vec<Link> = links.into_iter().collect();
        v.sort_by_key(|l| (rank(l.zone), l.kind));
        tc.links = v;
        tc
    }

    fn window(&self, sched: Sched, ver: Ver, link: Link) -> (i64, i64) {
        if let Ver::Fresh(x) = ver {
            return (x - 3600, x + 86_400);
        }
        let pos = self.links.iter().position(|l| *l == link);
        match (sched, pos) {
            (Sched::Expire(k), Some(i)) => {
                if i == k {
                    (TIME_PAST, 100)
                } else {
                    let r = if i < k { i } else { i - 1 };
                    (TIME_PAST, 200 + 100 * r as i64)
                }
            }
            (Sched::Incept(k), Some(i)) if i == k => (100, TIME_FAR),
            _ => (TIME_PAST, TIME_FAR),
        }
    }

    /// RRSIG RDATA for the RRset (zone, source owner, type) with the window [base+inc, base+exp]; one
    /// signature per (RRset, window) for the whole run, so that a replayed record is octet-identical.
    fn sig(&self, zi: usize, srck: &Labels, t: u16, inc: i64, exp: i64) -> Vec<u8> {
        let k = (zi, srck.clone(), t, inc, exp);
        if let Some(v) = self.memo.read().unwrap().get(&k) {
            return v.clone();
        }
        let z = &self.h.zones[zi];
        let (ttl, rds) = z.sets.get(&(srck.clone(), t)).expect("MACHINERY: time upstream signs a set of the zone");
        let sk = z.key.as_ref().expect("MACHINERY: secure zone has a key");
        let v = sign_set(sk, &unkey(srck), t, *ttl, rds, (self.base + inc) as u32, (self.base + exp) as u32);
        self.memo.write().unwrap().entry(k).or_insert(v).clone()
    }

    /// Replace every RRSIG of `r` by the one of version `ver`; returns what is now in the response.
    fn retime(&self, r: &mut Resp, sched: Sched, ver: Ver) -> Vec<Served> {
        let mut out = vec![];
        for p in sets_of(r) {
            if p.sigids.is_empty() {
                continue;
            }
            assert!(p.sigids.len() == 1, "MACHINERY: one RRSIG per RRset expected in the time hierarchies");
            let link = link_of(&self.h, p.zi, &p.srck, p.t);
            let (inc, exp) = self.window(sched, ver, link);
            let rd = self.sig(p.zi, &p.srck, p.t, inc, exp);
            let ttl = self.h.zones[p.zi].sets.get(&(p.srck.clone(), p.t)).map(|s| s.0).unwrap_or(0) as i64;
            if let Some(e) = r.get_mut(p.sigids[0]) {
                e.rr.rdata = rd;
            }
            if p.s < 2 {
                out.push(Served { set: (p.zi, p.srck.clone(), p.t), link, inc, exp, ttl });
            }
        }
        out
    }
}

/// The RRsets the validator needs to get from the trust anchor (the root) to the zone `apex`: for every
/// name on the way the DS response (DS RRset, or the NSEC/NSEC3 proof that there is none) and the DNSKEY
/// RRset of every zone apex.
fn time_chain(h: &Hier, apex: &Labels) -> Vec<ChainSet> {
    let mut out: Vec<ChainSet> = vec![];
    let mut n = apex.clone();
    loop {
        let is_apex = h.zones.iter().any(|z| z.apex == n && z.secure);
        if is_apex {
            let r = h.answer(&n, T_DNSKEY);
            for p in sets_of(&r) {
                if p.s == 0 && p.t == T_DNSKEY {
                    out.push(ChainSet { set: (p.zi, p.srck.clone(), p.t), link: link_of(h, p.zi, &p.srck, p.t), strict: true });
                }
            }
        }
        if n.is_empty() {
            break;
        }
        let r = h.answer(&n, T_DS);
        for p in sets_of(&r) {
            if p.s >= 2 || p.sigids.is_empty() {
                continue;
            }
            // The proof that a name on the way is NOT a zone cut (empty non-terminal) or has no DS only steers
            // the validator's search; the cryptographic chain is DNSKEY -> DS -> DNSKEY, so only those are
            // demanded for a Secure verdict (the proofs count for the liveness half).
            let strict = p.t == T_DS;
            out.push(ChainSet { set: (p.zi, p.srck.clone(), p.t), link: link_of(h, p.zi, &p.srck, p.t), strict });
        }
        n = parent(&n);
    }
    out
}

#[derive(Clone, Copy, PartialEq, Eq, Debug)]
enum UpMode {
    /// the upstream replays the records as originally signed
    Replay,
    /// the upstream serves records re-signed at the time of the step
    Fresh,
}

#[derive(Clone, Debug)]
struct TStep {
    x: i64,
    q: usize,
    mode: UpMode,
}

#[derive(Clone, Debug)]
struct THist {
    sched: Sched,
    /// 0 default Config, 1 set_max_validity(250 s)
    cfg: u8,
    steps: Vec<TStep>,
}

struct TimeShared {
    tc: Arc<TimeCtx>,
    sched: Sched,
    cur: Mutex<(Ver, i64, usize)>,
    log: Mutex<Vec<(usize, i64, Served)>>,
    calls: AtomicUsize,
    over: AtomicBool,
}

#[derive(Clone)]
struct TimeUp(Arc<TimeShared>);

impl SendRequest<RequestMessage<Vec<u8>>> for TimeUp {
    fn send_request(&self, req: RequestMessage<Vec<u8>>) -> Box<dyn GetResponse + Send + Sync> {
        let s = &self.0;
        let n = s.calls.fetch_add(1, AO::SeqCst) + 1;
        if n > BUDGET {
            s.over.store(true, AO::SeqCst);
            return Box::new(Ready(Some(Err(ReqError::ConnectionClosed))));
        }
        let q = req.to_vec().ok().and_then(|v| mc::wire::read_message(&v).ok()).and_then(|m| m.questions.first().cloned());
        let Some(q) = q else {
            return Box::new(Ready(Some(Err(ReqError::FormError))));
        };
        let (ver, x, step) = *s.cur.lock().unwrap();
        let mut r = s.tc.h.answer(&q.qname, q.qtype);
        let served = s.tc.retime(&mut r, s.sched, ver);
        {
            let mut g = s.log.lock().unwrap();
            for sv in served {
                g.push((step, x, sv));
            }
        }
        Box::new(Ready(Some(Message::from_octets(Bytes::from(r.encode())).map_err(|_| ReqError::ShortMessage))))
    }
}

struct StepObs {
    verdict: Verdict,
    /// the validator's clock during the step: x .. x + (ticks of the real clock during the step)
    lo: i64,
    hi: i64,
    msg: Vec<Served>,
    over: bool,
    calls: usize,
}

/// Resets the thread's clock offset when an execution ends, however it ends.
struct OffsetReset;
impl Drop for OffsetReset {
    fn drop(&mut self) {
        verif_clock::set_offset_secs(0);
    }
}

fn run_time_history(tc: &Arc<TimeCtx>, hist: &THist) -> (Vec<StepObs>, Vec<(usize, i64, Served)>) {
    let _reset = OffsetReset;
    verif_clock::set_offset_secs(0);
    let shared = Arc::new(TimeShared { tc: tc.clone(), sched: hist.sched, cur: Mutex::new((Ver::Orig, 0, 0)), log: Mutex::new(vec![]), calls: AtomicUsize::new(0), over: AtomicBool::new(false) });
    let ta = TrustAnchors::from_u8(tc.h.ta_text.as_bytes()).expect("trust anchor");
    let mut cfg = VConfig::new();
    if hist.cfg == 1 {
        cfg.set_max_validity(Duration::from_secs(TIME_MAXV_SHORT as u64));
    }
    let vc = ValidationContext::with_config(ta, TimeUp(shared.clone()), cfg);
    let mut obs = vec![];
    for (i, st) in hist.steps.iter().enumerate() {
        let ver = if i == 0 || st.mode == UpMode::Replay { Ver::Orig } else { Ver::Fresh(st.x) };
        *shared.cur.lock().unwrap() = (ver, st.x, i);
        shared.calls.store(0, AO::SeqCst);
        shared.over.store(false, AO::SeqCst);
        let q = &tc.queries[st.q];
        let mut r = tc.h.answer(&q.name, q.qtype);
        let msg = tc.retime(&mut r, hist.sched, ver);
        let bytes = r.encode();
        let u0 = unix_now();
        let off = tc.base + st.x - u0;
        assert!(off >= 0, "MACHINERY: the run outlived the base of the virtual clock");
        verif_clock::set_offset_secs(off as u64);
        let mut m = Message::from_octets(bytes).expect("message");
        let verdict = match guard(|| block_on(async { vc.validate_msg::<Vec<u8>, Vec<u8>>(&mut m).await })) {
            Ok(Ok((s, _))) => Verdict::State(state_name(s).into()),
            Ok(Err(e)) => Verdict::Err(format!("{e}")),
            Err(p) => Verdict::Panic(p),
        };
        let u1 = unix_now();
        assert_eq!(verif_clock::offset_secs(), off as u64, "MACHINERY: the clock offset of the thread changed during a validation");
        verif_clock::set_offset_secs(0);
        let stop = matches!(verdict, Verdict::Panic(_));
        obs.push(StepObs { verdict, lo: st.x, hi: st.x + (u1 - u0), msg, over: shared.over.load(AO::SeqCst), calls: shared.calls.load(AO::SeqCst) });
        if stop {
            break;
        }
    }
    let log = shared.log.lock().unwrap().clone();
    (obs, log)
}

fn sched_json(tc: &TimeCtx, s: Sched) -> Value {
    match s {
        Sched::None => json!({"kind": "none"}),
        Sched::Expire(k) => json!({"kind": "expire", "link": link_name(&tc.h, tc.links[k]), "index": k}),
        Sched::Incept(k) => json!({"kind": "incept", "link": link_name(&tc.h, tc.links[k]), "index": k}),
    }
}

fn thist_json(tc: &TimeCtx, hist: &THist, at: usize) -> Value {
    let q = &tc.queries[hist.steps[at.min(hist.steps.len() - 1)].q];
    json!({
        "scenario": tc.h.name, "special": "time-history", "faults": [],
        "qname": show(&q.name), "qtype": q.qtype,
        "schedule": sched_json(tc, hist.sched), "config": hist.cfg,
        "steps": hist.steps.iter().map(|s| json!([s.x, show(&tc.queries[s.q].name), tc.queries[s.q].qtype, if s.mode == UpMode::Replay { "replay" } else { "fresh" }])).collect::<Vec<_>>(),
    })
}

/// Zones whose chain the answer to `q` depends on: the zone of the (final) name and every secure zone
/// that signed an RRset of the message.
fn time_zones(h: &Hier, q: &Query, msg: &[Served]) -> BTreeSet<usize> {
    let mut zones: BTreeSet<usize> = msg.iter().map(|s| s.set.0).collect();
    let mut name = q.name.clone();
    for _ in 0..8 {
        let t = h.classify(&name, q.qtype);
        zones.insert(t.zone());
        match t {
            Truth::Cname { target, .. } | Truth::Dname { target, .. } => name = target,
            _ => break,
        }
    }
    zones
}

/// Oracle for one executed history; the times come from the schedule the harness chose itself.
/// The validator reads the real clock (plus the harness's shift). A history that crosses a
/// second boundary of the real clock at an unlucky moment can differ from the schedule the oracle
/// assumes by one second; on a heavily loaded machine this happened once (benign change C14-1).
/// Following "replay a recorded schedule twice before trusting a failure", a history that shows a
/// violation is executed again on a fresh context and only the classes that show again are
/// reported; a genuine defect is deterministic and shows both times.
fn judge_time_history(ctx: &Ctx, stats: &Stats, tc: &Arc<TimeCtx>, hist: &THist, verbose: bool) {
    let mut first = Vec::new();
    judge_time_history_once(stats, tc, hist, verbose, &mut first);
    if first.is_empty() {
        return;
    }
    let scratch = Stats::new();
    let mut second = Vec::new();
    judge_time_history_once(&scratch, tc, hist, false, &mut second);
    for (sig, what, j) in first {
        if second.iter().any(|x| x.0 == sig) {
            ctx.violation(&sig, &what, j);
        } else {
            stats.count("time|violation-not-reproduced-when-the-history-was-executed-again");
        }
    }
}

fn tviol(out: &mut Vec<(String, String, Value)>, sig: &str, what: &str, j: Value) {
    out.push((sig.to_string(), what.to_string(), j));
}

fn judge_time_history_once(stats: &Stats, tc: &Arc<TimeCtx>, hist: &THist, verbose: bool, out: &mut Vec<(String, String, Value)>) {
    let (obs, log) = run_time_history(tc, hist);
    let h = &tc.h;
    let maxv = if hist.cfg == 1 { TIME_MAXV_SHORT } else { TIME_MAXV_DEFAULT };
    stats.count("time|histories");
    let mut clean: Vec<bool> = vec![];
    for (i, o) in obs.iter().enumerate() {
        stats.eval();
        let st = &hist.steps[i];
        let q = &tc.queries[st.q];
        let mode = if i == 0 { "original" } else if st.mode == UpMode::Replay { "replay" } else { "fresh" };
        let ver = if i == 0 || st.mode == UpMode::Replay { Ver::Orig } else { Ver::Fresh(st.x) };
        stats.count(&format!("time|verdict|{}", o.verdict.short()));
        if o.hi != o.lo {
            stats.count("time|steps-during-which-the-real-clock-ticked");
        }
        let zones = time_zones(h, q, &o.msg);
        // ---- safety: Secure => every link valid at the time of the step
        // (a) the RRsets of the validated message carry their own signatures
        let mut broken: Vec<(Link, &'static str, &'static str)> = vec![];
        for s in &o.msg {
            if !s.valid_some(o.lo, o.hi) {
                broken.push((s.link, "message", if s.exp < o.lo { "rrsig-expired" } else { "rrsig-not-yet-valid" }));
            }
        }
        // (b) the chain: some delivered version of the RRset must be valid now, and must have been
        // delivered within its TTL and the configured maximum node validity
        for z in &zones {
            for c in tc.chains[*z].iter().filter(|c| c.strict) {
                let dl: Vec<&(usize, i64, Served)> = log.iter().filter(|d| d.0 <= i && d.2.set == c.set).collect();
                let valid: Vec<&&(usize, i64, Served)> = dl.iter().filter(|d| d.2.valid_some(o.lo, o.hi)).collect();
                if valid.is_empty() {
                    let cause = if dl.iter().all(|d| d.2.exp < o.lo) { "rrsig-expired" } else if dl.iter().all(|d| d.2.inc > o.hi) { "rrsig-not-yet-valid" } else { "rrsig-not-valid" };
                    broken.push((c.link, "chain", cause));
                } else if !valid.iter().any(|d| o.hi - d.1 <= d.2.ttl.min(maxv) + 1) {
                    broken.push((c.link, "chain", "link-cached-beyond-ttl-or-max-validity"));
                }
            }
        }
        broken.sort();
        broken.dedup();
        if !broken.is_empty() {
            stats.count("time|steps-with-a-link-not-valid");
            if broken.iter().all(|b| b.1 == "chain") {
                stats.count("time|steps-with-valid-message-but-chain-link-not-valid");
            }
            if o.verdict.secure() {
                stats.count("time|steps-with-a-link-not-valid|reported-secure");
            }
        }
        // ---- liveness: everything the upstream serves in this step is valid, and no Bogus node can be left over
        let all_served_valid = o.msg.iter().all(|s| s.valid_all(o.lo, o.hi))
            && zones.iter().all(|z| {
                tc.chains[*z].iter().all(|c| {
                    let (inc, exp) = tc.window(hist.sched, ver, c.link);
                    inc <= o.lo && o.hi <= exp
                })
            });
        let leftovers = (0..i).any(|p| !clean[p] && o.lo - obs[p].hi <= TIME_BOGUS_VALIDITY + 1);
        clean.push(all_served_valid && !leftovers);
        let expected = expected_unmodified(h, q);
        if verbose {
            println!(
                "  step {i}: x={} {} {} upstream={mode}: verdict {:?} (upstream calls {}), links not valid: {:?}, liveness demanded: {}",
                st.x,
                show(&q.name),
                tname(q.qtype),
                o.verdict,
                o.calls,
                broken.iter().map(|b| format!("{} [{}: {}]", link_name(h, b.0), b.1, b.2)).collect::<Vec<_>>(),
                all_served_valid && !leftovers
            );
            for d in log.iter().filter(|d| d.0 == i) {
                println!("      delivered {} {} {} window [{}, {}]", link_name(h, d.2.link), show(&unkey(&d.2.set.1)), tname(d.2.set.2), d.2.inc, d.2.exp);
            }
        }
        let hist_text = || {
            hist.steps[..=i]
                .iter()
                .enumerate()
                .map(|(n, s)| format!("t={} {} {} [{}]", s.x, show(&tc.queries[s.q].name), tname(tc.queries[s.q].qtype), if n == 0 { "original" } else if s.mode == UpMode::Replay { "replay" } else { "fresh" }))
                .collect::<Vec<_>>()
                .join(" -> ")
        };
        if let Verdict::Panic(p) = &o.verdict {
            tviol(out, &format!("C14|validator|panic|{}", panic_sig(p)), &format!("validator panicked ({p}) in step {i} of a history in which time passes on one context: {} (scenario {})", hist_text(), h.name), thist_json(tc, hist, i));
            return;
        }
        if o.over {
            tviol(out, "C14|validator|time-passes|upstream-budget-exceeded", &format!("more than {BUDGET} upstream queries for one validation in a history in which time passes: {} (scenario {})", hist_text(), h.name), thist_json(tc, hist, i));
        }
        if o.verdict.secure() {
            if expected != vec!["Secure"] {
                tviol(out, 
                    "C14|validator|time-passes|secure-below-insecure-delegation",
                    &format!("Secure reported for {} {} which lies in a zone without a secure delegation: {} (scenario {})", show(&q.name), tname(q.qtype), hist_text(), h.name),
                    thist_json(tc, hist, i),
                );
            } else if let Some(b) = broken.first() {
                stats.count("time|violations-of-secure-implies-all-links-valid");
                let qz = h.classify(&q.name, q.qtype).zone();
                let rel = if b.0.zone == qz { "answer-zone" } else { "other-zone-of-the-chain" };
                let kind = link_name(h, b.0);
                let kind = kind.split('@').next().unwrap_or("");
                tviol(out, 
                    &format!("C14|validator|time-passes|secure-although-{}|link={kind}-of-{rel}|in={}|upstream={mode}", b.2, b.1),
                    &format!(
                        "one ValidationContext, time passes: {} (scenario {}, schedule {}, config {}); the last step is reported Secure although at that time {} ({}): {}",
                        hist_text(),
                        h.name,
                        sched_json(tc, hist.sched),
                        hist.cfg,
                        link_name(h, b.0),
                        b.1,
                        b.2
                    ),
                    thist_json(tc, hist, i),
                );
            } else {
                stats.count("time|secure-with-all-links-valid");
            }
        } else if all_served_valid && !leftovers {
            if !expected.contains(&o.verdict.short().as_str()) {
                let sk = match hist.sched {
                    Sched::None => "none",
                    Sched::Expire(_) => "expire",
                    Sched::Incept(_) => "incept",
                };
                tviol(out, 
                    &format!("C14|validator|time-passes|all-links-valid-and-served-but-reported-{}|schedule={sk}|upstream={mode}|step={i}", o.verdict.short()),
                    &format!(
                        "one ValidationContext, time passes: {} (scenario {}, schedule {}, config {}); in the last step every RRSIG the upstream serves is valid and no Bogus node can be left over (max_bogus_validity), but the authentic answer is reported {:?}, expected {expected:?}",
                        hist_text(),
                        h.name,
                        sched_json(tc, hist.sched),
                        hist.cfg,
                        o.verdict
                    ),
                    thist_json(tc, hist, i),
                );
            } else {
                stats.count("time|insecure-as-expected-with-all-links-valid");
            }
        } else {
            stats.count("time|not-secure-and-not-demanded");
        }
        if all_served_valid && !leftovers {
            stats.count("time|steps-where-the-expected-verdict-is-demanded");
        }
    }
}

/// The times of the second step for a schedule; `full`: just before / at / just after EVERY validity end,
/// otherwise that only for the first end and just after for the others.
fn time_menu(tc: &TimeCtx, sched: Sched, full: bool) -> Vec<i64> {
    let n = tc.links.len() as i64;
    let mut v: Vec<i64> = vec![0];
    match sched {
        Sched::Expire(_) => {
            v.extend([99, 100, 101]);
            for r in 0..n - 1 {
                let t = 200 + 100 * r;
                if full {
                    v.extend([t - 1, t, t + 1]);
                } else {
                    v.push(t + 1);
                }
            }
            v.extend([TIME_TTL - 1, TIME_TTL, TIME_TTL + 2, 700_000]);
        }
        Sched::Incept(_) => v.extend([99, 100, 101, 140]),
        Sched::None => v.extend([60, TIME_MAXV_SHORT - 1, TIME_MAXV_SHORT, TIME_MAXV_SHORT + 2, TIME_TTL - 1, TIME_TTL, TIME_TTL + 2, TIME_MAXV_DEFAULT - 1, TIME_MAXV_DEFAULT, TIME_MAXV_DEFAULT + 2, 700_000]),
    }
    v
}

struct TimePlan {
    tc: Arc<TimeCtx>,
    hists: Vec<THist>,
    summary: Value,
}

/// All histories of one scenario: schedule x config x (t1, upstream mode) x (q1, q2) [x third step].
fn time_plan(tc: Arc<TimeCtx>, q1s: &[usize], q2s: &[usize], quick: bool) -> TimePlan {
    let n = tc.links.len();
    let mut scheds = vec![Sched::None];
    scheds.extend((0..n).map(Sched::Expire));
    scheds.extend((0..n).map(Sched::Incept));
    let mut hists = vec![];
    let (mut two, mut three) = (0u64, 0u64);
    let mut menu_sizes = serde_json::Map::new();
    for &sched in &scheds {
        let menu = time_menu(&tc, sched, !quick);
        menu_sizes.insert(match sched { Sched::None => "none", Sched::Expire(_) => "expire", Sched::Incept(_) => "incept" }.into(), json!(menu.len()));
        // the short maximum node validity: with every schedule in the thorough tier, with "nothing expires" in quick
        let cfgs: &[u8] = if sched == Sched::None || !quick { &[0, 1] } else { &[0] };
        for &cfg in cfgs {
            for &q1 in q1s {
                for &q2 in q2s {
                    for &t1 in &menu {
                        for m1 in [UpMode::Replay, UpMode::Fresh] {
                            let s0 = TStep { x: 0, q: q1, mode: UpMode::Replay };
                            let s1 = TStep { x: t1, q: q2, mode: m1 };
                            hists.push(THist { sched, cfg, steps: vec![s0.clone(), s1.clone()] });
                            two += 1;
                            // third step: around the first validity end (quick) / after every time of the menu (thorough);
                            // no further time, one second, and beyond the lifetime of a Bogus node
                            let around_first = matches!(sched, Sched::Expire(_) | Sched::Incept(_)) && (t1 == 100 || t1 == 101 || t1 == 99);
                            if cfg != 0 || !(around_first || !quick) || sched == Sched::None {
                                continue;
                            }
                            for dt in [0, 1, TIME_BOGUS_VALIDITY + 2] {
                                for m2 in [UpMode::Replay, UpMode::Fresh] {
                                    let q3s: Vec<usize> = if q1 == q2 { vec![q1] } else { vec![q1, q2] };
                                    for q3 in q3s {
                                        hists.push(THist { sched, cfg, steps: vec![s0.clone(), s1.clone(), TStep { x: t1 + dt, q: q3, mode: m2 }] });
                                        three += 1;
                                    }
                                }
                            }
                        }
                    }
                }
            }
        }
    }
    let summary = json!({
        "scenario": tc.h.name,
        "links": tc.links.iter().map(|l| link_name(&tc.h, *l)).collect::<Vec<_>>(),
        "schedules": scheds.len(),
        "queries": tc.queries.iter().map(|q| format!("{} {}", show(&q.name), tname(q.qtype))).collect::<Vec<_>>(),
        "first_queries": q1s.len(), "second_queries": q2s.len(),
        "times_of_second_step": menu_sizes,
        "two_step_histories": two, "three_step_histories": three,
    });
    TimePlan { tc, hists, summary }
}

fn main() {
    let ctx = Ctx::new("C14", "fault_enumeration");
    let now = std::time::SystemTime::now().duration_since(std::time::UNIX_EPOCH).unwrap().as_secs() as u32;
    let quick = ctx.quick();
    let sp = |name, kind, nsec3, opt_out, decoy, extra| Spec { name, kind, nsec3, opt_out, decoy, extra, zone_denial: None, records_changed: false, zsk: None, root_ksk: None, redirect: false };
    let specs: Vec<Spec> = vec![
        sp("S1-nsec-secure", Kind::Secure, false, false, false, false),
        sp("S2-nsec3-secure", Kind::Secure, true, false, false, false),
        sp("S3-nsec-insecure-child", Kind::InsecureChild, false, false, false, false),
        sp("S3b-nsec3-insecure-child", Kind::InsecureChild, true, false, false, false),
        sp("S6-nsec-secure-colliding-key-tag", Kind::Secure, false, false, true, false),
        sp("S5-nsec3-optout-insecure-child", Kind::InsecureChild, true, true, false, false),
        // only for the context-reuse cases, never fault-enumerated
        sp("SX-nsec-secure-sibling-and-shared-ent-zones", Kind::Secure, false, false, false, true),
    ];
    let sx = specs.len() - 1;
    // states of the SAME hierarchy after zone.tld. has been re-signed (keys of root, tld. and the DS constant)
    let (zk, zrd) = gen_key("zone.tld.");
    let hs = |name, zone_denial, records_changed, zsk| Spec { name, kind: Kind::Secure, nsec3: true, opt_out: false, decoy: false, extra: false, zone_denial, records_changed, zsk, root_ksk: None, redirect: false };
    let n3 = |salt: u8, iters: u16| Some(Denial::Nsec3 { salt: vec![salt], iters, opt_out: false });
    let mut specs = specs;
    let hist0 = specs.len();
    specs.extend(vec![
        hs("H0-zone-nsec3-salt01-iterations2", n3(1, 2), false, None),
        hs("H1-zone-nsec3-salt02-iterations2", n3(2, 2), false, None),
        hs("H2-zone-nsec3-salt01-iterations3", n3(1, 3), false, None),
        hs("H3-zone-nsec", Some(Denial::Nsec), false, None),
        hs("H4-zone-nsec3-salt01-iterations2-records-added-and-removed", n3(1, 2), true, None),
        hs("H5-zone-nsec-records-added-and-removed", Some(Denial::Nsec), true, None),
        hs("H6-second-key-published-first-key-signs", n3(1, 2), false, Some((zk.clone(), zrd.clone(), false))),
        hs("H7-second-key-published-second-key-signs", n3(1, 2), false, Some((zk, zrd, true))),
        // only for the configuration cases
        hs("S7-nsec3-secure-zone-with-150-iterations", n3(1, 150), false, None),
    ]);
    let s7 = specs.len() - 1;
    // the S1 hierarchy signed around four other readings of the wall clock, the validator's clock set to
    // that reading (hook verif_clock): signature times are 32-bit serial numbers (RFC 4034 3.1.5), the
    // validity windows straddle the 2^32 wrap resp. the 2^31 sign boundary
    let wrap0 = specs.len();
    let wrap_clocks: [(&'static str, u32); 4] = [
        ("W1-nsec-secure-clock-12h-before-the-2^32-wrap", 0xFFFF_FFFFu32 - 43_200),
        ("W2-nsec-secure-clock-12h-after-the-2^32-wrap", 43_200),
        ("W3-nsec-secure-clock-12h-before-2^31", 0x8000_0000u32 - 43_200),
        ("W4-nsec-secure-clock-12h-after-2^31", 0x8000_0000u32 + 43_200),
    ];
    for (n, _) in wrap_clocks {
        specs.push(Spec { name: n, kind: Kind::Secure, nsec3: false, opt_out: false, decoy: false, extra: false, zone_denial: None, records_changed: false, zsk: None, root_ksk: None, redirect: false });
    }
    // the redirect dimension: the S1 / S2 / S3 hierarchies with DNAMEs (at owners with and without other data;
    // targets in the same zone, the parent zone and the secure resp. insecure child zone), DNAME->DNAME,
    // CNAME->DNAME, DNAME->CNAME and CNAME chains that end in data, NODATA and NXDOMAIN
    let redir0 = specs.len();
    for (n, kind, nsec3) in [("D1-nsec-secure-redirects", Kind::Secure, false), ("D2-nsec3-secure-redirects", Kind::Secure, true), ("D3-nsec-insecure-child-redirects", Kind::InsecureChild, false)] {
        specs.push(Spec { name: n, kind, nsec3, opt_out: false, decoy: false, extra: false, zone_denial: None, records_changed: false, zsk: None, root_ksk: None, redirect: true });
    }
    // histories of trust-anchor configuration: a second key K2 of the root.  For S1 it is a configured key
    // that is not (yet) published; the hierarchy R2 (thorough tier) publishes it and signs the root's
    // DNSKEY RRset with K2 only
    let (root_k2, root_k2_rd) = gen_key(".");
    let r2 = if !quick || ctx.replay.is_some() {
        specs.push(Spec { name: "R2-nsec-secure-root-dnskey-rrset-signed-by-second-key-only", kind: Kind::Secure, nsec3: false, opt_out: false, decoy: false, extra: false, zone_denial: None, records_changed: false, zsk: None, root_ksk: Some((root_k2, root_k2_rd.clone())), redirect: false });
        Some(specs.len() - 1)
    } else {
        None
    };
    let hiers: Vec<Arc<Hier>> = specs
        .par_iter()
        .enumerate()
        .map(|(i, s)| {
            let clock = if i >= wrap0 && i < wrap0 + wrap_clocks.len() { Some(wrap_clocks[i - wrap0].1) } else { None };
            let mut h = build_hier(s.clone(), clock.unwrap_or(now));
            h.clock = clock;
            Arc::new(h)
        })
        .collect();
    let run = Run { ctx: ctx.clone(), stats: Stats::new(), hiers, verbose: ctx.replay.is_some() };

    // time passes on one context: virtual clock base and the query menus per scenario
    let time_base = now as i64 + 100_000;
    let tq = |n: &str, t: u16| Query { name: nm(n), qtype: t };
    let time_q_zone = vec![tq("www.zone.tld.", T_A), tq("nx.zone.tld.", T_A), tq("www.tld.", T_A), tq("x.w.zone.tld.", T_A), tq("www.zone.tld.", T_TXT), tq("zone.tld.", T_DS), tq("nx.tld.", T_A)];
    let time_q_sx = vec![tq("www.tld.", T_A), tq("www.evil.tld.", T_A), tq("www.a.b.tld.", T_A), tq("www.x.b.tld.", T_A)];
    // (hierarchy, queries, number of first queries in the quick tier); S3 / S3b (insecure child) in the thorough tier only
    let mut time_scen: Vec<(usize, Vec<Query>, usize)> = vec![(0, time_q_zone.clone(), 3), (1, time_q_zone.clone(), 3), (sx, time_q_sx, 3)];
    if !quick || ctx.replay.is_some() {
        time_scen.push((2, time_q_zone.clone(), 3));
        time_scen.push((3, time_q_zone.clone(), 3));
    }
    let time_ctxs: Vec<Arc<TimeCtx>> = time_scen.iter().map(|(hi, qs, _)| Arc::new(TimeCtx::new(&run.hiers[*hi], time_base, qs.clone()))).collect();

    if std::env::var("C14_ANCHORS_ONLY").is_ok() {
        // development aid: the trust-anchor / configuration block alone (no evidence file)
        let t = std::time::Instant::now();
        let j = anchors_and_config(&ctx, &run.stats, &run.hiers, s7, r2, &root_k2_rd, None);
        println!("trust-anchor / configuration part: {} evaluations in {:.1} s\n{j}\n{}", run.stats.evals(), t.elapsed().as_secs_f64(), run.stats.counters_json());
        ctx.finish_quiet();
    }
    if let Some(path) = &ctx.replay {
        let v: Value = serde_json::from_str(&std::fs::read_to_string(path).expect("replay file")).expect("json");
        let c = &v["case"];
        let hi = run.hiers.iter().position(|h| h.name == c["scenario"].as_str().unwrap_or("")).expect("scenario");
        if c["special"].as_str() == Some("context-reuse-across-rrsig-expiry") {
            let r = run_across_expiry(&run.hiers[hi]);
            println!("context reuse across RRSIG expiry: {r:?}");
            if let Some((_, second, exp)) = r {
                if let Verdict::Panic(p) = &second {
                    ctx.violation(&format!("C14|validator|context-reuse-after-rrsig-expiry|panic|{}", panic_sig(p)), &format!("panic after expiry {exp}: {p}"), c.clone());
                } else if second.secure() {
                    ctx.violation("C14|validator|context-reuse-after-rrsig-expiry|expired-signature-reported-secure", "Secure after expiry", c.clone());
                }
            }
            ctx.finish(json!({"evaluations": 2, "distinct_nontrivial": 0, "rule": "replay", "samples": [c], "exhaustive": false}), &["replay of one case"]);
        }
        if c["special"].as_str() == Some("anchors-config") {
            anchors_and_config(&ctx, &run.stats, &run.hiers, s7, r2, &root_k2_rd, v["signature"].as_str().map(|s| s.to_string()));
            ctx.finish(json!({"evaluations": run.stats.evals(), "distinct_nontrivial": 0, "rule": "replay", "samples": [c], "exhaustive": false}), &["replay: the trust-anchor/configuration block is re-run, only the class of the replay file is reported"]);
        }
        if c["special"].as_str() == Some("history") {
            let steps: Vec<(usize, Query)> = c["steps"]
                .as_array()
                .expect("steps")
                .iter()
                .map(|s| (run.hiers[hist0..].iter().position(|h| h.name == s[0].as_str().unwrap()).expect("state"), Query { name: unshow(s[1].as_str().unwrap()), qtype: s[2].as_u64().unwrap() as u16 }))
                .collect();
            judge_history(&ctx, &run.stats, &run.hiers, hist0, &steps, true);
            ctx.finish(json!({"evaluations": run.stats.evals(), "distinct_nontrivial": 0, "rule": "replay", "samples": [c], "exhaustive": false}), &["replay of one case"]);
        }
        if c["special"].as_str() == Some("connection-flags") {
            let faults: Vec<Fault> = serde_json::from_value(c["faults"].clone()).expect("faults");
            let qq = Query { name: unshow(c["qname"].as_str().unwrap()), qtype: c["qtype"].as_u64().unwrap() as u16 };
            let b = |k: &str| c[k].as_bool().unwrap_or(false);
            judge_flags(&ctx, &run.stats, &run.hiers[hi], &qq, &Arc::new(faults), b("trust_anchor"), (b("request_ad"), b("request_do"), b("request_cd"), b("upstream_ad"), b("upstream_opt")), true);
            ctx.finish(json!({"evaluations": run.stats.evals(), "distinct_nontrivial": 0, "rule": "replay", "samples": [c], "exhaustive": false}), &["replay of one case"]);
        }
        if c["special"].as_str() == Some("time-history") {
            let tc = time_ctxs.iter().find(|t| t.h.name == c["scenario"].as_str().unwrap_or("")).expect("scenario of the time history");
            let idx = c["schedule"]["index"].as_u64().unwrap_or(0) as usize;
            let sched = match c["schedule"]["kind"].as_str() {
                Some("expire") => Sched::Expire(idx),
                Some("incept") => Sched::Incept(idx),
                _ => Sched::None,
            };
            let steps: Vec<TStep> = c["steps"]
                .as_array()
                .expect("steps")
                .iter()
                .map(|s| {
                    let (n, t) = (unshow(s[1].as_str().unwrap()), s[2].as_u64().unwrap() as u16);
                    TStep { x: s[0].as_i64().unwrap(), q: tc.queries.iter().position(|q| q.name == n && q.qtype == t).expect("query of the menu"), mode: if s[3].as_str() == Some("fresh") { UpMode::Fresh } else { UpMode::Replay } }
                })
                .collect();
            let hist = THist { sched, cfg: c["config"].as_u64().unwrap_or(0) as u8, steps };
            println!("replaying time history: scenario {} schedule {} config {} links {:?}", tc.h.name, c["schedule"], hist.cfg, tc.links.iter().map(|l| link_name(&tc.h, *l)).collect::<Vec<_>>());
            judge_time_history(&ctx, &run.stats, tc, &hist, true);
            ctx.finish(json!({"evaluations": run.stats.evals(), "distinct_nontrivial": 0, "rule": "replay", "samples": [c], "exhaustive": false}), &["replay of one case"]);
        }
        if c["special"].as_str() == Some("query-name-case") {
            let qq = Query { name: unshow(c["qname"].as_str().unwrap()), qtype: c["qtype"].as_u64().unwrap() as u16 };
            let sps: Vec<u8> = c["spellings"].as_array().expect("spellings").iter().map(|x| x.as_u64().unwrap() as u8).collect();
            judge_case_reuse(&ctx, &run.stats, &run.hiers[hi], &qq, c["owners"].as_u64().unwrap_or(0) as u8, &sps, true);
            ctx.finish(json!({"evaluations": run.stats.evals(), "distinct_nontrivial": 0, "rule": "replay", "samples": [c], "exhaustive": false}), &["replay of one case"]);
        }
        if let Some(sp) = c["special"].as_str() {
            let r = reuse_specials(&ctx, &run.stats, &run.hiers[hi], Some(sp));
            println!("{sp}: {r}");
            ctx.finish(json!({"evaluations": run.stats.evals(), "distinct_nontrivial": 0, "rule": "replay", "samples": [c], "exhaustive": false}), &["replay of one case"]);
        }
        let faults: Vec<Fault> = serde_json::from_value(c["faults"].clone()).expect("faults");
        let case = Case { hi, q: Query { name: unshow(c["qname"].as_str().unwrap()), qtype: c["qtype"].as_u64().unwrap() as u16 }, faults: Arc::new(faults), conn: true };
        println!("replaying: scenario {} query {} {} faults {:?}", run.hiers[hi].name, show(&case.q.name), tname(case.q.qtype), case.faults);
        run.run_case(&case, None);
        ctx.finish(json!({"evaluations": run.stats.evals(), "distinct_nontrivial": run.stats.distinct_count(), "rule": "replay", "samples": [c], "exhaustive": false}), &["replay of one case"]);
    }

    let q = |n: &str, t: u16| Query { name: nm(n), qtype: t };
    let quick_queries = vec![q("www.zone.tld.", T_A), q("x.w.zone.tld.", T_A), q("www.zone.tld.", T_TXT), q("nx.zone.tld.", T_A), q("zone.tld.", T_DS), q("www.tld.", T_A)];
    let more_queries = vec![
        q("b.zone.tld.", T_A),
        q("cn.zone.tld.", T_A),
        q("ext.zone.tld.", T_A),
        q("x.w.zone.tld.", T_MX),
        q("nx.tld.", T_A),
        q("tld.", T_DS),
        q("zone.tld.", T_DNSKEY),
        q("zone.tld.", T_SOA),
        q("deep.nx.zone.tld.", T_A),
        q("explicit.w.zone.tld.", T_A),
        q("x.d.zone.tld.", T_A),
        q("c3.zone.tld.", T_A),
        q("y.x.w.zone.tld.", T_A),
    ];
    // ring of non-existent names around every name of zone.tld (incl. before the first and after the last)
    let ring = vec!["0.zone.tld.", "a.a.b.zone.tld.", "c.b.zone.tld.", "bb.zone.tld.", "dd.zone.tld.", "f.zone.tld.", "m.zone.tld.", "nt.zone.tld.", "v.zone.tld.", "x.explicit.w.zone.tld.", "ww.zone.tld.", "wwww.zone.tld.", "zzzz.zone.tld.", "0.tld.", "m.tld.", "zzzzz.tld."];
    // cn.zone.tld. owns a CNAME: query types below and above CNAME (5)
    let cname_queries = vec![q("cn.zone.tld.", T_NS), q("cn.zone.tld.", 28), q("cn.zone.tld.", T_MX), q("cn.zone.tld.", T_TXT)];
    // direct queries for wildcard owner names
    let star_queries = vec![q("*.wc.zone.tld.", T_A), q("*.wc.zone.tld.", T_CNAME), q("*.w.zone.tld.", T_A), q("*.w.zone.tld.", T_MX)];
    // hierarchies 0..4 = S1, S2, S3, S3b (full plans), 4 = S6 colliding key tag, 5 = S5 (thorough only); sx is never enumerated
    let nh = if quick { 5 } else { sx };
    // (hierarchy, query, mode: 0 all faults / 1 NSEC(3) swaps only / 2 baseline only / 3 baseline + CNAME-to-NODATA, pair mode)
    let mut plan: Vec<(usize, Query, u8, u8)> = vec![];
    for hi in 0..nh {
        let decoy = run.hiers[hi].decoy;
        for qq in &quick_queries {
            plan.push((hi, qq.clone(), 0, if decoy { u8::from(!quick) } else if quick { 1 } else { 2 }));
        }
        for qq in &more_queries {
            plan.push((hi, qq.clone(), if decoy && quick { 2 } else { 0 }, if quick || decoy { 0 } else { 2 }));
        }
        for qq in &cname_queries {
            plan.push((hi, qq.clone(), 3, 0));
        }
        if !decoy {
            for qq in &star_queries {
                plan.push((hi, qq.clone(), if quick { 2 } else { 0 }, 0));
            }
        }
        if run.hiers[hi].kind == Kind::Secure && !decoy {
            for (n, r) in ring.iter().enumerate() {
                if quick && n % 2 != 0 {
                    continue;
                }
                plan.push((hi, q(r, T_A), 1, 0));
            }
        }
    }
    // clock-wrap hierarchies: the positive answer with every single fault (expired / not yet valid
    // signatures among them), the other answer kinds unmodified (quick) or with every fault (thorough)
    for k in 0..wrap_clocks.len() {
        let hi = wrap0 + k;
        plan.push((hi, q("www.zone.tld.", T_A), if quick && k >= 2 { 2 } else { 0 }, 0));
        for qq in [q("nx.zone.tld.", T_A), q("x.w.zone.tld.", T_A), q("zone.tld.", T_DS)] {
            plan.push((hi, qq, if quick { 2 } else { 0 }, 0));
        }
    }
    // the letter case of the query name (see `respell`): S1 (NSEC), S2 (NSEC3), S3, S3b (insecure child below
    // NSEC / NSEC3) x the six quick queries + four more answer kinds x {upper case, alternating case
    // (thorough: both phases)}.  The all-upper-case spelling of the six quick queries of S1 and S2 gets the
    // whole single-fault menu in the quick tier, everything else the baseline (thorough: all the whole menu).
    let case_more = vec![q("x.w.zone.tld.", T_MX), q("deep.nx.zone.tld.", T_A), q("cn.zone.tld.", T_A), q("b.zone.tld.", T_A)];
    let plan_before_case = plan.len();
    for hi in 0..4usize {
        for (n, qq) in quick_queries.iter().chain(case_more.iter()).enumerate() {
            for sp in 1..=(if quick { 2u8 } else { 3 }) {
                let mode = if !quick || (sp == 1 && hi < 2 && n < quick_queries.len()) { 0 } else { 2 };
                plan.push((hi, Query { name: respell(&qq.name, sp), qtype: qq.qtype }, mode, 0));
            }
        }
    }
    let n_case_plans = plan.len() - plan_before_case;
    // the redirect dimension.  Queries at the owner of a DNAME (its other data, the DNAME itself, absent types),
    // strictly below it (one and two labels; data, NODATA, NXDOMAIN, a further CNAME / DNAME at the target),
    // at siblings / ancestors / a name that only ends with the same octets, through every DNAME target kind,
    // and CNAME chains of length 1..3 ending in data, NODATA and NXDOMAIN.  The bool marks the queries that
    // also get the general single-fault menu in the quick tier (thorough: all of them).
    let redirect_queries: Vec<(Query, bool)> = vec![
        (q("dn.zone.tld.", T_A), true),
        (q("dn.zone.tld.", T_DNAME), false),
        (q("dn.zone.tld.", T_TXT), true),
        (q("dn.zone.tld.", T_CNAME), false),
        (q("www.dn.zone.tld.", T_A), true),
        (q("www.dn.zone.tld.", T_TXT), false),
        (q("www.dn.zone.tld.", T_DNAME), false),
        (q("nx.dn.zone.tld.", T_A), true),
        (q("y.www.dn.zone.tld.", T_A), false),
        (q("cn.dn.zone.tld.", T_A), false),
        (q("rt.zone.tld.", T_A), false),
        (q("dm.zone.tld.", T_A), false),
        (q("xdn.zone.tld.", T_A), false),
        (q("zone.tld.", T_A), false),
        (q("www.zone.tld.", T_A), false),
        (q("d2.zone.tld.", T_DNAME), false),
        (q("d2.zone.tld.", T_A), false),
        (q("www.d2.zone.tld.", T_A), false),
        (q("nx.d2.zone.tld.", T_A), false),
        (q("up.zone.tld.", T_TXT), false),
        (q("up.zone.tld.", T_A), false),
        (q("www.up.zone.tld.", T_A), true),
        (q("nx.up.zone.tld.", T_A), false),
        (q("dz.tld.", T_TXT), false),
        (q("dz.tld.", T_A), false),
        (q("www.dz.tld.", T_A), false),
        (q("nx.dz.tld.", T_A), false),
        (q("c1.zone.tld.", T_A), false),
        (q("c1.zone.tld.", T_TXT), false),
        (q("c2.zone.tld.", T_TXT), true),
        (q("c3.zone.tld.", T_TXT), false),
        (q("cx1.zone.tld.", T_A), false),
        (q("cx2.zone.tld.", T_A), true),
        (q("cd.zone.tld.", T_A), true),
        (q("cd.zone.tld.", T_TXT), false),
        (q("co.zone.tld.", T_A), false),
        (q("co.zone.tld.", T_TXT), false),
        (q("x.d.zone.tld.", T_A), false),
    ];
    let plan_before_redirect = plan.len();
    for k in 0..3 {
        let hi = redir0 + k;
        for (qq, general) in &redirect_queries {
            // D3 (insecure child): the redirect menu only
            let mode = if k < 2 && (*general || !quick) { 0 } else { 4 };
            plan.push((hi, qq.clone(), mode, if quick || mode != 0 { 0 } else { 1 }));
        }
    }
    let n_redirect_plans = plan.len() - plan_before_redirect;
    let counts = Mutex::new(BTreeMap::new());
    let planned: Vec<(Vec<Case>, Vec<Fault>)> = plan.par_iter().map(|(hi, qq, mode, pairs)| cases_for(&run.hiers, *hi, qq, *mode, *pairs, &counts)).collect();
    // malformed public key selected by a signature (see `bad_key_cases`)
    let bad_key_hiers: Vec<usize> = if quick { vec![0] } else { vec![0, 1, 2, 3] };
    let bad_key_queries: Vec<Query> = if quick { vec![q("www.zone.tld.", T_A), q("www.tld.", T_A), q("tld.", T_DS)] } else { vec![q("www.zone.tld.", T_A), q("nx.zone.tld.", T_A), q("x.w.zone.tld.", T_A), q("www.tld.", T_A), q("zone.tld.", T_DS), q("tld.", T_DS)] };
    // the DS route in the quick tier: the algorithms for which the validator accepts a DS
    let bad_key_ds_algs: Vec<u8> = if quick { vec![5, 7, 8, 10, 13] } else { BAD_KEY_ALGS.to_vec() };
    let bad_key_plan: Vec<(usize, Query)> = bad_key_hiers.iter().flat_map(|hi| bad_key_queries.iter().map(move |qq| (*hi, qq.clone()))).collect();
    let bad_cases: Vec<Case> = bad_key_plan.par_iter().flat_map_iter(|(hi, qq)| bad_key_cases(&run.hiers, *hi, qq, &BAD_KEY_ALGS, &bad_key_ds_algs, &counts)).collect();
    run.stats.merge_counts(&counts.lock().unwrap());
    if std::env::var("C14_DRY").is_ok() {
        println!("{}", run.stats.counters_json());
        return;
    }
    let wd = Watchdog::start(ctx.clone(), Duration::from_secs(60), |d| {
        if d["special"].as_str() == Some("time-history") {
            return "C14|validator|hang|time-passes".to_string();
        }
        format!("C14|validator|hang|fault={}", {
            let fs: Vec<Fault> = serde_json::from_value(d["faults"].clone()).unwrap_or_default();
            kinds_of(&fs)
        })
    });
    // in parallel with the enumeration: context reuse across the expiry of a signature (S1)
    let h0 = run.hiers[0].clone();
    let expiry = std::thread::spawn(move || run_across_expiry(&h0));
    let reuse_json = reuse_specials(&ctx, &run.stats, &run.hiers[sx], None);

    // one context, the same name asked in different spellings one after the other
    let (case_queries, case_seqs) = case_reuse_plan(quick);
    let mut case_jobs: Vec<(usize, usize, u8, usize)> = vec![];
    for hi in (0..4usize).chain(if quick { None } else { Some(5usize) }) {
        for qi in 0..case_queries.len() {
            for owners in 0..2u8 {
                for si in 0..case_seqs.len() {
                    case_jobs.push((hi, qi, owners, si));
                }
            }
        }
    }
    case_jobs.par_iter().for_each(|(hi, qi, owners, si)| judge_case_reuse(&ctx, &run.stats, &run.hiers[*hi], &case_queries[*qi], *owners, &case_seqs[*si], false));

    // histories: one context, the zone re-signed between the validations
    let hq = vec![q("www.zone.tld.", T_A), q("x.w.zone.tld.", T_A), q("www.zone.tld.", T_TXT), q("nx.zone.tld.", T_A), q("b.zone.tld.", T_A), q("x.w.zone.tld.", T_MX), q("mail.zone.tld.", T_MX), q("cn.zone.tld.", T_A), q("deep.nx.zone.tld.", T_A)];
    let ns = s7 - hist0;
    let mut histories: Vec<Vec<(usize, Query)>> = vec![];
    for s0 in 0..ns {
        for q0 in &hq {
            for s1 in 0..ns {
                if !history_allowed(&run.hiers[hist0 + s0], &run.hiers[hist0 + s1]) {
                    continue;
                }
                for q1 in &hq {
                    histories.push(vec![(s0, q0.clone()), (s1, q1.clone())]);
                }
            }
        }
    }
    let n_hist2 = histories.len();
    if !quick {
        // three steps over the denial-parameter states and the negative answers
        let neg = [2usize, 3, 4, 5];
        for s0 in 0..4 {
            for a in neg {
                for s1 in 0..4 {
                    for b in neg {
                        for s2 in 0..4 {
                            for c in neg {
                                histories.push(vec![(s0, hq[a].clone()), (s1, hq[b].clone()), (s2, hq[c].clone())]);
                            }
                        }
                    }
                }
            }
        }
    }
    histories.par_iter().for_each(|st| judge_history(&ctx, &run.stats, &run.hiers, hist0, st, false));

    // histories in which time passes on one context (clock hook)
    let t_time = std::time::Instant::now();
    let time_plans: Vec<TimePlan> = time_ctxs
        .iter()
        .zip(time_scen.iter())
        .map(|(tc, (_, qs, nq1))| {
            let q1s: Vec<usize> = if quick { (0..*nq1).collect() } else { (0..qs.len()).collect() };
            let q2s: Vec<usize> = (0..qs.len()).collect();
            time_plan(tc.clone(), &q1s, &q2s, quick)
        })
        .collect();
    let time_jobs: Vec<(usize, usize)> = time_plans.iter().enumerate().flat_map(|(pi, p)| (0..p.hists.len()).map(move |i| (pi, i))).collect();
    time_jobs.par_iter().for_each(|(pi, i)| {
        let p = &time_plans[*pi];
        wd.enter(|| thist_json(&p.tc, &p.hists[*i], 0));
        judge_time_history(&ctx, &run.stats, &p.tc, &p.hists[*i], false);
        wd.leave();
    });
    let time_wall = t_time.elapsed().as_secs_f64();
    if std::env::var("C14_TIME_ONLY").is_ok() {
        println!("time part: {} histories in {time_wall:.1} s", time_jobs.len());
        for p in &time_plans {
            println!("{}", p.summary);
        }
        println!("{}", run.stats.counters_json());
        ctx.finish_quiet();
    }

    // trust anchor forms / routes and non-default configurations
    let ta_hist_json = anchors_and_config(&ctx, &run.stats, &run.hiers, s7, r2, &root_k2_rd, None);

    // Connection reply post-processing: request flags {AD, DO, CD} x upstream AD x validation outcome
    let mut flag_cases: Vec<(usize, Query, Arc<Vec<Fault>>, bool)> = vec![];
    let none: Arc<Vec<Fault>> = Arc::new(vec![]);
    for qq in &quick_queries {
        for hi in [0usize, 1] {
            flag_cases.push((hi, qq.clone(), none.clone(), true)); // Secure
            flag_cases.push((hi, qq.clone(), none.clone(), false)); // Indeterminate: no trust anchor
            // Secure, but the TTLs are above the original ones: the validator rewrites the message
            let resp0 = run.hiers[hi].answer(&qq.name, qq.qtype);
            let ids: Vec<u16> = resp0.sec.iter().flatten().map(|e| e.id).collect();
            flag_cases.push((hi, qq.clone(), Arc::new(vec![Fault { target: Target::Main, op: Op::Ttl { ids, mode: 0 } }]), true));
            // Bogus: the first RRSIG of the answer dropped
            let resp = run.hiers[hi].answer(&qq.name, qq.qtype);
            if let Some(e) = resp.sec.iter().flatten().find(|e| e.rr.rtype == T_RRSIG) {
                flag_cases.push((hi, qq.clone(), Arc::new(vec![Fault { target: Target::Main, op: Op::DropSig { id: e.id } }]), true));
            }
        }
        for hi in [2usize, 3] {
            flag_cases.push((hi, qq.clone(), none.clone(), true)); // Insecure below the insecure delegation (Secure for the tld. names)
        }
    }
    let mut flag_runs = vec![];
    for (i, _) in flag_cases.iter().enumerate() {
        for bits in 0..32u8 {
            flag_runs.push((i, (bits & 1 != 0, bits & 2 != 0, bits & 4 != 0, bits & 8 != 0, bits & 16 != 0)));
        }
    }
    flag_runs.par_iter().for_each(|(i, fl)| {
        let (hi, qq, faults, ta) = &flag_cases[*i];
        judge_flags(&ctx, &run.stats, &run.hiers[*hi], qq, faults, *ta, *fl, false);
    });
    let cases: Vec<&Case> = planned.iter().flat_map(|p| p.0.iter()).chain(bad_cases.iter()).collect();
    cases.par_iter().for_each(|c| run.run_case(c, Some(&wd)));
    // pairs, generated row by row
    let rows: Vec<(usize, usize)> = planned.iter().enumerate().flat_map(|(pi, p)| (0..p.1.len()).map(move |i| (pi, i))).collect();
    let n_pairs = std::sync::atomic::AtomicU64::new(0);
    rows.par_iter().for_each(|(pi, i)| {
        let menu = &planned[*pi].1;
        let (hi, qq, _, _) = &plan[*pi];
        for j in i + 1..menu.len() {
            let c = Case { hi: *hi, q: qq.clone(), faults: Arc::new(vec![menu[*i].clone(), menu[j].clone()]), conn: false };
            run.run_case(&c, Some(&wd));
            n_pairs.fetch_add(1, AO::Relaxed);
        }
    });

    let expiry_json = match expiry.join().expect("expiry thread") {
        None => {
            run.stats.count("expiry-reuse|inconclusive-first-validation-too-late");
            json!("inconclusive")
        }
        Some((first, second, exp)) => {
            run.stats.eval();
            run.stats.eval();
            let replay = json!({"scenario": run.hiers[0].name, "special": "context-reuse-across-rrsig-expiry", "qname": "www.zone.tld.", "qtype": T_A, "faults": []});
            if !first.secure() {
                ctx.violation(&format!("C14|validator|unexpired-signature-not-secure|observed={}", first.short()), &format!("answer with an RRSIG valid until {exp} reported {first:?} before its expiry"), replay.clone());
            }
            match &second {
                Verdict::Panic(p) => {
                    ctx.violation(
                        &format!("C14|validator|context-reuse-after-rrsig-expiry|panic|{}", panic_sig(p)),
                        &format!("the same ValidationContext validated www.zone.tld. A as {first:?} while its RRSIG (expiration {exp}) was valid and panicked ({p}) when the identical message was validated again after the expiration"),
                        replay.clone(),
                    );
                }
                v if v.secure() => {
                    ctx.violation(
                        "C14|validator|context-reuse-after-rrsig-expiry|expired-signature-reported-secure",
                        &format!("the same ValidationContext reported www.zone.tld. A Secure again after its only RRSIG had expired (expiration {exp})"),
                        replay.clone(),
                    );
                }
                _ => {}
            }
            json!({"first": first.short(), "second_after_expiry": second.short()})
        }
    };
    for c in cases.iter().filter(|c| c.faults.len() == 1).step_by((cases.len() / 6).max(1)) {
        run.stats.sample(8, || case_json(&run.hiers[c.hi], c, "validate_msg"));
    }
    // histograms
    let counters = run.stats.counters.lock().unwrap().clone();
    let mut verdicts: BTreeMap<String, u64> = BTreeMap::new();
    let mut per_kind: BTreeMap<String, BTreeMap<String, u64>> = BTreeMap::new();
    for (k, n) in &counters {
        let p: Vec<&str> = k.split('|').collect();
        if p[0] == "outcome" && p[1] == "validate_msg" {
            *verdicts.entry(p[3].to_string()).or_insert(0) += n;
            *per_kind.entry(p[2].to_string()).or_default().entry(p[3].to_string()).or_insert(0) += n;
        }
    }
    let other: BTreeMap<&String, &u64> = counters.iter().filter(|(k, _)| !k.starts_with("outcome|")).collect();
    ctx.finish(
        json!({
            "evaluations": run.stats.evals(),
            "distinct_nontrivial": run.stats.distinct_count(),
            "rule": "one evaluation = one run of the real validator (validate_msg, or Connection for single faults) on a fresh ValidationContext with the oracle applied; non-trivial = a faulted case in which at least one message delivered to the validator (the validated answer or an upstream DS/DNSKEY response) differs in its octets from the authentic one; distinct by hash of (scenario, query, fault list)",
            "exhaustive": true,
            "bound": format!("{}; letter case of the query name: see query_name_case_dimension", if quick { "quick: scenarios S1,S2,S3,S3b x 17 queries: every single fault of the menu at every position (validate_msg and Connection); S6 (colliding key tag listed first) x 6 queries all single faults, 11 more baselines; CNAME owner x {NS,AAAA,MX,TXT} with the CNAME-to-NODATA replacement; direct wildcard-owner queries (baseline); every second name of the NXDOMAIN ring x every NSEC/NSEC3 swap; all pairs of representative faults (one per kind and position) for 6 queries; three context-reuse cases; all two-step histories of one context over 8 re-signed states of zone.tld. x 9 queries; Connection reply post-processing for request flags {AD,DO,CD} x upstream AD x upstream OPT x 60 answers (Secure/Insecure/Bogus/Indeterminate); trust anchors as DNSKEY / DS (SHA-1, SHA-256, SHA-384), right and wrong, at root / tld. / zone.tld., 17 combinations x 3 construction routes x 7 queries; Config: set_bad_signatures x number of bad RRSIGs around the limit, NSEC3 iteration limits 10 x 9 values x zones with 2 and 150 iterations, CNAME/DNAME chain limit, one-entry caches; a DNAME redirection and a 3-CNAME chain in the zone; redirect dimension: scenarios D1 (NSEC), D2 (NSEC3), D3 (insecure child) x 38 queries at / below / beside DNAME owners and through CNAME chains x the redirect fault menu at every chain link, 8 of the queries of D1, D2 also with every general single fault" } else { "thorough: 6 scenarios x 17 queries: every single fault at every position (validate_msg and Connection); CNAME-owner and wildcard-owner queries; full NXDOMAIN ring x every NSEC/NSEC3 swap; ALL pairs of single faults for all 17 queries of S1,S2,S3,S3b,S5 and pairs of representatives for S6; three context-reuse cases; all two-step histories of one context over 8 re-signed states of zone.tld. x 9 queries and all three-step histories over 4 denial-parameter states x 4 negative queries; Connection reply post-processing for request flags {AD,DO,CD} x upstream AD x upstream OPT x 60 answers (Secure/Insecure/Bogus/Indeterminate); trust anchors as DNSKEY / DS (SHA-1, SHA-256, SHA-384), right and wrong, at root / tld. / zone.tld., 17 combinations x 3 construction routes x 7 queries; Config: set_bad_signatures x number of bad RRSIGs around the limit, NSEC3 iteration limits 10 x 9 values x zones with 2 and 150 iterations, CNAME/DNAME chain limit, one-entry caches; a DNAME redirection and a 3-CNAME chain in the zone; redirect dimension: scenarios D1 (NSEC), D2 (NSEC3), D3 (insecure child) x 38 queries at / below / beside DNAME owners and through CNAME chains x the redirect fault menu at every chain link; all queries of D1, D2 also with every general single fault and all pairs of representatives" }),
            "scenarios": run.hiers.iter().take(nh).chain(run.hiers.iter().skip(sx)).map(|h| h.name).collect::<Vec<_>>(),
            "query_plans": plan.len(),
            "cases": cases.len() as u64 + n_pairs.load(AO::Relaxed),
            "single_and_baseline_cases": cases.len(),
            "pair_cases": n_pairs.load(AO::Relaxed),
            "verdict_histogram_validate_msg": verdicts,
            "verdicts_per_fault_kind": per_kind,
            "counters": other,
            "upstream_query_budget": BUDGET,
            "context_reuse_across_rrsig_expiry": expiry_json,
            "context_reuse_other": reuse_json,
            "histories_zone_re_signed": {"states": run.hiers[hist0..s7].iter().map(|h| h.name).collect::<Vec<_>>(), "queries": hq.len(), "two_step": n_hist2, "three_step": histories.len() - n_hist2,
                "rule": "every ordered pair (state, query) x (state', query') in which the key that signs state' is in the DNSKEY RRset of state (a validated DNSKEY RRset may be kept for its TTL); thorough adds all three-step histories over the four denial-parameter states and four negative queries"},
            "trust_anchor_configuration_histories": ta_hist_json,
            "redirect_dimension": {
                "scenarios": run.hiers[redir0..redir0 + 3].iter().map(|h| h.name).collect::<Vec<_>>(),
                "queries": redirect_queries.len(),
                "query_plans": n_redirect_plans,
                "zone_content": "zone.tld.: dn (A + DNAME rt.zone.tld.), rt (TXT), www.rt (A), cn.rt (CNAME www), d2 (DNAME dn.zone.tld.), up (TXT + DNAME tld.), cd (CNAME www.dn), co (CNAME dn), cx1 (CNAME nx), cx2 (CNAME cx1), besides d (DNAME w), c1..c3, cn, ext; tld.: dz (TXT + DNAME zone.tld.)",
                "faults": "per question, at every link n_0..n_k of the authentic CNAME/DNAME chain: (1) every DNAME RRset of the hierarchy applied to n_i although n_i is its own owner / an ancestor of it / unrelated, without and with the matching synthesized CNAME, continued by the authentic answer or denial for the name it maps to; (2) every DNAME link's synthesized CNAME with 4 wrong targets, continued with the answer for the wrong or the right target; (3) the chain cut after i links with the denial (authentic, or own NSEC/NSEC3, or would-be NXDOMAIN records below a DNAME / wildcard) of every chain name, DNAME owner and DNAME target for QTYPE / PTR / CNAME; (4) every link dropped (CNAME, DNAME, both); messages with identical octets listed once; the general single-fault menu on top for the marked queries (quick) / all queries (thorough)",
                "oracle": "as everywhere in this check: unmodified => Secure (Insecure if the chain enters the insecure child); Secure => every RRset authentic with a currently valid RRSIG (an unsigned CNAME only if it is exactly the RFC 6672 synthesis of an authentic DNAME present in the section), SNAME obtained by following CNAMEs and DNAMEs of strict ancestors only, and the answer / NODATA / NXDOMAIN claim about SNAME true in the zone model with a complete NSEC/NSEC3 proof (independent checker)",
                "not_covered": "QTYPE=CNAME below a DNAME owner (RFC 6672 leaves open whether the chase continues), DNAME at a wildcard / at a zone apex, YXDOMAIN overflow",
            },
            "query_name_case_dimension": {
                "spellings": "0 lower case (as the zone stores it), 1 all upper case, 2 alternating case starting with upper case, 3 (thorough) alternating starting with lower case; counted over the letters of the whole query name",
                "upstream": "the question is echoed in the query's spelling; records in the zone's spelling, owners equal to the query name in the query's spelling (fault-enumeration plans and owners=0) or the zone's (owners=1); wildcard expansions in the query's spelling",
                "query_plans": n_case_plans,
                "plans": if quick { "S1, S2, S3, S3b x 10 queries (positive, wildcard, NODATA, NXDOMAIN, DS, parent-zone name, wildcard NODATA, deep NXDOMAIN, CNAME, other positive) x spellings {1, 2}: baseline through validate_msg and Connection; spelling 1 of the first six queries of S1, S2 with every single fault of the menu at every position" } else { "S1, S2, S3, S3b x 10 queries x spellings {1, 2, 3} x every single fault of the menu at every position" },
                "one_context": {"scenarios": if quick { 4 } else { 5 }, "queries": case_queries.len(), "owner_spellings": 2, "spelling_sequences": case_seqs.len(), "contexts": case_jobs.len(),
                    "rule": "one ValidationContext validates the authentic answers for the same (name, type) in every ordered sequence of two (thorough: also three) different spellings"},
                "oracle": "unchanged: the authentic answer is Secure (Insecure below the insecure delegation) whatever the spelling and whatever was validated before on the context; Secure => every RRset authentic with a valid RRSIG and the claim true with a complete NSEC/NSEC3 proof (canonical, i.e. lower-case, names: RFC 4034 6.2, RFC 5155 5)",
            },
            "malformed_public_key_dimension": {
                "scenarios": bad_key_hiers.iter().map(|hi| run.hiers[*hi].name).collect::<Vec<_>>(),
                "queries": bad_key_queries.iter().map(|x| format!("{} {}", show(&x.name), tname(x.qtype))).collect::<Vec<_>>(),
                "cases": bad_cases.len(),
                "public_key_fields": BAD_KEY_ALGS.iter().map(|a| (a.to_string(), bad_key_menu(*a).iter().map(|k| if k.len() <= 8 { hex(k) } else { format!("{}..({} octets)", hex(&k[..6]), k.len()) }).collect::<Vec<_>>())).collect::<BTreeMap<_, _>>(),
                "faults": "every zone of the chain that has a key (root, tld., zone.tld.) x algorithms {5,7,8,10 RSA; 13,14 ECDSA; 15,16 EdDSA} x every hostile public-key field of the menu x {beside, instead of the authentic signature / DS}; route A: the DNSKEY (flags 256) is put first in the zone's DNSKEY RRset, which is re-signed with the zone's real key, and every RRSIG the zone made in the validated answer gets a companion (or is replaced by one) whose algorithm and key tag (own RFC 4034 appendix B routine) select it; route B: the parent's DS RRset, re-signed with the parent's real key, gets a SHA-256 DS of the malformed key in front of (instead of) the authentic DS and the DNSKEY RRset an RRSIG selecting it in front of (instead of) the authentic one",
                "oracle": "never a panic, never more than the upstream budget; beside the authentic key and signatures the verdict is the one of the unmodified answer (Secure, Insecure below the insecure delegation); with only the malformed key selected never Secure; through validate_msg and Connection",
                "ds_route_algorithms": bad_key_ds_algs,
            },
            "connection_flag_product": {"answers": flag_cases.len(), "runs": flag_runs.len(), "rule": "request flags {AD,DO,CD} x upstream AD x upstream OPT record x answers that are Secure (also with TTLs to be clamped) / Insecure / Bogus / Indeterminate"},
            "samples": run.stats.samples(),
        }),
        &[
            "the hierarchy is signed by the library's own signer (sign_zone / sign_rrset); its correctness is C12/C13's subject; the harness cross-checks NSEC3 hashes, key tags and DS digests with its own implementations",
            "histories: between the validations only zone.tld. is re-signed (NSEC3 salt / iterations, NSEC<->NSEC3, records added and removed, signing key switched within a constant DNSKEY RRset); the keys of root and tld., the DS RRset and the trust anchor stay constant; a history is only judged if the key signing a later state is in the DNSKEY RRset of the first state, because a validated DNSKEY RRset may be kept for its TTL",
            "trust anchors: the anchor set nearest to (at or above) the zone of the answer decides: no anchor -> Indeterminate, at least one matching DNSKEY or DS (digest types 1, 2, 4) at that name -> the chain from there is judged, only non-matching ones -> Bogus; identical through from_u8, empty()+add_u8 and from_reader",
            "Config: with set_bad_signatures(k) an RRset whose valid RRSIG follows n <= k (k clamped to 1..8) corrupted ones is Secure; an answer that needs NSEC3 records of a zone using more iterations than the (clamped) insecure limit is Insecure, above the bogus limit Bogus or Insecure, never Secure, and Secure at or below both limits; a chain of at most set_max_cname_dname CNAME/DNAME records is Secure; cache sizes and validity limits never change a verdict",
            "Connection post-processing oracle (RFC 4035 3.1/3.2, RFC 6840 5.7): AD in the reply iff validated Secure and the request had AD or DO; Bogus gives SERVFAIL without records unless CD; RRSIG/NSEC/NSEC3 only with DO (or when asked for); all other records, rcode and question preserved; the CD bit of the reply is recorded as information only",
            "the validator reads the wall clock: signatures are made for [now-1d, now+1d]; expired / not-yet-valid faults are real re-signings with windows in the past / future",
            "dnssec::validator::nsec is a private module, so nsec_in_range / nsec3_in_range are exercised end-to-end (NXDOMAIN ring x every NSEC/NSEC3 of the zone) instead of as unit calls",
            "faults that need the zone's private key (re-signed NSEC3 owner / parameter changes) are judged for panic / termination only",
            "ECDSA signatures and the attacker key are freshly randomised per run; counts do not depend on them",
        ],
    );
}
