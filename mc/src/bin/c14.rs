//! C14 — the DNSSEC validator says "secure" only for data with a valid chain
//! to a trust anchor.
//!
//! A signed hierarchy root -> tld. -> zone.tld. is built ONCE per run with the
//! library's own signer (sign_zone / sign_rrset, keys from
//! /repo/test-data/dnssec-keys).  The upstream is a deterministic function
//! question -> response over that authentic data (written in this file).  For
//! every (scenario, query) the unfaulted run records which upstream queries the
//! validator makes; then EVERY fault of the adversary menu at EVERY position
//! (every RRset / RRSIG / key / proof record of the validated answer and of
//! every upstream DS/DNSKEY response) is executed against a fresh
//! `ValidationContext`, and the oracle (independent zone model of this file)
//! is evaluated on every execution.
#![allow(clippy::type_complexity, clippy::too_many_arguments)]

use bytes::Bytes;
use domain::base::iana::{Class, Nsec3HashAlgorithm, Rtype};
use domain::base::name::Name;
use domain::base::rdata::{ComposeRecordData, UnknownRecordData};
use domain::base::{Message, Record, Serial, Ttl};
use domain::crypto::sign::{generate, GenerateParams, KeyPair, SecretKeyBytes};
use domain::dnssec::common::parse_from_bind;
use domain::dnssec::sign::denial::config::DenialConfig;
use domain::dnssec::sign::denial::nsec::GenerateNsecConfig;
use domain::dnssec::sign::denial::nsec3::GenerateNsec3Config;
use domain::dnssec::sign::keys::SigningKey;
use domain::dnssec::sign::records::{DefaultSorter, Rrset, SortedRecords};
use domain::dnssec::sign::signatures::rrsigs::sign_rrset;
use domain::dnssec::sign::traits::SignableZoneInPlace;
use domain::dnssec::sign::SigningConfig;
use domain::dnssec::validator::anchor::TrustAnchors;
use domain::dnssec::validator::context::{ValidationContext, ValidationState};
use domain::net::client::request::{
    ComposeRequest, Error as ReqError, GetResponse, RequestMessage, SendRequest,
};
use domain::net::client::validator as cval;
use domain::rdata::dnssec::Timestamp;
use domain::rdata::nsec3::Nsec3Salt;
use domain::rdata::{Cname, Mx, Ns, Nsec3param, Soa, Txt, ZoneRecordData, A};
use mc::wire::{read_name, u16_at, u32_at};
use mc::*;
use rayon::prelude::*;
use serde::{Deserialize, Serialize};
use serde_json::{json, Value};
use std::collections::{BTreeMap, BTreeSet};
use std::future::Future;
use std::pin::Pin;
use std::sync::atomic::{AtomicBool, AtomicUsize, Ordering as AO};
use std::sync::{Arc, Mutex};
use std::task::{Context, Poll};
use std::time::Duration;

const T_A: u16 = 1;
const T_NS: u16 = 2;
const T_CNAME: u16 = 5;
const T_SOA: u16 = 6;
const T_PTR: u16 = 12;
const T_MX: u16 = 15;
const T_TXT: u16 = 16;
const T_DS: u16 = 43;
const T_RRSIG: u16 = 46;
const T_NSEC: u16 = 47;
const T_DNSKEY: u16 = 48;
const T_NSEC3: u16 = 50;

/// Upstream-query budget per validation (the unfaulted runs need <= 6).
const BUDGET: usize = 64;

fn tname(t: u16) -> String {
    match t {
        1 => "A".into(),
        2 => "NS".into(),
        5 => "CNAME".into(),
        6 => "SOA".into(),
        15 => "MX".into(),
        16 => "TXT".into(),
        43 => "DS".into(),
        46 => "RRSIG".into(),
        47 => "NSEC".into(),
        48 => "DNSKEY".into(),
        50 => "NSEC3".into(),
        51 => "NSEC3PARAM".into(),
        t => format!("TYPE{t}"),
    }
}

// ------------------------------------------------------------ own names

/// Absolute name, labels leftmost first, root label not stored.
type Labels = Vec<Vec<u8>>;

fn nm(s: &str) -> Labels {
    s.split('.').filter(|l| !l.is_empty()).map(|l| l.as_bytes().to_vec()).collect()
}

fn show(l: &Labels) -> String {
    let mut s = String::new();
    for x in l {
        for &b in x {
            if b.is_ascii_graphic() && b != b'.' && b != b'\\' {
                s.push(b as char);
            } else {
                s.push_str(&format!("\\{b:03}"));
            }
        }
        s.push('.');
    }
    if s.is_empty() {
        s.push('.');
    }
    s
}

/// Parse the output of `show` back.
fn unshow(s: &str) -> Labels {
    let mut out = Vec::new();
    let mut cur = Vec::new();
    let b = s.as_bytes();
    let mut i = 0;
    while i < b.len() {
        if b[i] == b'\\' && i + 3 < b.len() + 0 && i + 3 <= b.len() - 0 && b.len() >= i + 4 {
            let v: u8 = std::str::from_utf8(&b[i + 1..i + 4]).unwrap().parse().unwrap();
            cur.push(v);
            i += 4;
        } else if b[i] == b'.' {
            if !cur.is_empty() {
                out.push(std::mem::take(&mut cur));
            }
            i += 1;
        } else {
            cur.push(b[i]);
            i += 1;
        }
    }
    if !cur.is_empty() {
        out.push(cur);
    }
    out
}

/// Canonical sort key (RFC 4034 6.1): labels rightmost first, lowercased.
/// `Vec<Vec<u8>>`'s derived order is exactly the canonical name order.
fn key(l: &Labels) -> Labels {
    l.iter().rev().map(|x| x.to_ascii_lowercase()).collect()
}

fn unkey(k: &Labels) -> Labels {
    k.iter().rev().cloned().collect()
}

fn wire(l: &Labels) -> Vec<u8> {
    let mut v = Vec::new();
    for x in l {
        v.push(x.len() as u8);
        v.extend_from_slice(x);
    }
    v.push(0);
    v
}

fn lower_wire(l: &Labels) -> Vec<u8> {
    wire(&l.iter().map(|x| x.to_ascii_lowercase()).collect())
}

fn lname(l: &Labels) -> Name<Bytes> {
    Name::from_octets(Bytes::from(wire(l))).expect("valid name")
}

fn from_lname(n: &Name<Bytes>) -> Labels {
    n.iter().filter(|l| !l.is_root()).map(|l| l.as_slice().to_vec()).collect()
}

/// `a` is `b` or a descendant of `b` (case-insensitive).
fn ends_with(a: &Labels, b: &Labels) -> bool {
    a.len() >= b.len()
        && a[a.len() - b.len()..]
            .iter()
            .zip(b)
            .all(|(x, y)| x.eq_ignore_ascii_case(y))
}

fn parent(l: &Labels) -> Labels {
    l[1..].to_vec()
}

fn star(ce: &Labels) -> Labels {
    let mut v = vec![b"*".to_vec()];
    v.extend(ce.iter().cloned());
    v
}

// ------------------------------------------------------------ own crypto helpers

fn sha1(data: &[u8]) -> Vec<u8> {
    ring::digest::digest(&ring::digest::SHA1_FOR_LEGACY_USE_ONLY, data).as_ref().to_vec()
}

fn sha256(data: &[u8]) -> Vec<u8> {
    ring::digest::digest(&ring::digest::SHA256, data).as_ref().to_vec()
}

/// RFC 5155 section 5.
fn n3hash(name: &Labels, salt: &[u8], iters: u16) -> Vec<u8> {
    let mut buf = lower_wire(name);
    buf.extend_from_slice(salt);
    let mut h = sha1(&buf);
    for _ in 0..iters {
        let mut b = h.clone();
        b.extend_from_slice(salt);
        h = sha1(&b);
    }
    h
}

const B32: &[u8; 32] = b"0123456789abcdefghijklmnopqrstuv";

fn b32hex(data: &[u8]) -> Vec<u8> {
    let mut out = Vec::new();
    let mut acc: u32 = 0;
    let mut bits = 0;
    for &b in data {
        acc = (acc << 8) | b as u32;
        bits += 8;
        while bits >= 5 {
            out.push(B32[((acc >> (bits - 5)) & 31) as usize]);
            bits -= 5;
        }
    }
    if bits > 0 {
        out.push(B32[((acc << (5 - bits)) & 31) as usize]);
    }
    out
}

fn unb32hex(s: &[u8]) -> Option<Vec<u8>> {
    let mut out = Vec::new();
    let mut acc: u32 = 0;
    let mut bits = 0;
    for &c in s {
        let v = B32.iter().position(|&x| x == c.to_ascii_lowercase())? as u32;
        acc = (acc << 5) | v;
        bits += 5;
        if bits >= 8 {
            out.push(((acc >> (bits - 8)) & 0xff) as u8);
            bits -= 8;
        }
    }
    Some(out)
}

/// RFC 4034 appendix B.
fn key_tag(rdata: &[u8]) -> u16 {
    let mut ac: u32 = 0;
    for (i, &b) in rdata.iter().enumerate() {
        ac += if i & 1 == 1 { b as u32 } else { (b as u32) << 8 };
    }
    ac += (ac >> 16) & 0xFFFF;
    (ac & 0xFFFF) as u16
}

/// DS RDATA (digest type 2) for a DNSKEY RDATA at `owner`.
fn ds_rdata(owner: &Labels, dnskey: &[u8]) -> Vec<u8> {
    let mut buf = lower_wire(owner);
    buf.extend_from_slice(dnskey);
    let mut v = key_tag(dnskey).to_be_bytes().to_vec();
    v.push(dnskey[3]);
    v.push(2);
    v.extend_from_slice(&sha256(&buf));
    v
}

// ------------------------------------------------------------ zone model

#[derive(Clone, Debug, PartialEq, Eq)]
struct Rr {
    owner: Labels,
    rtype: u16,
    class: u16,
    ttl: u32,
    rdata: Vec<u8>,
}

#[derive(Clone, Debug)]
enum Denial {
    None,
    Nsec,
    Nsec3 { salt: Vec<u8>, iters: u16, opt_out: bool },
}

type SKey = SigningKey<Bytes, KeyPair>;

struct Zone {
    apex: Labels,
    secure: bool,
    denial: Denial,
    /// (owner key, type) -> (ttl, rdatas sorted).  No RRSIGs.
    sets: BTreeMap<(Labels, u16), (u32, Vec<Vec<u8>>)>,
    /// (owner key, type covered) -> per window (0 valid, 1 expired, 2 not yet
    /// valid) the RRSIG RDATAs.
    sigs: BTreeMap<(Labels, u16), [Vec<Vec<u8>>; 3]>,
    /// owner keys of the ordinary namespace (not the NSEC3 owners).
    names: BTreeSet<Labels>,
    /// empty non-terminals.
    ents: BTreeSet<Labels>,
    /// NSEC3 chain: (hash, owner key) sorted by hash.
    n3: Vec<(Vec<u8>, Labels)>,
    key: Option<Arc<SKey>>,
    dnskey: Vec<u8>,
}

impl Zone {
    fn has(&self, k: &Labels, t: u16) -> bool {
        self.sets.contains_key(&(k.clone(), t))
    }
    fn exists(&self, k: &Labels) -> bool {
        self.names.contains(k) || self.ents.contains(k)
    }
    fn nsec_owners(&self) -> Vec<Labels> {
        self.sets.keys().filter(|(_, t)| *t == T_NSEC).map(|(k, _)| k.clone()).collect()
    }
    /// NSEC whose owner is the greatest one <= k.
    fn nsec_cover(&self, k: &Labels) -> Labels {
        let o = self.nsec_owners();
        o.iter().rev().find(|x| *x <= k).cloned().unwrap_or_else(|| o.last().cloned().expect("nsec chain"))
    }
    fn n3params(&self) -> (Vec<u8>, u16) {
        match &self.denial {
            Denial::Nsec3 { salt, iters, .. } => (salt.clone(), *iters),
            _ => (vec![], 0),
        }
    }
    fn n3_match(&self, name: &Labels) -> Option<Labels> {
        let (s, i) = self.n3params();
        let h = n3hash(name, &s, i);
        self.n3.iter().find(|(x, _)| *x == h).map(|(_, o)| o.clone())
    }
    fn n3_cover(&self, name: &Labels) -> Labels {
        let (s, i) = self.n3params();
        let h = n3hash(name, &s, i);
        self.n3
            .iter()
            .rev()
            .find(|(x, _)| *x < h)
            .or_else(|| self.n3.last())
            .map(|(_, o)| o.clone())
            .expect("nsec3 chain")
    }
}

type LName = Name<Bytes>;
type LData = ZoneRecordData<Bytes, LName>;
type LRec = Record<LName, LData>;

fn rec(owner: &str, data: LData) -> LRec {
    Record::new(lname(&nm(owner)), Class::IN, Ttl::from_secs(3600), data)
}
fn r_a(o: &str, d: u8) -> LRec {
    rec(o, ZoneRecordData::A(A::from_octets(192, 0, 2, d)))
}
fn r_ns(o: &str, t: &str) -> LRec {
    rec(o, ZoneRecordData::Ns(Ns::new(lname(&nm(t)))))
}
fn r_cname(o: &str, t: &str) -> LRec {
    rec(o, ZoneRecordData::Cname(Cname::new(lname(&nm(t)))))
}
fn r_mx(o: &str, t: &str) -> LRec {
    rec(o, ZoneRecordData::Mx(Mx::new(10, lname(&nm(t)))))
}
fn r_txt(o: &str, t: &str) -> LRec {
    rec(o, ZoneRecordData::Txt(Txt::<Bytes>::build_from_slice(t.as_bytes()).expect("txt")))
}
fn r_soa(o: &str) -> LRec {
    let mut mn = vec![b"ns".to_vec()];
    mn.extend(nm(o));
    let mut rn = vec![b"admin".to_vec()];
    rn.extend(nm(o));
    rec(
        o,
        ZoneRecordData::Soa(Soa::new(
            lname(&mn),
            lname(&rn),
            Serial::from(1),
            Ttl::from_secs(7200),
            Ttl::from_secs(900),
            Ttl::from_secs(86400),
            Ttl::from_secs(600),
        )),
    )
}
fn r_raw(o: &str, t: u16, rdata: Vec<u8>) -> LRec {
    rec(
        o,
        ZoneRecordData::Unknown(UnknownRecordData::from_octets(Rtype::from_int(t), Bytes::from(rdata)).expect("raw")),
    )
}

fn rdata_of<D: ComposeRecordData>(d: &D) -> Vec<u8> {
    let mut v = Vec::new();
    d.compose_rdata(&mut v).expect("compose");
    v
}

fn load_key(alg_tag: &str, apex: &Labels) -> (Arc<SKey>, Vec<u8>, String) {
    let base = format!("/repo/test-data/dnssec-keys/Ktest.+{alg_tag}");
    let pubt = std::fs::read_to_string(format!("{base}.key")).expect("key file");
    let sect = std::fs::read_to_string(format!("{base}.private")).expect("private file");
    let rec = parse_from_bind::<Vec<u8>>(&pubt).expect("parse .key");
    let secret = SecretKeyBytes::parse_from_bind(&sect).expect("parse .private");
    let dnskey = rec.data().clone();
    let kp = KeyPair::from_bytes(&secret, &dnskey).expect("key pair");
    let rd = rdata_of(&dnskey);
    // zone-file text of the key RDATA for the trust anchor
    let line = pubt.lines().find(|l| l.contains("DNSKEY")).unwrap();
    let line = line.split(';').next().unwrap();
    let f: Vec<&str> = line.split_whitespace().collect();
    let pos = f.iter().position(|x| *x == "DNSKEY").unwrap();
    let text = f[pos + 1..].join(" ");
    (Arc::new(SigningKey::new(lname(apex), dnskey.flags(), kp)), rd, text)
}

/// Sign an arbitrary RRset with the library's `sign_rrset`; returns the
/// RRSIG RDATA.
fn sign_set(key: &SKey, owner: &Labels, rtype: u16, ttl: u32, rdatas: &[Vec<u8>], inc: u32, exp: u32) -> Vec<u8> {
    let recs: Vec<Record<LName, UnknownRecordData<Bytes>>> = rdatas
        .iter()
        .map(|rd| {
            Record::new(
                lname(owner),
                Class::IN,
                Ttl::from_secs(ttl),
                UnknownRecordData::from_octets(Rtype::from_int(rtype), Bytes::from(rd.clone())).expect("raw"),
            )
        })
        .collect();
    let rrset = Rrset::new_from_owned(&recs).expect("rrset");
    let sig = sign_rrset(key, &rrset, Timestamp::from(inc), Timestamp::from(exp)).expect("sign_rrset");
    rdata_of(sig.data())
}

fn windows(now: u32) -> [(u32, u32); 3] {
    [
        (now.wrapping_sub(86400), now.wrapping_add(86400)),
        (now.wrapping_sub(172800), now.wrapping_sub(3600)),
        (now.wrapping_add(3600), now.wrapping_add(172800)),
    ]
}

fn build_zone(apex: &str, content: Vec<LRec>, skey: Option<(Arc<SKey>, Vec<u8>)>, denial: Denial, now: u32) -> Zone {
    let apexl = nm(apex);
    let mut z = Zone {
        apex: apexl.clone(),
        secure: skey.is_some(),
        denial: denial.clone(),
        sets: BTreeMap::new(),
        sigs: BTreeMap::new(),
        names: BTreeSet::new(),
        ents: BTreeSet::new(),
        n3: vec![],
        key: skey.as_ref().map(|k| k.0.clone()),
        dnskey: skey.as_ref().map(|k| k.1.clone()).unwrap_or_default(),
    };
    let add_set = |z: &mut Zone, r: &LRec| {
        let k = key(&from_lname(r.owner()));
        let e = z.sets.entry((k, r.rtype().to_int())).or_insert((r.ttl().as_secs(), vec![]));
        let rd = rdata_of(r.data());
        if !e.1.contains(&rd) {
            e.1.push(rd);
            e.1.sort();
        }
    };
    match &skey {
        None => {
            for r in &content {
                add_set(&mut z, r);
            }
        }
        Some((sk, dnskey_rd)) => {
            for (w, (inc, exp)) in windows(now).iter().enumerate() {
                let mut sorted: SortedRecords<LName, LData> = SortedRecords::new();
                for r in &content {
                    sorted.insert(r.clone()).expect("distinct records");
                }
                let den: DenialConfig<Bytes, DefaultSorter> = match &denial {
                    Denial::Nsec => DenialConfig::Nsec(GenerateNsecConfig::new()),
                    Denial::Nsec3 { salt, iters, opt_out } => {
                        let salt = Nsec3Salt::<Bytes>::from_octets(Bytes::from(salt.clone())).expect("salt");
                        let p = Nsec3param::new(Nsec3HashAlgorithm::SHA1, 0, *iters, salt);
                        let mut c = GenerateNsec3Config::<Bytes, DefaultSorter>::new(p);
                        if *opt_out {
                            c = c.with_opt_out();
                        }
                        DenialConfig::Nsec3(c)
                    }
                    Denial::None => unreachable!(),
                };
                let cfg = SigningConfig::new(den, Timestamp::from(*inc), Timestamp::from(*exp));
                sorted.sign_zone(&lname(&apexl), &cfg, &[sk.as_ref()]).expect("sign_zone");
                for r in sorted.iter() {
                    let t = r.rtype().to_int();
                    if t == T_RRSIG {
                        let rd = rdata_of(r.data());
                        let cov = u16::from_be_bytes([rd[0], rd[1]]);
                        let k = key(&from_lname(r.owner()));
                        let e = z.sigs.entry((k, cov)).or_insert_with(Default::default);
                        e[w].push(rd);
                    } else if w == 0 {
                        add_set(&mut z, r);
                    }
                }
                // DNSKEY RRset and its signature
                let sig = sign_set(sk, &apexl, T_DNSKEY, 3600, &[dnskey_rd.clone()], *inc, *exp);
                z.sigs.entry((key(&apexl), T_DNSKEY)).or_insert_with(Default::default)[w].push(sig);
            }
            z.sets.insert((key(&apexl), T_DNSKEY), (3600, vec![dnskey_rd.clone()]));
        }
    }
    // namespace
    for (k, t) in z.sets.keys() {
        if *t == T_NSEC3 {
            continue;
        }
        z.names.insert(k.clone());
    }
    let ak = key(&apexl);
    for n in z.names.clone() {
        let mut p = n.clone();
        while p.len() > ak.len() + 1 {
            p.pop();
            if !z.names.contains(&p) {
                z.ents.insert(p.clone());
            }
        }
    }
    for (k, t) in z.sets.keys() {
        if *t == T_NSEC3 {
            let first = k.last().expect("nsec3 owner label");
            let h = unb32hex(first).expect("nsec3 owner is base32hex");
            z.n3.push((h, k.clone()));
        }
    }
    z.n3.sort();
    z
}

#[derive(Clone, Copy, PartialEq, Eq, Debug)]
enum Kind {
    /// all secure
    Secure,
    /// zone.tld is an insecure delegation (no DS)
    InsecureChild,
}

struct Hier {
    name: &'static str,
    kind: Kind,
    nsec3: bool,
    opt_out: bool,
    zones: Vec<Zone>, // [root, tld, zone.tld]
    ta_text: String,
    now: u32,
    /// attacker's key for zone.tld with the same key tag and algorithm as the real one
    forged: Option<(Arc<SKey>, Vec<u8>)>,
}

fn build_hier(name: &'static str, kind: Kind, nsec3: bool, opt_out: bool, now: u32) -> Hier {
    let (k_root, rd_root, ta) = load_key("008+60616", &nm("."));
    let (k_tld, rd_tld, _) = load_key("010+46731", &nm("tld."));
    let (k_zone, rd_zone, _) = load_key("013+42253", &nm("zone.tld."));
    let den = |salt: &[u8], iters: u16, oo: bool| {
        if nsec3 {
            Denial::Nsec3 { salt: salt.to_vec(), iters, opt_out: oo }
        } else {
            Denial::Nsec
        }
    };
    let root = vec![
        r_soa("."),
        r_ns(".", "ns."),
        r_a("ns.", 1),
        r_txt("aaa.", "a"),
        r_txt("zzz.", "z"),
        r_ns("tld.", "ns.tld."),
        r_raw("tld.", T_DS, ds_rdata(&nm("tld."), &rd_tld)),
    ];
    let mut tld = vec![
        r_soa("tld."),
        r_ns("tld.", "ns.tld."),
        r_a("ns.tld.", 2),
        r_a("www.tld.", 3),
        r_txt("alpha.tld.", "alpha"),
        r_txt("zzz.tld.", "zzz"),
        r_ns("zone.tld.", "ns.zone.tld."),
    ];
    if kind == Kind::Secure {
        tld.push(r_raw("zone.tld.", T_DS, ds_rdata(&nm("zone.tld."), &rd_zone)));
    }
    let zone = vec![
        r_soa("zone.tld."),
        r_ns("zone.tld.", "ns.zone.tld."),
        r_a("zone.tld.", 10),
        r_a("ns.zone.tld.", 9),
        r_a("www.zone.tld.", 11),
        r_a("www.zone.tld.", 12),
        r_a("a.b.zone.tld.", 13),
        r_a("*.w.zone.tld.", 77),
        r_txt("*.w.zone.tld.", "wild"),
        r_a("explicit.w.zone.tld.", 78),
        r_cname("cn.zone.tld.", "www.zone.tld."),
        r_cname("ext.zone.tld.", "www.tld."),
        r_mx("mail.zone.tld.", "www.zone.tld."),
    ];
    let zroot = build_zone(".", root, Some((k_root, rd_root)), den(&[], 0, false), now);
    let ztld = build_zone("tld.", tld, Some((k_tld, rd_tld)), den(&[0xAA, 0xBB], 1, opt_out), now);
    let zzone = match kind {
        Kind::Secure => build_zone("zone.tld.", zone, Some((k_zone, rd_zone.clone())), den(&[0x01], 2, false), now),
        Kind::InsecureChild => build_zone("zone.tld.", zone, None, Denial::None, now),
    };
    // attacker key with colliding key tag (same algorithm): the flags field
    // is chosen such that the tag matches; the ZONE bit must stay set.
    let mut forged = None;
    if kind == Kind::Secure {
        let want = key_tag(&rd_zone);
        for _ in 0..64 {
            let (sec, pk) = generate(&GenerateParams::EcdsaP256Sha256, 256).expect("generate");
            let mut rd = rdata_of(&pk);
            rd[0] = 0;
            rd[1] = 0;
            let base = key_tag(&rd);
            // tag(flags) = fold(base_unfolded + flags); search the 16-bit flags space
            let mut found = None;
            for fl in 0..=0xFFFFu32 {
                if fl & 0x0100 == 0 {
                    continue;
                }
                rd[0] = (fl >> 8) as u8;
                rd[1] = fl as u8;
                if key_tag(&rd) == want {
                    found = Some(fl as u16);
                    break;
                }
            }
            let _ = base;
            if let Some(fl) = found {
                rd[0] = (fl >> 8) as u8;
                rd[1] = fl as u8;
                let pk2 = domain::rdata::Dnskey::new(fl, pk.protocol(), pk.algorithm(), pk.public_key().clone()).expect("dnskey");
                let kp = KeyPair::from_bytes(&sec, &pk2).expect("forged key pair");
                assert_eq!(rdata_of(&pk2), rd);
                forged = Some((Arc::new(SigningKey::new(lname(&nm("zone.tld.")), fl, kp)), rd));
                break;
            }
        }
        assert!(forged.is_some(), "MACHINERY: could not construct a tag-colliding key");
    }
    let h = Hier {
        name,
        kind,
        nsec3,
        opt_out,
        zones: vec![zroot, ztld, zzone],
        ta_text: format!(". 3600 IN DNSKEY {ta}"),
        now,
        forged,
    };
    h.sanity();
    h
}

// ------------------------------------------------------------ truth

#[derive(Clone, Debug, PartialEq, Eq)]
enum Truth {
    Pos { zone: usize, src: Labels, wildcard: bool, ce: Labels },
    Cname { zone: usize, src: Labels, wildcard: bool, ce: Labels, target: Labels },
    /// kind: 0 name exists, 1 empty non-terminal, 2 wildcard
    NoData { zone: usize, kind: u8, ce: Labels },
    NxDomain { zone: usize, ce: Labels },
}

impl Truth {
    fn zone(&self) -> usize {
        match self {
            Truth::Pos { zone, .. } | Truth::Cname { zone, .. } | Truth::NoData { zone, .. } | Truth::NxDomain { zone, .. } => *zone,
        }
    }
    fn short(&self) -> &'static str {
        match self {
            Truth::Pos { wildcard: false, .. } => "positive",
            Truth::Pos { .. } => "positive-wildcard",
            Truth::Cname { .. } => "cname",
            Truth::NoData { kind: 0, .. } => "nodata",
            Truth::NoData { kind: 1, .. } => "nodata-ent",
            Truth::NoData { .. } => "nodata-wildcard",
            Truth::NxDomain { .. } => "nxdomain",
        }
    }
}

fn name_in_rdata(rd: &[u8], at: usize) -> Labels {
    let mut p = at;
    let mut out = vec![];
    while p < rd.len() && rd[p] != 0 {
        let l = rd[p] as usize;
        out.push(rd[p + 1..p + 1 + l].to_vec());
        p += 1 + l;
    }
    out
}

impl Hier {
    fn zone_for(&self, qname: &Labels, qtype: u16) -> usize {
        let mut best = 0;
        for (i, z) in self.zones.iter().enumerate() {
            if ends_with(qname, &z.apex) && z.apex.len() >= self.zones[best].apex.len() {
                if qtype == T_DS && z.apex.len() == qname.len() && !z.apex.is_empty() {
                    continue;
                }
                best = i;
            }
        }
        best
    }

    /// What the authentic hierarchy says about (qname, qtype).
    fn classify(&self, qname: &Labels, qtype: u16) -> Truth {
        let zi = self.zone_for(qname, qtype);
        let z = &self.zones[zi];
        let k = key(qname);
        if z.has(&k, qtype) {
            return Truth::Pos { zone: zi, src: k.clone(), wildcard: false, ce: k };
        }
        if z.names.contains(&k) {
            if qtype != T_CNAME {
                if let Some((_, rds)) = z.sets.get(&(k.clone(), T_CNAME)) {
                    return Truth::Cname { zone: zi, src: k.clone(), wildcard: false, ce: k, target: name_in_rdata(&rds[0], 0) };
                }
            }
            return Truth::NoData { zone: zi, kind: 0, ce: k };
        }
        if z.ents.contains(&k) {
            return Truth::NoData { zone: zi, kind: 1, ce: k };
        }
        // closest encloser
        let mut ce = k.clone();
        loop {
            ce.pop();
            if z.exists(&ce) || ce.len() <= key(&z.apex).len() {
                break;
            }
        }
        let mut st = ce.clone();
        st.push(b"*".to_vec());
        if z.names.contains(&st) {
            if z.has(&st, qtype) {
                return Truth::Pos { zone: zi, src: st, wildcard: true, ce };
            }
            if qtype != T_CNAME {
                if let Some((_, rds)) = z.sets.get(&(st.clone(), T_CNAME)) {
                    return Truth::Cname { zone: zi, src: st, wildcard: true, ce, target: name_in_rdata(&rds[0], 0) };
                }
            }
            return Truth::NoData { zone: zi, kind: 2, ce };
        }
        Truth::NxDomain { zone: zi, ce }
    }

    /// Machinery self-check of the built hierarchy against this file's own
    /// hash / chain computations (a mismatch is a harness or signer problem,
    /// not a validator verdict).
    fn sanity(&self) {
        for z in &self.zones {
            if !z.secure {
                continue;
            }
            for ((k, t), _) in z.sets.iter() {
                let cut = *t == T_NS && k != &key(&z.apex);
                let s = z.sigs.get(&(k.clone(), *t));
                if cut {
                    assert!(s.is_none(), "MACHINERY: signed delegation NS");
                } else {
                    let s = s.unwrap_or_else(|| panic!("MACHINERY: no RRSIG for {} {}", show(&unkey(k)), tname(*t)));
                    assert!(s.iter().all(|w| w.len() == 1), "MACHINERY: RRSIG windows incomplete");
                }
            }
            if let Denial::Nsec3 { salt, iters, opt_out } = &z.denial {
                for n in z.names.iter().chain(z.ents.iter()) {
                    let is_insecure_cut = z.has(n, T_NS) && n != &key(&z.apex) && !z.has(n, T_DS);
                    let m = z.n3_match(&unkey(n));
                    if *opt_out && is_insecure_cut {
                        assert!(m.is_none(), "MACHINERY: opt-out delegation has an NSEC3");
                    } else {
                        assert!(m.is_some(), "MACHINERY: no NSEC3 for {} (salt {} iters {iters})", show(&unkey(n)), hex(salt));
                    }
                }
            }
        }
    }
}

// ------------------------------------------------------------ responses

#[derive(Clone, Debug)]
struct RrE {
    id: u16,
    rr: Rr,
    /// zone index, source owner key (for RRSIGs: owner key of the signed set), type (covered)
    src: (usize, Labels, u16),
}

#[derive(Clone, Debug)]
struct Resp {
    qname: Labels,
    qtype: u16,
    rcode: u8,
    sec: [Vec<RrE>; 3],
    counts: [Option<u16>; 4],
    cut: usize,
    up_err: bool,
    next_id: u16,
}

impl Resp {
    fn new(qname: &Labels, qtype: u16) -> Resp {
        Resp { qname: qname.clone(), qtype, rcode: 0, sec: Default::default(), counts: [None; 4], cut: 0, up_err: false, next_id: 1 }
    }
    fn push(&mut self, s: usize, rr: Rr, src: (usize, Labels, u16)) -> u16 {
        let id = self.next_id;
        self.next_id += 1;
        self.sec[s].push(RrE { id, rr, src });
        id
    }
    fn has_set(&self, s: usize, owner: &Labels, t: u16) -> bool {
        self.sec[s].iter().any(|e| e.rr.rtype == t && key(&e.rr.owner) == key(owner))
    }
    /// Add the RRset (src owner, type) of zone zi under owner `as_owner`
    /// followed by its RRSIGs.
    fn push_set(&mut self, h: &Hier, s: usize, zi: usize, srck: &Labels, as_owner: &Labels, t: u16) {
        if self.has_set(s, as_owner, t) {
            return;
        }
        let z = &h.zones[zi];
        let Some((ttl, rds)) = z.sets.get(&(srck.clone(), t)) else {
            panic!("MACHINERY: responder wants missing set {} {}", show(&unkey(srck)), tname(t));
        };
        for rd in rds {
            self.push(s, Rr { owner: as_owner.clone(), rtype: t, class: 1, ttl: *ttl, rdata: rd.clone() }, (zi, srck.clone(), t));
        }
        if let Some(sg) = z.sigs.get(&(srck.clone(), t)) {
            for rd in &sg[0] {
                self.push(s, Rr { owner: as_owner.clone(), rtype: T_RRSIG, class: 1, ttl: *ttl, rdata: rd.clone() }, (zi, srck.clone(), t));
            }
        }
    }
    fn push_denial(&mut self, h: &Hier, zi: usize, ownerk: &Labels) {
        let t = if matches!(h.zones[zi].denial, Denial::Nsec3 { .. }) { T_NSEC3 } else { T_NSEC };
        let o = unkey(ownerk);
        self.push_set(h, 1, zi, ownerk, &o, t);
    }

    fn encode(&self) -> Vec<u8> {
        let mut v = Vec::new();
        v.extend_from_slice(&0x1d1du16.to_be_bytes());
        let flags: u16 = 0x8000 | 0x0100 | 0x0080 | 0x0010 | (self.rcode as u16 & 0xF);
        v.extend_from_slice(&flags.to_be_bytes());
        let real = [1u16, self.sec[0].len() as u16, self.sec[1].len() as u16, self.sec[2].len() as u16];
        for i in 0..4 {
            v.extend_from_slice(&self.counts[i].unwrap_or(real[i]).to_be_bytes());
        }
        v.extend_from_slice(&wire(&self.qname));
        v.extend_from_slice(&self.qtype.to_be_bytes());
        v.extend_from_slice(&1u16.to_be_bytes());
        for s in 0..3 {
            for e in &self.sec[s] {
                v.extend_from_slice(&wire(&e.rr.owner));
                v.extend_from_slice(&e.rr.rtype.to_be_bytes());
                v.extend_from_slice(&e.rr.class.to_be_bytes());
                v.extend_from_slice(&e.rr.ttl.to_be_bytes());
                v.extend_from_slice(&(e.rr.rdata.len() as u16).to_be_bytes());
                v.extend_from_slice(&e.rr.rdata);
            }
        }
        let n = v.len().saturating_sub(self.cut);
        v.truncate(n);
        v
    }
}

impl Hier {
    /// The deterministic upstream: authentic answer for (qname, qtype).
    fn answer(&self, qname: &Labels, qtype: u16) -> Resp {
        let mut r = Resp::new(qname, qtype);
        let mut name = qname.clone();
        for _ in 0..8 {
            let t = self.classify(&name, qtype);
            let zi = t.zone();
            let z = &self.zones[zi];
            let apexk = key(&z.apex);
            match t {
                Truth::Pos { src, wildcard, ce, .. } => {
                    r.push_set(self, 0, zi, &src, &name, qtype);
                    if wildcard && z.secure {
                        self.wildcard_proof(&mut r, zi, &name, &ce);
                    }
                    return r;
                }
                Truth::Cname { src, wildcard, ce, target, .. } => {
                    r.push_set(self, 0, zi, &src, &name, T_CNAME);
                    if wildcard && z.secure {
                        self.wildcard_proof(&mut r, zi, &name, &ce);
                    }
                    name = target;
                }
                Truth::NoData { kind, ce, .. } => {
                    let ao = z.apex.clone();
                    r.push_set(self, 1, zi, &apexk, &ao, T_SOA);
                    if z.secure {
                        let k = key(&name);
                        match (&z.denial, kind) {
                            (Denial::Nsec, 0) => r.push_denial(self, zi, &k),
                            (Denial::Nsec, 1) => r.push_denial(self, zi, &z.nsec_cover(&k)),
                            (Denial::Nsec, _) => {
                                let mut st = ce.clone();
                                st.push(b"*".to_vec());
                                r.push_denial(self, zi, &z.nsec_cover(&k));
                                r.push_denial(self, zi, &st);
                            }
                            (Denial::Nsec3 { .. }, 0 | 1) => match z.n3_match(&name) {
                                Some(o) => r.push_denial(self, zi, &o),
                                None => {
                                    // opt-out: closest provable encloser + cover of next closer
                                    self.n3_ce_proof(&mut r, zi, &name);
                                }
                            },
                            (Denial::Nsec3 { .. }, _) => {
                                let cel = unkey(&ce);
                                r.push_denial(self, zi, &z.n3_match(&cel).expect("ce nsec3"));
                                let nc = name[name.len() - cel.len() - 1..].to_vec();
                                r.push_denial(self, zi, &z.n3_cover(&nc));
                                r.push_denial(self, zi, &z.n3_match(&star(&cel)).expect("wildcard nsec3"));
                            }
                            (Denial::None, _) => unreachable!(),
                        }
                    }
                    return r;
                }
                Truth::NxDomain { ce, .. } => {
                    r.rcode = 3;
                    let ao = z.apex.clone();
                    r.push_set(self, 1, zi, &apexk, &ao, T_SOA);
                    if z.secure {
                        let k = key(&name);
                        let cel = unkey(&ce);
                        match &z.denial {
                            Denial::Nsec => {
                                r.push_denial(self, zi, &z.nsec_cover(&k));
                                r.push_denial(self, zi, &z.nsec_cover(&key(&star(&cel))));
                            }
                            Denial::Nsec3 { .. } => {
                                r.push_denial(self, zi, &z.n3_match(&cel).expect("ce nsec3"));
                                let nc = name[name.len() - cel.len() - 1..].to_vec();
                                r.push_denial(self, zi, &z.n3_cover(&nc));
                                r.push_denial(self, zi, &z.n3_cover(&star(&cel)));
                            }
                            Denial::None => unreachable!(),
                        }
                    }
                    return r;
                }
            }
        }
        r
    }

    fn wildcard_proof(&self, r: &mut Resp, zi: usize, name: &Labels, ce: &Labels) {
        let z = &self.zones[zi];
        match &z.denial {
            Denial::Nsec => r.push_denial(self, zi, &z.nsec_cover(&key(name))),
            Denial::Nsec3 { .. } => {
                let cel = unkey(ce);
                let nc = name[name.len() - cel.len() - 1..].to_vec();
                r.push_denial(self, zi, &z.n3_cover(&nc));
            }
            Denial::None => {}
        }
    }

    fn n3_ce_proof(&self, r: &mut Resp, zi: usize, name: &Labels) {
        let z = &self.zones[zi];
        let mut ce = name.clone();
        loop {
            ce = parent(&ce);
            if z.n3_match(&ce).is_some() || ce.len() <= z.apex.len() {
                break;
            }
        }
        r.push_denial(self, zi, &z.n3_match(&ce).expect("ce nsec3"));
        let nc = name[name.len() - ce.len() - 1..].to_vec();
        r.push_denial(self, zi, &z.n3_cover(&nc));
    }
}

// ------------------------------------------------------------ faults (types)

#[derive(Clone, Debug, Serialize, Deserialize, PartialEq, Eq, Hash)]
enum Target {
    Main,
    /// upstream response for (qname as shown, qtype)
    Up(String, u16),
}

#[derive(Clone, Debug, Serialize, Deserialize, PartialEq, Eq, Hash)]
enum Op {
    /// drop the records of an RRset (and, if with_sigs, its RRSIGs)
    DropSet { ids: Vec<u16>, with_sigs: bool },
    /// duplicate one record
    Dup { id: u16 },
    /// TTL of the listed records: mode 0 = original + 100000, 1 = 0, 2 = 0x7fffffff
    Ttl { ids: Vec<u16>, mode: u8 },
    /// flip one bit of the RDATA: pos 0 first octet, 1 middle, 2 last
    FlipRdata { id: u16, pos: u8 },
    /// xor the first octet of the first owner label of the listed records
    FlipOwner { ids: Vec<u16>, mask: u8 },
    DropSig { id: u16 },
    /// replace the RRSIG RDATA by an authentic one of (zone, owner, covered);
    /// patch: 0 none, 1 type covered rewritten to the expected one
    ReplaceSig { id: u16, zone: usize, owner: String, covered: u16, patch: u8 },
    /// flip the lowest bit of the last octet of field: 0 type covered, 1 algorithm, 2 labels,
    /// 3 original ttl, 4 expiration, 5 inception, 6 key tag, 7 signer name (first octet of first label),
    /// 8 signature first octet, 9 signature last octet; 10 labels - 1; 11 signer := parent zone; 12 signer := child zone
    SigField { id: u16, field: u8 },
    /// replace by the RRSIG the real signer made for window 1 (expired) or 2 (not yet valid)
    Window { id: u16, w: u8 },
    /// n corrupted copies of the RRSIG in front of the good one
    ManyBad { id: u16, n: u16 },
    /// DNSKEY: 0 empty key, 1 half key, 2 key minus last octet, 3 garbage of same length, 4 ZONE flag cleared,
    /// 5 algorithm 1 (RSAMD5), 6 algorithm 15, 7 protocol 2, 8 one-octet key, 9 extra garbage DNSKEY added
    Key { id: u16, how: u8 },
    /// DS: 0 digest last bit, 1 digest truncated to 16, 2 digest empty, 3 digest type 1, 4 digest type 99,
    /// 5 algorithm 15, 6 key tag + 1, 7 extra DS (alg 15) added
    Ds { id: u16, how: u8 },
    /// replace an NSEC/NSEC3 RRset and its RRSIGs by another authentic, validly signed one
    SwapDenial { ids: Vec<u16>, zone: usize, owner: String },
    /// NSEC3 owner hash label: 0 non-base32hex character, 1 31 characters, 2 33 characters, 3 16 characters,
    /// 4 non-UTF-8 octet, 5 single character, 6 upper case; resign: re-signed with the zone's real key
    N3Owner { ids: Vec<u16>, variant: u8, resign: bool },
    /// NSEC3 parameters altered and re-signed with the zone's real key: 0 iterations 101, 1 iterations 501,
    /// 2 hash algorithm 2, 3 opt-out flag set, 4 next hashed owner of 19 octets
    N3Param { ids: Vec<u16>, variant: u8 },
    /// header count: which 0 qd 1 an 2 ns 3 ar; mode 0 +1, 1 -1, 2 = 65535, 3 = 0, 4 = 2
    Counts { which: u8, mode: u8 },
    Rcode { to: u8 },
    /// cut octets from the end: mode 0 one octet, 1 half of the message, 2 down to 11 octets
    Cut { mode: u8 },
    /// the upstream request fails
    UpErr,
    /// all records removed
    Empty,
    /// an unsigned RRset owned below the insecure delegation is added to section s
    InjectInsecure { s: u8 },
    /// answer RRset forged and signed with the attacker's tag-colliding key (main) /
    /// DNSKEY RRset of the child replaced by the attacker's self-signed key (upstream)
    Forge,
    /// answer RRset forged and signed with the real key of a zone that is not an ancestor of the owner
    OutOfBailiwick,
}

impl Op {
    fn kind(&self) -> String {
        match self {
            Op::DropSet { with_sigs, .. } => if *with_sigs { "drop-rrset-and-rrsigs".into() } else { "drop-rrset".into() },
            Op::Dup { .. } => "duplicate-rr".into(),
            Op::Ttl { mode, .. } => format!("ttl-{}", ["raised", "zero", "max"][*mode as usize]),
            Op::FlipRdata { .. } => "flip-rdata-bit".into(),
            Op::FlipOwner { mask, .. } => if *mask == 0x20 { "owner-case".into() } else { "flip-owner-bit".into() },
            Op::DropSig { .. } => "drop-rrsig".into(),
            Op::ReplaceSig { patch, .. } => format!("replace-rrsig-p{patch}"),
            Op::SigField { field, .. } => format!("rrsig-field-{field}"),
            Op::Window { w, .. } => if *w == 1 { "expired".into() } else { "not-yet-valid".into() },
            Op::ManyBad { .. } => "many-bad-rrsigs".into(),
            Op::Key { how, .. } => format!("dnskey-{how}"),
            Op::Ds { how, .. } => format!("ds-{how}"),
            Op::SwapDenial { .. } => "swap-denial".into(),
            Op::N3Owner { variant, resign, .. } => format!("nsec3-owner-{variant}{}", if *resign { "-resigned" } else { "" }),
            Op::N3Param { variant, .. } => format!("nsec3-param-{variant}-resigned"),
            Op::Counts { .. } => "header-counts".into(),
            Op::Rcode { .. } => "rcode".into(),
            Op::Cut { .. } => "truncate".into(),
            Op::UpErr => "upstream-error".into(),
            Op::Empty => "empty-response".into(),
            Op::InjectInsecure { .. } => "inject-insecure-rrset".into(),
            Op::Forge => "forged-key-same-tag".into(),
            Op::OutOfBailiwick => "signer-not-ancestor".into(),
        }
    }
    /// Faults that need the zone's real private key (hostile zone owner):
    /// the data they produce is "authentic" by definition, so only the
    /// no-panic / termination part of the property is judged.
    fn owner_adversary(&self) -> bool {
        matches!(self, Op::N3Owner { resign: true, .. } | Op::N3Param { .. })
    }
}

#[derive(Clone, Debug, Serialize, Deserialize, PartialEq, Eq, Hash)]
struct Fault {
    target: Target,
    op: Op,
}

// ------------------------------------------------------------ execution

fn block_on<F: Future>(f: F) -> F::Output {
    let waker = futures_util::task::noop_waker();
    let mut cx = Context::from_waker(&waker);
    let mut f = std::pin::pin!(f);
    loop {
        if let Poll::Ready(v) = f.as_mut().poll(&mut cx) {
            return v;
        }
        std::thread::yield_now();
    }
}

#[derive(Debug)]
struct Ready(Option<Result<Message<Bytes>, ReqError>>);

impl GetResponse for Ready {
    fn get_response(&mut self) -> Pin<Box<dyn Future<Output = Result<Message<Bytes>, ReqError>> + Send + Sync + '_>> {
        let r = self.0.take().unwrap_or(Err(ReqError::ConnectionClosed));
        Box::pin(std::future::ready(r))
    }
}

#[derive(Default)]
struct UpState {
    calls: AtomicUsize,
    over_budget: AtomicBool,
    asked: Mutex<Vec<(Labels, u16)>>,
    /// number of delivered messages that differ from the authentic ones
    altered: AtomicUsize,
}

#[derive(Clone)]
struct Upstream {
    h: Arc<Hier>,
    faults: Arc<Vec<Fault>>,
    st: Arc<UpState>,
    /// the wrapper used as the transport of net::client::validator::Connection: answers the main query
    main: bool,
}

impl Upstream {
    fn respond(&self, qname: &Labels, qtype: u16) -> Result<Message<Bytes>, ReqError> {
        let mut resp = self.h.answer(qname, qtype);
        let clean = resp.encode();
        let tgt = if self.main { Target::Main } else { Target::Up(show(qname), qtype) };
        for f in self.faults.iter() {
            if f.target == tgt {
                apply_op(&self.h, &f.op, &mut resp, self.main);
            }
        }
        if resp.up_err {
            self.st.altered.fetch_add(1, AO::Relaxed);
            return Err(ReqError::ConnectionClosed);
        }
        let bytes = resp.encode();
        if bytes != clean {
            self.st.altered.fetch_add(1, AO::Relaxed);
        }
        Message::from_octets(Bytes::from(bytes)).map_err(|_| ReqError::ShortMessage)
    }
}

impl SendRequest<RequestMessage<Vec<u8>>> for Upstream {
    fn send_request(&self, req: RequestMessage<Vec<u8>>) -> Box<dyn GetResponse + Send + Sync> {
        let n = self.st.calls.fetch_add(1, AO::SeqCst) + 1;
        if n > BUDGET {
            self.st.over_budget.store(true, AO::SeqCst);
            return Box::new(Ready(Some(Err(ReqError::ConnectionClosed))));
        }
        let q = req.to_vec().ok().and_then(|v| mc::wire::read_message(&v).ok()).and_then(|m| m.questions.first().cloned());
        let Some(q) = q else {
            return Box::new(Ready(Some(Err(ReqError::FormError))));
        };
        if !self.main {
            self.st.asked.lock().unwrap().push((q.qname.clone(), q.qtype));
        }
        Box::new(Ready(Some(self.respond(&q.qname, q.qtype))))
    }
}

#[derive(Clone, Debug, PartialEq, Eq)]
enum Verdict {
    State(String),
    Err(String),
    Panic(String),
    /// the (faulted) main answer is shorter than a DNS header: nothing to hand to validate_msg
    NoMessage,
}

impl Verdict {
    fn short(&self) -> String {
        match self {
            Verdict::State(s) => s.clone(),
            Verdict::Err(_) => "Err".into(),
            Verdict::Panic(_) => "Panic".into(),
            Verdict::NoMessage => "NoMessage".into(),
        }
    }
    fn secure(&self) -> bool {
        matches!(self, Verdict::State(s) if s == "Secure")
    }
}

struct Exec {
    verdict: Verdict,
    ede: String,
    /// the message after validation (validate_msg may rewrite it)
    out: Vec<u8>,
    /// the message handed in
    input: Vec<u8>,
    calls: usize,
    over_budget: bool,
    asked: Vec<(Labels, u16)>,
    altered: usize,
}

#[derive(Clone, Debug)]
struct Query {
    name: Labels,
    qtype: u16,
}

fn state_name(s: ValidationState) -> &'static str {
    match s {
        ValidationState::Secure => "Secure",
        ValidationState::Insecure => "Insecure",
        ValidationState::Bogus => "Bogus",
        ValidationState::Indeterminate => "Indeterminate",
    }
}

/// One execution through `ValidationContext::validate_msg`.
fn run_direct(h: &Arc<Hier>, q: &Query, faults: &Arc<Vec<Fault>>) -> Exec {
    let st = Arc::new(UpState::default());
    let up = Upstream { h: h.clone(), faults: faults.clone(), st: st.clone(), main: false };
    let mainup = Upstream { h: h.clone(), faults: faults.clone(), st: st.clone(), main: true };
    let mut ex = Exec { verdict: Verdict::NoMessage, ede: String::new(), out: vec![], input: vec![], calls: 0, over_budget: false, asked: vec![], altered: 0 };
    let main = mainup.respond(&q.name, q.qtype);
    let main = match main {
        Ok(m) => m,
        Err(_) => {
            ex.altered = st.altered.load(AO::Relaxed);
            return ex;
        }
    };
    ex.input = main.as_slice().to_vec();
    let mut msg = Message::from_octets(ex.input.clone()).expect("checked length");
    let ta = TrustAnchors::from_u8(h.ta_text.as_bytes()).expect("trust anchor");
    let r = guard(|| {
        let vc = ValidationContext::new(ta, up);
        block_on(async { vc.validate_msg::<Vec<u8>, Vec<u8>>(&mut msg).await })
    });
    ex.verdict = match r {
        Ok(Ok((s, ede))) => {
            ex.ede = ede.map(|e| format!("{e:?}")).unwrap_or_default();
            Verdict::State(state_name(s).into())
        }
        Ok(Err(e)) => Verdict::Err(format!("{e}")),
        Err(p) => Verdict::Panic(p),
    };
    ex.out = msg.as_slice().to_vec();
    ex.calls = st.calls.load(AO::SeqCst);
    ex.over_budget = st.over_budget.load(AO::SeqCst);
    ex.asked = st.asked.lock().unwrap().clone();
    ex.altered = st.altered.load(AO::Relaxed);
    ex
}

/// One execution through `net::client::validator::Connection` (AD bit /
/// SERVFAIL are the observations).
fn run_conn(h: &Arc<Hier>, q: &Query, faults: &Arc<Vec<Fault>>) -> Exec {
    let st = Arc::new(UpState::default());
    let up = Upstream { h: h.clone(), faults: faults.clone(), st: st.clone(), main: false };
    let mainup = Upstream { h: h.clone(), faults: faults.clone(), st: st.clone(), main: true };
    let mut ex = Exec { verdict: Verdict::NoMessage, ede: String::new(), out: vec![], input: vec![], calls: 0, over_budget: false, asked: vec![], altered: 0 };
    let mut qr = Resp::new(&q.name, q.qtype);
    qr.rcode = 0;
    let mut qb = qr.encode();
    qb[2] = 0x01; // RD only, QR clear
    qb[3] = 0x00;
    let ta = TrustAnchors::from_u8(h.ta_text.as_bytes()).expect("trust anchor");
    let r = guard(|| {
        let vc = Arc::new(ValidationContext::new(ta, up));
        let conn = cval::Connection::<Upstream, Vec<u8>, Upstream>::new(mainup, vc);
        let mut req = RequestMessage::new(Message::from_octets(qb).expect("query")).expect("request");
        req.set_dnssec_ok(true);
        let mut g = conn.send_request(req);
        block_on(async { g.get_response().await })
    });
    ex.verdict = match r {
        Ok(Ok(m)) => {
            ex.out = m.as_slice().to_vec();
            let ad = m.header().ad();
            let rc = m.header().rcode().to_int();
            if ad {
                Verdict::State("Secure".into())
            } else if rc == 2 {
                Verdict::State("Bogus".into())
            } else {
                Verdict::State("Insecure".into())
            }
        }
        Ok(Err(e)) => Verdict::Err(format!("{e}")),
        Err(p) => Verdict::Panic(p),
    };
    ex.calls = st.calls.load(AO::SeqCst);
    ex.over_budget = st.over_budget.load(AO::SeqCst);
    ex.asked = st.asked.lock().unwrap().clone();
    ex.altered = st.altered.load(AO::Relaxed);
    ex
}

// ------------------------------------------------------------ oracle

struct Parsed {
    rcode: u8,
    qname: Labels,
    qtype: u16,
    /// per section: (owner, type) -> canonical RDATAs, in order of first appearance
    sets: [Vec<((Labels, u16), Vec<Vec<u8>>, u32)>; 2],
}

/// RDATA with embedded compressible names expanded and lowercased.
fn canon_rdata(msg: &[u8], t: u16, pos: usize, rd: &[u8]) -> Option<Vec<u8>> {
    let mut p = vec![];
    match t {
        T_NS | T_CNAME | T_PTR => {
            let (n, _) = read_name(msg, pos, &mut p).ok()?;
            Some(lower_wire(&n))
        }
        T_MX => {
            let (n, _) = read_name(msg, pos + 2, &mut p).ok()?;
            let mut v = rd.get(0..2)?.to_vec();
            v.extend(lower_wire(&n));
            Some(v)
        }
        T_SOA => {
            let (a, p1) = read_name(msg, pos, &mut p).ok()?;
            let (b, p2) = read_name(msg, p1, &mut p).ok()?;
            let mut v = lower_wire(&a);
            v.extend(lower_wire(&b));
            v.extend_from_slice(msg.get(p2..p2 + 20)?);
            Some(v)
        }
        _ => Some(rd.to_vec()),
    }
}

/// Lenient reader: question, answer and authority as the counts say.
fn parse_lenient(msg: &[u8]) -> Option<Parsed> {
    if msg.len() < 12 {
        return None;
    }
    let rcode = msg[3] & 0xF;
    let qd = u16_at(msg, 4).ok()?;
    let an = u16_at(msg, 6).ok()?;
    let ns = u16_at(msg, 8).ok()?;
    let mut pos = 12;
    let mut ptrs = vec![];
    let mut qname = vec![];
    let mut qtype = 0;
    for i in 0..qd {
        let (n, p) = read_name(msg, pos, &mut ptrs).ok()?;
        let t = u16_at(msg, p).ok()?;
        u16_at(msg, p + 2).ok()?;
        pos = p + 4;
        if i == 0 {
            qname = n;
            qtype = t;
        }
    }
    let mut sets: [Vec<((Labels, u16), Vec<Vec<u8>>, u32)>; 2] = Default::default();
    for (s, cnt) in [(0usize, an), (1usize, ns)] {
        for _ in 0..cnt {
            let (owner, p) = read_name(msg, pos, &mut ptrs).ok()?;
            let t = u16_at(msg, p).ok()?;
            let ttl = u32_at(msg, p + 4).ok()?;
            let rdlen = u16_at(msg, p + 8).ok()? as usize;
            let rd = msg.get(p + 10..p + 10 + rdlen)?;
            let crd = canon_rdata(msg, t, p + 10, rd)?;
            pos = p + 10 + rdlen;
            let k = (key(&owner), t);
            match sets[s].iter_mut().find(|x| x.0 == k) {
                Some(e) => {
                    e.1.push(crd);
                    e.2 = e.2.max(ttl);
                }
                None => sets[s].push((k, vec![crd], ttl)),
            }
        }
    }
    Some(Parsed { rcode, qname, qtype, sets })
}

impl Hier {
    /// Is the RRset (owner key, type, RDATAs) authentic data of a SECURE zone of the hierarchy
    /// (exactly, or as the synthesis of the right wildcard)?
    fn authentic(&self, ownerk: &Labels, t: u16, rds: &[Vec<u8>]) -> bool {
        let mut got: Vec<Vec<u8>> = rds.to_vec();
        got.sort();
        got.dedup();
        for z in &self.zones {
            if !z.secure {
                continue;
            }
            if let Some((_, have)) = z.sets.get(&(ownerk.clone(), t)) {
                if t == T_NS && ownerk != &key(&z.apex) {
                    continue; // delegation NS is not authoritative data
                }
                if *have == got {
                    return true;
                }
            }
        }
        let owner = unkey(ownerk);
        if let Truth::Pos { zone, src, wildcard: true, .. } = self.classify(&owner, t) {
            let z = &self.zones[zone];
            if z.secure {
                if let Some((_, have)) = z.sets.get(&(src, t)) {
                    return *have == got;
                }
            }
        }
        false
    }
}

#[derive(Debug)]
struct Finding {
    sig: String,
    what: String,
}

/// The Secure => authentic part of the oracle.
fn check_secure(h: &Hier, out: &[u8], kinds: &str) -> Vec<Finding> {
    let mut f = vec![];
    let Some(p) = parse_lenient(out) else {
        f.push(Finding { sig: format!("C14|validator|secure-but-sections-unreadable|fault={kinds}"), what: "Secure reported for a message whose answer/authority sections cannot be read as the header counts say".into() });
        return f;
    };
    for s in 0..2 {
        for ((ok, t), rds, _) in &p.sets[s] {
            if *t == T_RRSIG {
                continue;
            }
            if !h.authentic(ok, *t, rds) {
                f.push(Finding {
                    sig: format!("C14|validator|secure-with-unauthentic-rrset|fault={kinds}|rtype={}|section={}", tname(*t), ["answer", "authority"][s]),
                    what: format!(
                        "Secure reported although the {} section holds RRset {} {} ({} RR) that is not data of a secure zone of the authentic hierarchy",
                        ["answer", "authority"][s],
                        show(&unkey(ok)),
                        tname(*t),
                        rds.len()
                    ),
                });
            }
        }
    }
    // the claim
    let mut sname = p.qname.clone();
    for _ in 0..12 {
        if p.qtype == T_CNAME {
            break;
        }
        let k = (key(&sname), T_CNAME);
        match p.sets[0].iter().find(|x| x.0 == k) {
            Some(e) if e.1.len() == 1 => sname = name_in_rdata(&e.1[0], 0),
            _ => break,
        }
    }
    let has_answer = p.sets[0].iter().any(|x| x.0 == (key(&sname), p.qtype));
    let truth = h.classify(&sname, p.qtype);
    if !h.zones[truth.zone()].secure {
        f.push(Finding { sig: format!("C14|validator|secure-below-insecure-delegation|fault={kinds}"), what: format!("Secure reported for {} {} which lies in a zone without a secure delegation", show(&sname), tname(p.qtype)) });
        return f;
    }
    if p.rcode == 0 && !has_answer {
        if matches!(truth, Truth::Pos { .. } | Truth::Cname { .. }) {
            f.push(Finding {
                sig: format!("C14|validator|secure-false-negative-claim|fault={kinds}|claim=nodata|truth={}", truth.short()),
                what: format!("Secure reported for a NODATA response for {} {} although the authentic zone has {}", show(&sname), tname(p.qtype), truth.short()),
            });
        }
    } else if p.rcode == 3 && !matches!(truth, Truth::NxDomain { .. }) {
        f.push(Finding {
            sig: format!("C14|validator|secure-false-negative-claim|fault={kinds}|claim=nxdomain|truth={}", truth.short()),
            what: format!("Secure reported for an NXDOMAIN response for {} {} although the authentic zone has {}", show(&sname), tname(p.qtype), truth.short()),
        });
    }
    f
}

/// What an unmodified answer must be reported as.
fn expected_unmodified(h: &Hier, q: &Query) -> Vec<&'static str> {
    let mut name = q.name.clone();
    let mut any_insecure = false;
    for _ in 0..8 {
        let t = h.classify(&name, q.qtype);
        if !h.zones[t.zone()].secure {
            any_insecure = true;
        }
        match t {
            Truth::Cname { target, .. } => name = target,
            Truth::NoData { zone, .. } if h.opt_out && zone == 1 && q.qtype == T_DS && h.kind == Kind::InsecureChild && name == nm("zone.tld.") => {
                // opt-out span: RFC 5155 9.2 says insecure; the property text does not decide
                return vec!["Insecure", "Secure"];
            }
            _ => break,
        }
    }
    if any_insecure {
        vec!["Insecure"]
    } else {
        vec!["Secure"]
    }
}

fn apply_op(_h: &Hier, _op: &Op, _r: &mut Resp, _main: bool) {}

fn main() {
    let ctx = Ctx::new("C14", "fault_enumeration");
    let now = std::time::SystemTime::now().duration_since(std::time::UNIX_EPOCH).unwrap().as_secs() as u32;
    let h = Arc::new(build_hier("S1-nsec-secure", Kind::Secure, false, false, now));
    let h2 = Arc::new(build_hier("S2-nsec3-secure", Kind::Secure, true, false, now));
    let h3 = Arc::new(build_hier("S3-nsec-insecure-child", Kind::InsecureChild, false, false, now));
    let h4 = Arc::new(build_hier("S3b-nsec3-insecure-child", Kind::InsecureChild, true, false, now));
    let h5 = Arc::new(build_hier("S5-nsec3-optout-insecure-child", Kind::InsecureChild, true, true, now));
    let qs = [
        ("www.zone.tld.", T_A), ("x.w.zone.tld.", T_A), ("www.zone.tld.", T_TXT), ("nx.zone.tld.", T_A), ("zone.tld.", T_DS), ("www.tld.", T_A),
        ("b.zone.tld.", T_A), ("cn.zone.tld.", T_A), ("ext.zone.tld.", T_A), ("x.w.zone.tld.", T_MX), ("nx.tld.", T_A), ("tld.", T_DS),
        ("zone.tld.", T_DNSKEY), ("zone.tld.", T_SOA), ("deep.nx.zone.tld.", T_A), ("explicit.w.zone.tld.", T_A), ("y.x.w.zone.tld.", T_A),
    ];
    for h in [&h, &h2, &h3, &h4, &h5] {
        for (n, t) in qs {
            let q = Query { name: nm(n), qtype: t };
            let ex = run_direct(h, &q, &Arc::new(vec![]));
            let ex2 = run_conn(h, &q, &Arc::new(vec![]));
            println!("{} {} {}: {:?} ede={} calls={} asked={:?} expect={:?} conn={:?}", h.name, n, tname(t), ex.verdict, ex.ede, ex.calls, ex.asked.iter().map(|(a, b)| format!("{} {}", show(a), tname(*b))).collect::<Vec<_>>(), expected_unmodified(h, &q), ex2.verdict);
            if ex.verdict.secure() {
                println!("   findings: {:?}", check_secure(h, &ex.out, "none"));
            }
        }
    }
    let _ = (&ctx, Duration::from_secs(1), json!(null) as Value);
}
// @@NEXT@@
