//! C18 — Base16 / Base32hex / Base64 codecs: exact inverses, RFC 4648
//! encodings, chunking independence, exact acceptance, no panic.
//!
//! Exhaustive enumeration (no sampling) of
//!   * every character string up to a length bound over a small alphabet of
//!     character *classes* per codec (zero-bits symbol, non-zero symbols,
//!     last symbol of the alphabet, first character outside it, `=`, illegal
//!     ASCII, non-ASCII, space), pushed through
//!       (a) `decode` / `decode_hex`,
//!       (b) `Decoder::push` char by char, CONTINUING AFTER ERRORS (the docs
//!           say "It is okay to push more data after the first error. The
//!           method will just keep returning errors."), then `finalize`:
//!           no panic, and once a push failed every later push and
//!           `finalize` must fail too (error-not-kept otherwise),
//!       (c) `SymbolConverter`, for every split of the string into <= 3
//!           tokens driven directly through `ConvertSymbols` (with
//!           `EndOfToken` markers like the zonefile scanner does), and for
//!           every split into <= 2 tokens also through the library's own
//!           `IterScanner::convert_entry/convert_token`;
//!   * an alphabet sweep: every pair of characters from U+0000..U+017F plus
//!     a few look-alikes, and every such character at every position of a
//!     full group (checks the whole decode table and the ASCII-only rule);
//!   * the encode space - all strings over {00,01,7F,80,FF} to length 5/7,
//!     ALL 1-, 2- (thorough: 3-) octet strings, every length 0..=200 with
//!     three fill patterns, and the lengths around multiples of 64 (63..65,
//!     127..129, 191..193, 255..257) with eight patterns - through `display`,
//!     `encode_string`, `encode_display`, then back through (a), (b), (c);
//!   * (extension) the same decode entry points into a 2-octet bounded
//!     buffer (`octseq::Array<2>`, base16/base64 Decoder made by `Default`);
//!   * further entry points doing the same job, on every text above:
//!     `decode` into `bytes::Bytes`, `base16::decode_vec`, and - for class
//!     strings up to 7 characters and every encoding of the encode space -
//!     `<module>::serde::deserialize` from a serde_json string; on every
//!     octet string of the encode space `<module>::serde::serialize`;
//!   * presentation-format escapes on the scanner routes: every string up to
//!     length 7/9 over {backslash, alphabet symbols, digits forming `\DDD`
//!     escapes of alphabet symbols, `=` / a non-symbol} that contains a
//!     backslash, through `IterScanner::convert_token/convert_entry` and
//!     through `SymbolConverter` fed explicit `Symbol::SimpleEscape/
//!     DecimalEscape` values at every 2-token split (see `check_escaped`);
//!   * the text forms built on the codecs (src/rdata/nsec3.rs): `Nsec3Salt`
//!     (base16, "-" = empty) and `OwnerHash` (base32hex), both limited to
//!     255 octets: every class string up to length 6/8 and every octet
//!     length 0..=300 x 3 patterns through FromStr, scan, serde Deserialize,
//!     from_octets, Display, serde Serialize (see `check_form_text`);
//!   * the FRONT ENDS that feed the converters when presentation format is
//!     read (see `check_front_text`): every record field that is Base 16 /
//!     Base 32 hex / Base 64 text - NSEC3 / NSEC3PARAM salt, NSEC3 next
//!     hashed owner, DS / CDS / ZONEMD / TLSA / SSHFP digests, DNSKEY /
//!     CDNSKEY / RRSIG / OPENPGPKEY / IPSECKEY keys and signatures, RFC 3597
//!     `\# len hex` (unknown and known type), the SVCB / HTTPS `ech=` value
//!     (plain and quoted) - written into a COMPLETE RECORD LINE and read by
//!     (R0) the zone-file reader `zonefile::inplace::Zonefile`, (R1)
//!     `ZoneRecordData::scan` / `UnknownRecordData::scan` over an
//!     `IterScanner`, (R2) `Ech::value_from_scan_octets` called directly.
//!     Texts: the reference encoding of every octet string of length 0..=12
//!     (thorough 0..=40) x fill patterns, and every class string (malformed
//!     families: incomplete final group, stray / short padding, illegal
//!     symbol, odd number of hex digits) up to a length bound; every split
//!     of the text into <= 2 (3) tokens where the format allows several;
//!     layouts {one line, parenthesised over several lines with comments} x
//!     {only entry of the file, between two other records}. Oracle: the
//!     record's wire-format RDATA written out from the RFCs with the
//!     reference decoding in the field; malformed text must make the reader
//!     fail; the records around it must be read unharmed.
//!
//! Oracle: an independent, table-driven RFC 4648 codec written below
//! (`Spec::encode`, `Spec::decode`). Well-formedness follows the variant the
//! module documents: base64 = padded (RFC 4648 section 4), base32hex =
//! UNPADDED ("The decoder does not support padding"; `display_hex` emits
//! none), case-insensitive; base16 = case-insensitive, no padding.
//! Non-zero trailing bits MAY be rejected (RFC 4648 section 3.5): both
//! behaviours are accepted and the observed one is recorded.
//! The standard (non-hex) base32 alphabet is not implemented by the module
//! ("This module currently only implements base32hex"), so there is nothing
//! to run for it.

use domain::base::iana::{Rtype, SvcParamKey};
use domain::base::name::{Name, ToName};
use domain::base::rdata::{ComposeRecordData, UnknownRecordData};
use domain::base::scan::{
    ConvertSymbols, EntrySymbol, IterScanner, Scanner, StrError, Symbol,
};
use domain::rdata::svcb::value::Ech;
use domain::rdata::svcb::ScanSvcParamValue;
use domain::rdata::ZoneRecordData;
use domain::zonefile::inplace::{Entry, Zonefile};
use domain::utils::base64::DecodeError;
use domain::rdata::nsec3::{Nsec3Salt, OwnerHash};
use domain::utils::{base16, base32, base64};
use mc::*;
use octseq::array::Array;
use rayon::prelude::*;
use serde_json::{json, Value};
use std::cell::Cell;
use std::collections::BTreeMap;
use std::sync::{Arc, Mutex};
use std::time::Duration;

// ===================================================================
// Independent reference codec (RFC 4648), table driven
// ===================================================================

/// RFC 4648 Table 1 (base64), Table 4 (base32hex, "Extended Hex"), Table 5 (base16).
const B64_ALPHA: &[u8] =
    b"ABCDEFGHIJKLMNOPQRSTUVWXYZabcdefghijklmnopqrstuvwxyz0123456789+/";
const B32HEX_ALPHA: &[u8] = b"0123456789ABCDEFGHIJKLMNOPQRSTUV";
const B16_ALPHA: &[u8] = b"0123456789ABCDEF";

const NOVAL: u8 = 0xEE;

const fn build_table(alpha: &[u8], fold_case: bool) -> [u8; 128] {
    let mut t = [NOVAL; 128];
    let mut i = 0;
    while i < alpha.len() {
        let c = alpha[i];
        t[c as usize] = i as u8;
        if fold_case && c >= b'A' && c <= b'Z' {
            t[(c + 32) as usize] = i as u8;
        }
        i += 1;
    }
    t
}

#[derive(Clone, Copy, PartialEq, Eq, Debug)]
enum Why {
    IllegalChar = 0,
    PadMisplaced = 1,
    BadLength = 2,
    BadPadCount = 3,
}

impl Why {
    fn s(self) -> &'static str {
        match self {
            Why::IllegalChar => "illegal-char",
            Why::PadMisplaced => "pad-not-at-end",
            Why::BadLength => "bad-length",
            Why::BadPadCount => "bad-pad-count",
        }
    }
}

struct Spec {
    bits: u32,
    alphabet: &'static [u8],
    table: [u8; 128],
    /// does the documented variant use `=` padding
    padded: bool,
    /// characters per full group = lcm(8, bits) / bits
    group: usize,
}

static B64: Spec = Spec {
    bits: 6,
    alphabet: B64_ALPHA,
    table: build_table(B64_ALPHA, false),
    padded: true,
    group: 4,
};
static B32H: Spec = Spec {
    bits: 5,
    alphabet: B32HEX_ALPHA,
    table: build_table(B32HEX_ALPHA, true),
    padded: false,
    group: 8,
};
static B16: Spec = Spec {
    bits: 4,
    alphabet: B16_ALPHA,
    table: build_table(B16_ALPHA, true),
    padded: false,
    group: 2,
};

impl Spec {
    fn val(&self, c: char) -> Option<u8> {
        let u = c as u32;
        if u < 128 && self.table[u as usize] != NOVAL {
            Some(self.table[u as usize])
        } else {
            None
        }
    }

    /// A trailing partial group of `r` characters is legal iff it carries
    /// whole octets plus fewer than one character's worth of spare bits.
    fn legal_rem(&self, r: usize) -> bool {
        (r as u32 * self.bits) % 8 < self.bits
    }

    fn encode(&self, data: &[u8]) -> String {
        let mask = (1u32 << self.bits) - 1;
        let mut out = String::new();
        let mut acc: u32 = 0;
        let mut nbits: u32 = 0;
        for &b in data {
            acc = (acc << 8) | b as u32;
            nbits += 8;
            while nbits >= self.bits {
                nbits -= self.bits;
                out.push(self.alphabet[((acc >> nbits) & mask) as usize] as char);
            }
            acc &= (1u32 << nbits) - 1;
        }
        if nbits > 0 {
            out.push(self.alphabet[((acc << (self.bits - nbits)) & mask) as usize] as char);
        }
        if self.padded {
            while out.len() % self.group != 0 {
                out.push('=');
            }
        }
        out
    }

    /// Ok(noncanonical_trailing_bits) with the octets in `out`, or the
    /// reason why the text is not well-formed.
    fn decode(&self, s: &[char], out: &mut Vec<u8>) -> Result<bool, Why> {
        out.clear();
        let n = s.len();
        let mut p = 0;
        if self.padded {
            while p < n && s[n - 1 - p] == '=' {
                p += 1;
            }
        }
        let body = &s[..n - p];
        let mut pad_inside = false;
        for &c in body {
            if self.padded && c == '=' {
                pad_inside = true;
            } else if self.val(c).is_none() {
                return Err(Why::IllegalChar);
            }
        }
        if pad_inside {
            return Err(Why::PadMisplaced);
        }
        let r = body.len() % self.group;
        if !self.legal_rem(r) {
            return Err(Why::BadLength);
        }
        if self.padded {
            let need = if r == 0 { 0 } else { self.group - r };
            if p != need {
                return Err(if n % self.group != 0 {
                    Why::BadLength
                } else {
                    Why::BadPadCount
                });
            }
        }
        let mut acc: u32 = 0;
        let mut nbits: u32 = 0;
        for &c in body {
            acc = (acc << self.bits) | self.val(c).unwrap() as u32;
            nbits += self.bits;
            if nbits >= 8 {
                nbits -= 8;
                out.push((acc >> nbits) as u8);
                acc &= (1u32 << nbits) - 1;
            }
        }
        Ok(acc != 0)
    }
}

// ===================================================================
// The three subjects behind one trait (static dispatch)
// ===================================================================

#[derive(Default)]
struct PushTrace {
    first_err: Option<(usize, DecodeError)>,
    /// the most recent error (the one whose return path left the state behind)
    last_err: Option<(usize, DecodeError)>,
    /// the most recent error other than IllegalChar (a rejected character);
    /// used only to classify a later panic in the signature
    last_structural_err: Option<(usize, DecodeError)>,
    n_err: u32,
    ok_after_err: bool,
    /// index of the first push that returned Ok although an earlier push failed
    first_ok_after_err: Option<usize>,
}

fn ek(e: &DecodeError) -> &'static str {
    match e {
        DecodeError::IllegalChar(_) => "IllegalChar",
        DecodeError::TrailingInput => "TrailingInput",
        DecodeError::ShortInput => "ShortInput",
        DecodeError::ShortBuf => "ShortBuf",
    }
}

fn ek_idx(e: &DecodeError) -> usize {
    match e {
        DecodeError::IllegalChar(_) => 1,
        DecodeError::TrailingInput => 2,
        DecodeError::ShortInput => 3,
        DecodeError::ShortBuf => 4,
    }
}

trait Subject: 'static {
    const NAME: &'static str;
    fn spec() -> &'static Spec;
    fn decode_vec(s: &str) -> Result<Vec<u8>, DecodeError>;
    fn decode_arr2(s: &str) -> Result<Vec<u8>, DecodeError>;
    /// `decode` into `bytes::Bytes` (BytesMut builder).
    fn decode_bytes(s: &str) -> Result<Vec<u8>, DecodeError>;
    /// A second convenience entry point, where the module has one (base16::decode_vec).
    fn decode_extra(s: &str) -> Option<Result<Vec<u8>, DecodeError>>;
    /// `<module>::serde::serialize` through serde_json (human readable): the JSON text.
    fn serde_ser(data: &[u8]) -> Result<String, String>;
    /// `<module>::serde::deserialize` through serde_json from a JSON document.
    fn serde_de(json_doc: &str) -> Result<Vec<u8>, String>;
    /// SymbolConverter over explicit symbols (incl. escapes); tokens end after symbol `cut` and at the end.
    fn conv_syms(syms: &[Symbol], cut: usize, out: &mut Vec<u8>) -> Result<(), StrError>;
    fn push_all(chars: &[char], step: &Cell<usize>, tr: &mut PushTrace) -> Result<Vec<u8>, DecodeError>;
    fn push_all_arr2(chars: &[char], step: &Cell<usize>, tr: &mut PushTrace) -> Result<Vec<u8>, DecodeError>;
    fn push_log(chars: &[char], log: &mut Vec<String>);
    /// SymbolConverter driven directly; tokens end after char index i, j and at the end.
    fn conv_direct(chars: &[char], i: usize, j: usize, out: &mut Vec<u8>) -> Result<(), StrError>;
    /// Same, single token, but continuing after errors; returns number of errors.
    fn conv_continue(chars: &[char]) -> u32;
    fn conv_entry(tokens: &[&str]) -> Result<Vec<u8>, StrError>;
    fn conv_token(token: &str) -> Result<Vec<u8>, StrError>;
    fn display(data: &[u8]) -> String;
    fn encode_string(data: &[u8]) -> String;
    fn encode_display(data: &[u8]) -> String;
}

macro_rules! push_loop {
    ($d:ident, $chars:ident, $step:ident, $tr:ident) => {
        for (k, &ch) in $chars.iter().enumerate() {
            $step.set(k);
            match $d.push(ch) {
                Ok(()) => {
                    if $tr.n_err > 0 {
                        $tr.ok_after_err = true;
                        if $tr.first_ok_after_err.is_none() {
                            $tr.first_ok_after_err = Some(k);
                        }
                    }
                }
                Err(e) => {
                    if $tr.first_err.is_none() {
                        $tr.first_err = Some((k, e));
                    }
                    $tr.last_err = Some((k, e));
                    if !matches!(e, DecodeError::IllegalChar(_)) {
                        $tr.last_structural_err = Some((k, e));
                    }
                    $tr.n_err += 1;
                }
            }
        }
        $step.set($chars.len());
    };
}

macro_rules! subject {
    ($ty:ident, $name:expr, $spec:ident, $m:ident, $decode:ident, $new:ident, $altnew:ident,
     $display:ident, $encode_string:ident, $encode_display:ident, $extra:expr) => {
        struct $ty;
        impl Subject for $ty {
            const NAME: &'static str = $name;
            fn spec() -> &'static Spec {
                &$spec
            }
            fn decode_vec(s: &str) -> Result<Vec<u8>, DecodeError> {
                $m::$decode::<Vec<u8>>(s)
            }
            fn decode_arr2(s: &str) -> Result<Vec<u8>, DecodeError> {
                $m::$decode::<Array<2>>(s).map(|a| a.as_ref().to_vec())
            }
            fn decode_bytes(s: &str) -> Result<Vec<u8>, DecodeError> {
                $m::$decode::<bytes::Bytes>(s).map(|b| b.to_vec())
            }
            fn decode_extra(s: &str) -> Option<Result<Vec<u8>, DecodeError>> {
                let f: fn(&str) -> Option<Result<Vec<u8>, DecodeError>> = $extra;
                f(s)
            }
            fn serde_ser(data: &[u8]) -> Result<String, String> {
                let v = data.to_vec();
                let mut buf = Vec::new();
                let mut ser = serde_json::Serializer::new(&mut buf);
                $m::serde::serialize(&v, &mut ser).map_err(|e| e.to_string())?;
                String::from_utf8(buf).map_err(|e| e.to_string())
            }
            fn serde_de(json_doc: &str) -> Result<Vec<u8>, String> {
                let mut de = serde_json::Deserializer::from_str(json_doc);
                let v = $m::serde::deserialize::<Vec<u8>, _>(&mut de).map_err(|e| e.to_string())?;
                de.end().map_err(|e| e.to_string())?;
                Ok(v)
            }
            fn conv_syms(syms: &[Symbol], cut: usize, out: &mut Vec<u8>) -> Result<(), StrError> {
                let mut c = $m::SymbolConverter::new();
                out.clear();
                let n = syms.len();
                for (k, &sym) in syms.iter().enumerate() {
                    if let Some(d) = <_ as ConvertSymbols<EntrySymbol, StrError>>::process_symbol(&mut c, EntrySymbol::Symbol(sym))? {
                        out.extend_from_slice(d);
                    }
                    if k + 1 == cut || k + 1 == n {
                        if let Some(d) = <_ as ConvertSymbols<EntrySymbol, StrError>>::process_symbol(&mut c, EntrySymbol::EndOfToken)? {
                            out.extend_from_slice(d);
                        }
                    }
                }
                if let Some(d) = <_ as ConvertSymbols<EntrySymbol, StrError>>::process_tail(&mut c)? {
                    out.extend_from_slice(d);
                }
                Ok(())
            }
            fn push_all(chars: &[char], step: &Cell<usize>, tr: &mut PushTrace) -> Result<Vec<u8>, DecodeError> {
                let mut d = $m::Decoder::<Vec<u8>>::$new();
                push_loop!(d, chars, step, tr);
                d.finalize()
            }
            fn push_all_arr2(chars: &[char], step: &Cell<usize>, tr: &mut PushTrace) -> Result<Vec<u8>, DecodeError> {
                // base16/base64 also construct through `Default`
                let mut d = $m::Decoder::<Array<2>>::$altnew();
                push_loop!(d, chars, step, tr);
                d.finalize().map(|a| a.as_ref().to_vec())
            }
            fn push_log(chars: &[char], log: &mut Vec<String>) {
                let mut d = $m::Decoder::<Vec<u8>>::$new();
                for (k, &ch) in chars.iter().enumerate() {
                    log.push(format!("push #{k} {ch:?} -> (did not return)"));
                    let r = d.push(ch);
                    *log.last_mut().unwrap() = format!("push #{k} {ch:?} -> {r:?}");
                }
                log.push("finalize -> (did not return)".into());
                let r = d.finalize();
                *log.last_mut().unwrap() = format!("finalize -> {:?}", r.map(|v| hex(&v)));
            }
            fn conv_direct(chars: &[char], i: usize, j: usize, out: &mut Vec<u8>) -> Result<(), StrError> {
                let mut c = $m::SymbolConverter::new();
                out.clear();
                let n = chars.len();
                for (k, &ch) in chars.iter().enumerate() {
                    if let Some(d) = <_ as ConvertSymbols<EntrySymbol, StrError>>::process_symbol(
                        &mut c,
                        EntrySymbol::Symbol(Symbol::Char(ch)),
                    )? {
                        out.extend_from_slice(d);
                    }
                    if k + 1 == i || k + 1 == j || k + 1 == n {
                        if let Some(d) = <_ as ConvertSymbols<EntrySymbol, StrError>>::process_symbol(
                            &mut c,
                            EntrySymbol::EndOfToken,
                        )? {
                            out.extend_from_slice(d);
                        }
                    }
                }
                if let Some(d) = <_ as ConvertSymbols<EntrySymbol, StrError>>::process_tail(&mut c)? {
                    out.extend_from_slice(d);
                }
                Ok(())
            }
            fn conv_continue(chars: &[char]) -> u32 {
                let mut c = $m::SymbolConverter::new();
                let mut errs = 0;
                for &ch in chars {
                    if <_ as ConvertSymbols<EntrySymbol, StrError>>::process_symbol(
                        &mut c,
                        EntrySymbol::Symbol(Symbol::Char(ch)),
                    )
                    .is_err()
                    {
                        errs += 1;
                    }
                }
                if <_ as ConvertSymbols<EntrySymbol, StrError>>::process_tail(&mut c).is_err() {
                    errs += 1;
                }
                errs
            }
            fn conv_entry(tokens: &[&str]) -> Result<Vec<u8>, StrError> {
                let mut sc = IterScanner::<_, Vec<u8>>::new(tokens.iter().copied());
                sc.convert_entry($m::SymbolConverter::new())
            }
            fn conv_token(token: &str) -> Result<Vec<u8>, StrError> {
                let toks = [token];
                let mut sc = IterScanner::<_, Vec<u8>>::new(toks.iter().copied());
                sc.convert_token($m::SymbolConverter::new())
            }
            fn display(data: &[u8]) -> String {
                let mut s = String::new();
                $m::$display(data, &mut s).expect("fmt::Write to String failed");
                s
            }
            fn encode_string(data: &[u8]) -> String {
                $m::$encode_string(data)
            }
            fn encode_display(data: &[u8]) -> String {
                format!("{}", $m::$encode_display(&data))
            }
        }
    };
}

subject!(S64, "base64", B64, base64, decode, new, default, display, encode_string, encode_display, |_| None);
subject!(S32, "base32hex", B32H, base32, decode_hex, new_hex, new_hex, display_hex, encode_string_hex, encode_display_hex, |_| None);
subject!(S16, "base16", B16, base16, decode, new, default, display, encode_string, encode_display, |s| Some(base16::decode_vec(s)));

// ===================================================================
// Accumulators
// ===================================================================

const COUNTER_NAMES: &[&str] = &[
    "texts",                                         // 0
    "ref_accept_canonical",                          // 1
    "ref_accept_noncanonical_trailing_bits",         // 2
    "ref_reject_illegal_char",                       // 3
    "ref_reject_pad_not_at_end",                     // 4
    "ref_reject_bad_length",                         // 5
    "ref_reject_bad_pad_count",                      // 6
    "calls_decode",                                  // 7
    "calls_decoder_push_sequence",                   // 8
    "calls_converter_direct",                        // 9
    "calls_converter_iterscanner_convert_entry",     // 10
    "calls_converter_iterscanner_convert_token",     // 11
    "calls_encode_fn",                               // 12
    "obs_noncanonical_accepted_by_decode",           // 13
    "obs_noncanonical_rejected_by_decode",           // 14
    "push_sequences_with_an_error",                  // 15
    "push_returned_ok_after_an_earlier_error",       // 16 (violation)
    "finalize_ok_although_a_push_failed",            // 17 (violation)
    "push_sequences_that_panicked",                  // 18
    "obs_converter_panics_if_continued_after_error", // 19
    "token_splits",                                  // 20
    "shortbuf_texts",                                // 21
    "shortbuf_decode_returned_ShortBuf",             // 22
    "octet_strings_encoded",                         // 23
    "converter_accepts",                             // 24
    "converter_rejects",                             // 25
    "shortbuf_push_sequences_that_panicked",         // 26
    "push_sequences_not_rerun_prefix_already_panics", // 27
    "texts_with_backslash_not_sent_through_iterscanner", // 28
    "obs_converter_continue_after_error_runs",       // 29
    "calls_decode_other_octets_types",               // 30
    "calls_serde_deserialize",                       // 31
    "calls_serde_serialize",                         // 32
    "escaped_texts",                                 // 33
    "escaped_texts_malformed_escape",                // 34
    "escaped_route_accepts",                         // 35
    "escaped_route_rejects",                         // 36
    "calls_converter_escaped",                       // 37
    "serde_deserialize_accepts",                     // 38
    "nsec3_entry_point_calls",                       // 39
    "nsec3_accepts",                                 // 40
    "nsec3_rejects",                                 // 41
    "nsec3_texts_longer_than_255_octets",            // 42
    "front_end_texts",                               // 43
    "front_end_zonefile_reads",                      // 44
    "front_end_iterscanner_record_scans",            // 45
    "front_end_ech_direct_calls",                    // 46
    "front_end_accepts",                             // 47
    "front_end_rejects",                             // 48
    "front_end_neighbour_record_checks",             // 49
    "front_end_token_layouts",                       // 50
];
const C_TEXTS: usize = 0;
const C_REF0: usize = 1;
const C_DECODE: usize = 7;
const C_PUSHSEQ: usize = 8;
const C_CONV_DIRECT: usize = 9;
const C_CONV_ENTRY: usize = 10;
const C_CONV_TOKEN: usize = 11;
const C_ENCODE: usize = 12;
const C_NC_ACC: usize = 13;
const C_NC_REJ: usize = 14;
const C_PUSH_ERR: usize = 15;
const C_OK_AFTER_ERR: usize = 16;
const C_NOT_STICKY: usize = 17;
const C_PUSH_PANIC: usize = 18;
const C_CONV_CONT_PANIC: usize = 19;
const C_SPLITS: usize = 20;
const C_SB_TEXTS: usize = 21;
const C_SB_SHORTBUF: usize = 22;
const C_OCTETS: usize = 23;
const C_CONV_ACC: usize = 24;
const C_CONV_REJ: usize = 25;
const C_SB_PANIC: usize = 26;
const C_PUSH_IMPLIED: usize = 27;
const C_BACKSLASH: usize = 28;
const C_CONV_CONT_RUNS: usize = 29;
const C_DECODE_OTHER: usize = 30;
const C_SERDE_DE: usize = 31;
const C_SERDE_SER: usize = 32;
const C_ESC_TEXTS: usize = 33;
const C_ESC_MALFORMED: usize = 34;
const C_ESC_ACC: usize = 35;
const C_ESC_REJ: usize = 36;
const C_ESC_CALLS: usize = 37;
const C_SERDE_DE_ACC: usize = 38;
const C_N3_CALLS: usize = 39;
const C_N3_ACC: usize = 40;
const C_N3_REJ: usize = 41;
const C_N3_LONG: usize = 42;
const C_FE_TEXTS: usize = 43;
const C_FE_ZONEFILE: usize = 44;
const C_FE_ITER: usize = 45;
const C_FE_ECH: usize = 46;
const C_FE_ACC: usize = 47;
const C_FE_REJ: usize = 48;
const C_FE_NEIGHBOUR: usize = 49;
const C_FE_LAYOUTS: usize = 50;
const NC: usize = 51;

const REF_ROWS: [&str; 6] = [
    "wellformed-canonical",
    "wellformed-noncanonical-bits",
    "illegal-char",
    "pad-not-at-end",
    "bad-length",
    "bad-pad-count",
];
const LIB_COLS: [&str; 6] = ["Ok", "IllegalChar", "TrailingInput", "ShortInput", "ShortBuf", "PANIC"];

struct Viol {
    n: u64,
    order: (usize, String, String),
    what: String,
    replay: Value,
}

struct Local {
    c: [u64; NC],
    /// reference verdict x outcome of `decode`
    matrix: [[u64; 6]; 6],
    viol: BTreeMap<String, Viol>,
    distinct: Vec<u64>,
    /// false while sweeping a space too large to keep a hash set of (all 3-octet strings)
    track_distinct: bool,
    /// texts up to this length also go through the serde deserializer
    serde_max_len: usize,
    /// smallest example of "finalize Ok although a push failed"
    not_sticky: Option<(usize, String)>,
    conv_cont_panic: Option<(usize, String)>,
}

impl Local {
    fn new() -> Local {
        Local {
            c: [0; NC],
            matrix: [[0; 6]; 6],
            viol: BTreeMap::new(),
            distinct: Vec::new(),
            track_distinct: true,
            serde_max_len: SERDE_MAX_LEN,
            not_sticky: None,
            conv_cont_panic: None,
        }
    }

    fn violation(
        &mut self,
        sig: String,
        n: usize,
        text: &str,
        extra: &str,
        what: impl FnOnce() -> String,
        replay: impl FnOnce() -> Value,
    ) {
        match self.viol.get_mut(&sig) {
            Some(v) => {
                v.n += 1;
                if (n, text, extra) < (v.order.0, v.order.1.as_str(), v.order.2.as_str()) {
                    v.order = (n, text.to_string(), extra.to_string());
                    v.what = what();
                    v.replay = replay();
                }
            }
            None => {
                self.viol.insert(
                    sig,
                    Viol {
                        n: 1,
                        order: (n, text.to_string(), extra.to_string()),
                        what: what(),
                        replay: replay(),
                    },
                );
            }
        }
    }

    fn merge(&mut self, o: Local) {
        for i in 0..NC {
            self.c[i] += o.c[i];
        }
        for i in 0..6 {
            for j in 0..6 {
                self.matrix[i][j] += o.matrix[i][j];
            }
        }
        for (k, v) in o.viol {
            match self.viol.get_mut(&k) {
                Some(m) => {
                    m.n += v.n;
                    if v.order < m.order {
                        m.order = v.order;
                        m.what = v.what;
                        m.replay = v.replay;
                    }
                }
                None => {
                    self.viol.insert(k, v);
                }
            }
        }
        min_into(&mut self.not_sticky, o.not_sticky);
        min_into(&mut self.conv_cont_panic, o.conv_cont_panic);
    }
}

fn min_into(a: &mut Option<(usize, String)>, b: Option<(usize, String)>) {
    if let Some(b) = b {
        match a {
            Some(x) if *x <= b => {}
            _ => *a = Some(b),
        }
    }
}

struct Agg {
    inner: Mutex<Local>,
    stats: Arc<Stats>,
}

impl Agg {
    fn merge(&self, mut l: Local) {
        let d = std::mem::take(&mut l.distinct);
        if !d.is_empty() {
            self.stats.distinct_many(d);
        }
        self.inner.lock().unwrap().merge(l);
    }
}

struct Scratch {
    text: String,
    offs: Vec<usize>,
    ref_out: Vec<u8>,
    out: Vec<u8>,
}

impl Scratch {
    fn new() -> Scratch {
        Scratch { text: String::new(), offs: Vec::new(), ref_out: Vec::new(), out: Vec::new() }
    }
    fn set(&mut self, chars: &[char]) {
        self.text.clear();
        self.offs.clear();
        for &c in chars {
            self.offs.push(self.text.len());
            self.text.push(c);
        }
        self.offs.push(self.text.len());
    }
}

fn key(tag: &str, name: &str, body: &[u8]) -> u64 {
    let mut v = Vec::with_capacity(tag.len() + name.len() + body.len() + 2);
    v.extend_from_slice(tag.as_bytes());
    v.push(0);
    v.extend_from_slice(name.as_bytes());
    v.push(0);
    v.extend_from_slice(body);
    fnv(&v)
}

// ===================================================================
// Checks
// ===================================================================

/// Compare one entry point's outcome with the reference verdict.
#[allow(clippy::too_many_arguments)]
fn judge<S: Subject>(
    l: &mut Local,
    entry: &str,
    refv: Result<bool, Why>,
    ref_out: &[u8],
    got: Result<&[u8], &str>,
    n: usize,
    text: &str,
    extra: &dyn std::fmt::Display,
    section: &str,
) {
    let (sig, what): (String, String) = match (refv, got) {
        (Ok(_), Ok(o)) if o == ref_out => return,
        (Ok(true), Err(_)) => return, // RFC 4648 3.5: MAY reject non-zero pad bits
        (Err(_), Err(_)) => return,
        (Ok(_), Ok(o)) => (
            format!("C18|{}|{}|accepted-with-wrong-octets|ref!=lib", S::NAME, entry),
            format!("{} of {:?} {} returned octets {} but RFC 4648 decoding is {}", entry, text, extra, hex(o), hex(ref_out)),
        ),
        (Ok(false), Err(k)) => (
            format!("C18|{}|{}|wellformed-rejected|lib:{}", S::NAME, entry, k),
            format!("{} of well-formed {:?} {} failed with {} (RFC 4648 decoding is {})", entry, text, extra, k, hex(ref_out)),
        ),
        (Err(w), Ok(o)) => (
            format!("C18|{}|{}|malformed-accepted|ref:{}", S::NAME, entry, w.s()),
            format!("{} of {:?} {} returned Ok({}) but the text is not well-formed ({})", entry, text, extra, hex(o), w.s()),
        ),
    };
    let extra = extra.to_string();
    l.violation(sig, n, text, &extra, || what, || json!({"section": section, "codec": S::NAME, "text": text, "entry": entry, "detail": extra}));
}

/// Two entry points must agree on accept/reject and octets.
#[allow(clippy::too_many_arguments)]
fn agree<S: Subject>(
    l: &mut Local,
    entry: &str,
    a: &Result<Vec<u8>, DecodeError>,
    got: Result<&[u8], &str>,
    n: usize,
    text: &str,
    extra: &dyn std::fmt::Display,
    section: &str,
) {
    let same = match (a, got) {
        (Ok(x), Ok(y)) => x.as_slice() == y,
        (Err(_), Err(_)) => true,
        _ => false,
    };
    if !same {
        let a_s = match a {
            Ok(_) => "Ok",
            Err(e) => ek(e),
        };
        let g_s = match got {
            Ok(_) => "Ok",
            Err(k) => k,
        };
        let extra = extra.to_string();
        l.violation(
            format!("C18|{}|{}|disagrees-with-decode|decode:{}-vs-{}", S::NAME, entry, a_s, g_s),
            n, text, &extra,
            || format!("decode({:?}) = {:?} but {} {} gave {:?}", text, a.as_ref().map(|v| hex(v)), entry, extra, got.map(hex)),
            || json!({"section": section, "codec": S::NAME, "text": text, "entry": entry, "detail": extra}),
        );
    }
}

/// All three `Decoder::push` docs say: "It is okay to push more data after
/// the first error. The method will just keep returning errors." So once a
/// push has failed, every later push must fail too, and `finalize` must not
/// hand out octets (the property: rejected "with an error, never ... silently
/// wrong octets").
fn errors_kept<S: Subject>(
    l: &mut Local,
    tr: &PushTrace,
    fin: &Result<Vec<u8>, DecodeError>,
    n: usize,
    text: &str,
    section: &str,
    builder: &str,
) {
    let Some((at, first)) = tr.first_err.as_ref() else { return };
    if let Some(k) = tr.first_ok_after_err {
        l.violation(
            format!("C18|{}|Decoder::push|error-not-kept|push-Ok-after-push-Err:{}", S::NAME, ek(first)),
            n, text, builder,
            || format!(
                "Decoder{}: pushing the chars of {:?} one by one: push #{} failed with {:?} but the later push #{} returned Ok(()) (docs: \"will just keep returning errors\")",
                builder, text, at, first, k
            ),
            || json!({"section": section, "codec": S::NAME, "text": text, "entry": "Decoder::push"}),
        );
    }
    if let Ok(v) = fin {
        l.violation(
            format!("C18|{}|Decoder::finalize|error-not-kept|finalize-Ok-after-push-Err:{}", S::NAME, ek(first)),
            n, text, builder,
            || format!(
                "Decoder{}: pushing the chars of {:?} one by one: push #{} failed with {:?}, yet finalize() returned Ok({}) - octets for text that was rejected",
                builder, text, at, first, hex(v)
            ),
            || json!({"section": section, "codec": S::NAME, "text": text, "entry": "Decoder::finalize"}),
        );
    }
}

/// The full decode-side check of one text.
///
/// `implied_panic`: the push sequence of a proper prefix of this text is
/// already known to panic. A panic aborts the sequence, so the calls that
/// would be executed on this text are exactly the calls already executed on
/// that prefix; the sequence is then counted as panicking without being run
/// again (unwinding is serialised process-wide and would dominate the run).
/// Returns whether the push sequence panics (executed or implied).
fn check_text<S: Subject>(chars: &[char], sc: &mut Scratch, max_tokens: u8, l: &mut Local, implied_panic: bool) -> bool {
    let spec = S::spec();
    let n = chars.len();
    sc.set(chars);
    let refv = spec.decode(chars, &mut sc.ref_out);
    let row = match refv {
        Ok(false) => 0,
        Ok(true) => 1,
        Err(w) => 2 + w as usize,
    };
    l.c[C_TEXTS] += 1;
    l.c[C_REF0 + row] += 1;
    if l.track_distinct && refv.is_ok() && !sc.ref_out.is_empty() {
        l.distinct.push(key("dec", S::NAME, sc.text.as_bytes()));
    }
    let text = sc.text.as_str();
    let ref_out = sc.ref_out.as_slice();

    // (a) decode
    l.c[C_DECODE] += 1;
    let a = guard(|| S::decode_vec(text));
    let a = match a {
        Err(msg) => {
            l.matrix[row][5] += 1;
            l.violation(
                format!("C18|{}|decode|panic|{}", S::NAME, panic_class(&msg)),
                n, text, "",
                || format!("decode({:?}) panicked: {}", text, msg),
                || json!({"section": "text", "codec": S::NAME, "text": text, "entry": "decode"}),
            );
            None
        }
        Ok(r) => {
            match &r {
                Ok(_) => {
                    l.matrix[row][0] += 1;
                    if refv == Ok(true) {
                        l.c[C_NC_ACC] += 1;
                    }
                }
                Err(e) => {
                    l.matrix[row][ek_idx(e)] += 1;
                    if refv == Ok(true) {
                        l.c[C_NC_REJ] += 1;
                    }
                }
            }
            judge::<S>(l, "decode", refv, ref_out, r.as_ref().map(|v| v.as_slice()).map_err(ek), n, text, &"", "text");
            Some(r)
        }
    };

    // (a') the same convenience function into other octets types / second
    // entry points, and the serde helper (JSON string -> visit_str -> decode)
    if let Some(a) = &a {
        l.c[C_DECODE_OTHER] += 1;
        match guard(|| S::decode_bytes(text)) {
            Err(msg) => l.violation(
                format!("C18|{}|decode<Bytes>|panic|{}", S::NAME, panic_class(&msg)),
                n, text, "",
                || format!("decode::<Bytes>({:?}) panicked: {}", text, msg),
                || json!({"section": "text", "codec": S::NAME, "text": text, "entry": "decode<Bytes>"}),
            ),
            Ok(r) => {
                if &r != a {
                    l.violation(
                        format!("C18|{}|decode<Bytes>|disagrees-with-decode<Vec>|{}-vs-{}", S::NAME, a.as_ref().map(|_| "Ok").unwrap_or_else(ek), r.as_ref().map(|_| "Ok").unwrap_or_else(ek)),
                        n, text, "",
                        || format!("decode::<Vec<u8>>({:?}) = {:?} but decode::<Bytes> = {:?}", text, a, r),
                        || json!({"section": "text", "codec": S::NAME, "text": text, "entry": "decode<Bytes>"}),
                    );
                }
            }
        }
        if let Some(r) = guard(|| S::decode_extra(text)).unwrap_or_else(|msg| {
            l.violation(
                format!("C18|{}|decode_vec|panic|{}", S::NAME, panic_class(&msg)),
                n, text, "",
                || format!("decode_vec({:?}) panicked: {}", text, msg),
                || json!({"section": "text", "codec": S::NAME, "text": text, "entry": "decode_vec"}),
            );
            None
        }) {
            l.c[C_DECODE_OTHER] += 1;
            if &r != a {
                l.violation(
                    format!("C18|{}|decode_vec|disagrees-with-decode|{}-vs-{}", S::NAME, a.as_ref().map(|_| "Ok").unwrap_or_else(ek), r.as_ref().map(|_| "Ok").unwrap_or_else(ek)),
                    n, text, "",
                    || format!("decode({:?}) = {:?} but decode_vec = {:?}", text, a, r),
                    || json!({"section": "text", "codec": S::NAME, "text": text, "entry": "decode_vec"}),
                );
            }
        }
        if n <= l.serde_max_len {
            l.c[C_SERDE_DE] += 1;
            // serde_json's own string escaping; it is the JSON layer, not the subject
            let doc = serde_json::to_string(text).expect("JSON string");
            match guard(|| S::serde_de(&doc)) {
                Err(msg) => l.violation(
                    format!("C18|{}|serde::deserialize|panic|{}", S::NAME, panic_class(&msg)),
                    n, text, "",
                    || format!("serde::deserialize of JSON {} panicked: {}", doc, msg),
                    || json!({"section": "text", "codec": S::NAME, "text": text, "entry": "serde::deserialize"}),
                ),
                Ok(r) => {
                    if r.is_ok() {
                        l.c[C_SERDE_DE_ACC] += 1;
                    }
                    let got: Result<&[u8], &str> = match &r {
                        Ok(v) => Ok(v.as_slice()),
                        Err(_) => Err("Err"),
                    };
                    judge::<S>(l, "serde::deserialize", refv, ref_out, got, n, text, &"", "text");
                    agree::<S>(l, "serde::deserialize", a, got, n, text, &"", "text");
                }
            }
        }
    }

    // (b) Decoder::push char by char, continuing after errors, then finalize
    let mut push_panics = implied_panic;
    let step = Cell::new(0usize);
    let mut tr = PushTrace::default();
    let b = if implied_panic {
        l.c[C_PUSH_IMPLIED] += 1;
        None
    } else {
        l.c[C_PUSHSEQ] += 1;
        Some(guard(|| S::push_all(chars, &step, &mut tr)))
    };
    if tr.n_err > 0 {
        l.c[C_PUSH_ERR] += 1;
    }
    if tr.ok_after_err {
        l.c[C_OK_AFTER_ERR] += 1;
    }
    match b {
        None => {}
        Some(Err(msg)) => {
            push_panics = true;
            l.c[C_PUSH_PANIC] += 1;
            let k = step.get();
            let op = if k < n { "Decoder::push" } else { "Decoder::finalize" };
            let after = tr.last_structural_err.as_ref().or(tr.last_err.as_ref()).map(|(_, e)| ek(e)).unwrap_or("no-prior-error");
            l.violation(
                format!("C18|{}|{}|continue-after-error|after:{}|panic:{}", S::NAME, op, after, panic_class(&msg)),
                n, text, "",
                || format!(
                    "pushing the chars of {:?} one by one (continuing after errors as the docs permit): call #{} panicked: {}; last non-IllegalChar error returned before it: {:?}",
                    text, k, msg, tr.last_structural_err
                ),
                || json!({"section": "text", "codec": S::NAME, "text": text, "entry": "Decoder::push"}),
            );
        }
        Some(Ok(fin)) => {
            // overall outcome of the sequence: an error iff any call returned one
            let first: Option<DecodeError> = match (&tr.first_err, &fin) {
                (Some((_, e)), _) => Some(*e),
                (None, Err(e)) => Some(*e),
                (None, Ok(_)) => None,
            };
            if tr.n_err > 0 && fin.is_ok() {
                l.c[C_NOT_STICKY] += 1;
                min_into(&mut l.not_sticky, Some((n, text.to_string())));
            }
            errors_kept::<S>(l, &tr, &fin, n, text, "text", "");
            let got: Result<&[u8], &str> = match (&first, &fin) {
                (None, Ok(v)) => Ok(v.as_slice()),
                (Some(e), _) => Err(ek(e)),
                (None, Err(_)) => unreachable!(),
            };
            judge::<S>(l, "Decoder::push+finalize", refv, ref_out, got, n, text, &"", "text");
            if let Some(a) = &a {
                agree::<S>(l, "Decoder::push+finalize", a, got, n, text, &"", "text");
                // the first error reported must be the very same error
                if let (Err(ea), Some(eb)) = (a, &first) {
                    if ea != eb {
                        l.violation(
                            format!("C18|{}|Decoder::push+finalize|first-error-differs-from-decode|{}-vs-{}", S::NAME, ek(ea), ek(eb)),
                            n, text, "",
                            || format!("decode({:?}) = Err({:?}) but char-by-char first error is {:?}", text, ea, eb),
                            || json!({"section": "text", "codec": S::NAME, "text": text, "entry": "Decoder::push"}),
                        );
                    }
                }
            }
        }
    }

    // (c) SymbolConverter, every split into <= 3 non-empty tokens
    let has_backslash = chars.contains(&'\\');
    if has_backslash {
        l.c[C_BACKSLASH] += 1;
    }
    let do_split = |i: usize, j: usize, l: &mut Local, out: &mut Vec<u8>| {
        l.c[C_SPLITS] += 1;
        let extra = SplitTag { i, j, n };
        // direct
        l.c[C_CONV_DIRECT] += 1;
        let r = guard(|| S::conv_direct(chars, i, j, out));
        match r {
            Err(msg) => l.violation(
                format!("C18|{}|SymbolConverter|panic|{}", S::NAME, panic_class(&msg)),
                n, text, &extra.to_string(),
                || format!("SymbolConverter on {:?} {} panicked: {}", text, extra, msg),
                || json!({"section": "text", "codec": S::NAME, "text": text, "entry": "SymbolConverter", "detail": extra.to_string()}),
            ),
            Ok(r) => {
                if r.is_ok() {
                    l.c[C_CONV_ACC] += 1;
                } else {
                    l.c[C_CONV_REJ] += 1;
                }
                let got: Result<&[u8], &str> = match &r {
                    Ok(()) => Ok(out.as_slice()),
                    Err(_) => Err("Err"),
                };
                judge::<S>(l, "SymbolConverter", refv, ref_out, got, n, text, &extra, "text");
                if let Some(a) = &a {
                    agree::<S>(l, "SymbolConverter", a, got, n, text, &extra, "text");
                }
            }
        }
        // through the library's IterScanner (its tokens are presentation
        // format: a backslash starts an escape sequence, which is scanner
        // syntax and not codec input, so such texts only go the direct way)
        // The scanner route is run for the 1- and 2-token splits; the
        // 3-token splits go the direct way only (IterScanner::convert_entry
        // does not even forward token boundaries to the converter).
        if has_backslash || (i < n && j < n) {
            return;
        }
        let mut toks: [&str; 3] = ["", "", ""];
        let mut nt = 0;
        let (ii, jj) = (i.min(n), j.min(n));
        for (x, y) in [(0, ii), (ii, jj), (jj, n)] {
            if y > x {
                toks[nt] = &text[sc.offs[x]..sc.offs[y]];
                nt += 1;
            }
        }
        l.c[C_CONV_ENTRY] += 1;
        let r = guard(|| S::conv_entry(&toks[..nt]));
        match r {
            Err(msg) => l.violation(
                format!("C18|{}|IterScanner::convert_entry(SymbolConverter)|panic|{}", S::NAME, panic_class(&msg)),
                n, text, &extra.to_string(),
                || format!("convert_entry on tokens {:?} panicked: {}", &toks[..nt], msg),
                || json!({"section": "text", "codec": S::NAME, "text": text, "entry": "convert_entry", "detail": extra.to_string()}),
            ),
            Ok(r) => {
                let got: Result<&[u8], &str> = match &r {
                    Ok(v) => Ok(v.as_slice()),
                    Err(_) => Err("Err"),
                };
                judge::<S>(l, "IterScanner::convert_entry(SymbolConverter)", refv, ref_out, got, n, text, &extra, "text");
                if let Some(a) = &a {
                    agree::<S>(l, "IterScanner::convert_entry(SymbolConverter)", a, got, n, text, &extra, "text");
                }
            }
        }
    };
    do_split(n, n, l, &mut sc.out);
    if max_tokens >= 2 {
        for i in 1..n {
            do_split(i, n, l, &mut sc.out);
        }
    }
    if max_tokens >= 3 {
        for i in 1..n {
            for j in i + 1..n {
                do_split(i, j, l, &mut sc.out);
            }
        }
    }
    // single token through convert_token
    match if has_backslash { Ok(None) } else { l.c[C_CONV_TOKEN] += 1; guard(|| S::conv_token(text)).map(Some) } {
        Ok(None) => {}
        Err(msg) => l.violation(
            format!("C18|{}|IterScanner::convert_token(SymbolConverter)|panic|{}", S::NAME, panic_class(&msg)),
            n, text, "",
            || format!("convert_token on {:?} panicked: {}", text, msg),
            || json!({"section": "text", "codec": S::NAME, "text": text, "entry": "convert_token"}),
        ),
        Ok(Some(r)) => {
            let got: Result<&[u8], &str> = match &r {
                Ok(v) => Ok(v.as_slice()),
                Err(_) => Err("Err"),
            };
            judge::<S>(l, "IterScanner::convert_token(SymbolConverter)", refv, ref_out, got, n, text, &"", "text");
            if let Some(a) = &a {
                agree::<S>(l, "IterScanner::convert_token(SymbolConverter)", a, got, n, text, &"", "text");
            }
        }
    }
    // observation only (no document permits continuing a converter after an
    // error): does the converter survive being continued?
    if refv.is_err() && n <= OBS_CONTINUE_MAX_LEN {
        l.c[C_CONV_CONT_RUNS] += 1;
        if guard(|| S::conv_continue(chars)).is_err() {
            l.c[C_CONV_CONT_PANIC] += 1;
            min_into(&mut l.conv_cont_panic, Some((n, text.to_string())));
        }
    }
    // a text with a backslash is presentation-format syntax for the scanner
    // routes: it goes through them with the escape-aware oracle
    if has_backslash {
        let chars2: Vec<char> = chars.to_vec();
        check_escaped::<S>(&chars2, sc, l);
    }
    push_panics
}

/// Class strings up to this length (and every encoding of the encode space)
/// also go through `<module>::serde::deserialize`.
const SERDE_MAX_LEN: usize = 7;

// -------------------------------------------------------------------
// Presentation-format escapes on the scanner routes
// -------------------------------------------------------------------

#[derive(Clone, Copy, Debug, PartialEq, Eq)]
enum Esc {
    Plain(char),
    /// backslash + one non-digit character
    Simple(char),
    /// backslash + three decimal digits, value <= 255
    Decimal(u8),
}

/// RFC 1035 section 5.1: `\X` (X any character other than a digit) and
/// `\DDD` (exactly three digits, an octet). Anything else is malformed.
fn parse_escapes(chars: &[char]) -> Option<Vec<Esc>> {
    let mut out = Vec::with_capacity(chars.len());
    let mut i = 0;
    while i < chars.len() {
        let c = chars[i];
        if c != '\\' {
            out.push(Esc::Plain(c));
            i += 1;
            continue;
        }
        let x = *chars.get(i + 1)?;
        if x.is_ascii_digit() {
            let d2 = *chars.get(i + 2)?;
            let d3 = *chars.get(i + 3)?;
            if !d2.is_ascii_digit() || !d3.is_ascii_digit() {
                return None;
            }
            let v = (x as u32 - 48) * 100 + (d2 as u32 - 48) * 10 + (d3 as u32 - 48);
            if v > 255 {
                return None;
            }
            out.push(Esc::Decimal(v as u8));
            i += 4;
        } else {
            out.push(Esc::Simple(x));
            i += 2;
        }
    }
    Some(out)
}

/// One text containing backslashes through the scanner routes.
///
/// Oracle: a malformed escape must be rejected. Otherwise resolve the
/// escapes (`\X` -> X, `\DDD` -> that octet as a character) and ask the
/// reference codec: not well-formed -> must be rejected. Well-formed: an
/// escaped symbol MAY be refused (RFC 4648 knows no escapes, the module does
/// not document them), so both outcomes are fine - but an accepted text must
/// give exactly the reference octets, and the library-parsed route
/// (IterScanner) and the harness-parsed route (explicit `Symbol`s, every
/// 2-token split) must agree.
fn check_escaped<S: Subject>(chars: &[char], sc: &mut Scratch, l: &mut Local) {
    let spec = S::spec();
    sc.set(chars);
    let n = chars.len();
    l.c[C_ESC_TEXTS] += 1;
    let parsed = parse_escapes(chars);
    let mut resolved: Vec<char> = Vec::new();
    let mut syms: Option<Vec<Symbol>> = None;
    let expect: Result<bool, &'static str> = match &parsed {
        None => {
            l.c[C_ESC_MALFORMED] += 1;
            Err("malformed-escape")
        }
        Some(es) => {
            let mut sy = Vec::with_capacity(es.len());
            let mut constructible = true;
            for e in es {
                match *e {
                    Esc::Plain(c) => {
                        resolved.push(c);
                        sy.push(Symbol::Char(c));
                    }
                    Esc::Simple(x) => {
                        resolved.push(x);
                        if (x as u32) >= 0x20 && (x as u32) < 0x7F {
                            sy.push(Symbol::SimpleEscape(x as u8));
                        } else {
                            constructible = false;
                        }
                    }
                    Esc::Decimal(v) => {
                        resolved.push(v as char);
                        sy.push(Symbol::DecimalEscape(v));
                    }
                }
            }
            if constructible {
                syms = Some(sy);
            }
            match spec.decode(&resolved, &mut sc.ref_out) {
                Ok(nc) => Ok(nc),
                Err(w) => Err(w.s()),
            }
        }
    };
    let text = sc.text.as_str();
    let ref_out = sc.ref_out.as_slice();
    let mut first: Option<(String, Result<Vec<u8>, ()>)> = None;
    let mut one = |entry: String, r: Result<Result<Vec<u8>, StrError>, String>, l: &mut Local| {
        l.c[C_ESC_CALLS] += 1;
        let r = match r {
            Err(msg) => {
                l.violation(
                    format!("C18|{}|escaped-text|{}|panic|{}", S::NAME, entry.split('@').next().unwrap_or(""), panic_class(&msg)),
                    n, text, &entry,
                    || format!("{} of {:?} panicked: {}", entry, text, msg),
                    || json!({"section": "escaped", "codec": S::NAME, "text": text, "entry": entry}),
                );
                return;
            }
            Ok(r) => r,
        };
        let class = entry.split('@').next().unwrap_or("").to_string();
        match (&r, &expect) {
            (Ok(_), _) => l.c[C_ESC_ACC] += 1,
            (Err(_), _) => l.c[C_ESC_REJ] += 1,
        }
        match (&r, &expect) {
            (Ok(v), Err(why)) => l.violation(
                format!("C18|{}|escaped-text|{}|malformed-accepted|ref:{}", S::NAME, class, why),
                n, text, &entry,
                || format!("{} of {:?} returned Ok({}) but the text is not acceptable ({}; escapes resolve to {:?})", entry, text, hex(v), why, resolved.iter().collect::<String>()),
                || json!({"section": "escaped", "codec": S::NAME, "text": text, "entry": entry}),
            ),
            (Ok(v), Ok(_)) if v.as_slice() != ref_out => l.violation(
                format!("C18|{}|escaped-text|{}|accepted-with-wrong-octets|ref!=lib", S::NAME, class),
                n, text, &entry,
                || format!("{} of {:?} returned {} but the escapes resolve to {:?} whose RFC 4648 decoding is {}", entry, text, hex(v), resolved.iter().collect::<String>(), hex(ref_out)),
                || json!({"section": "escaped", "codec": S::NAME, "text": text, "entry": entry}),
            ),
            _ => {}
        }
        let simple: Result<Vec<u8>, ()> = r.map_err(|_| ());
        match &first {
            None => first = Some((entry, simple)),
            Some((e0, r0)) => {
                if *r0 != simple {
                    l.violation(
                        format!("C18|{}|escaped-text|{}|disagrees-with-{}|{}-vs-{}", S::NAME, class, e0.split('@').next().unwrap_or(""), if r0.is_ok() { "Ok" } else { "Err" }, if simple.is_ok() { "Ok" } else { "Err" }),
                        n, text, &entry,
                        || format!("{} of {:?} gave {:?} but {} gave {:?}", e0, text, r0.as_ref().map(|v| hex(v)), entry, simple.as_ref().map(|v| hex(v))),
                        || json!({"section": "escaped", "codec": S::NAME, "text": text, "entry": entry}),
                    );
                }
            }
        }
    };
    one("IterScanner::convert_token".into(), guard(|| S::conv_token(text)), l);
    one("IterScanner::convert_entry".into(), guard(|| S::conv_entry(&[text])), l);
    if let Some(sy) = &syms {
        let m = sy.len();
        let mut out = Vec::new();
        for cut in 0..m.max(1) {
            // cut == 0: one token; otherwise a token boundary after symbol `cut`
            let r = guard(|| S::conv_syms(sy, cut, &mut out).map(|()| ()));
            let r = r.map(|x| x.map(|()| out.clone()));
            one(if cut == 0 { "SymbolConverter(symbols)".to_string() } else { format!("SymbolConverter(symbols)@split{cut}") }, r, l);
        }
    }
}

/// The "converter continued after its own error" observation is only made
/// for texts up to this length (it is not part of the verdict).
const OBS_CONTINUE_MAX_LEN: usize = 6;

struct SplitTag {
    i: usize,
    j: usize,
    n: usize,
}

impl std::fmt::Display for SplitTag {
    fn fmt(&self, f: &mut std::fmt::Formatter<'_>) -> std::fmt::Result {
        if self.i >= self.n {
            Ok(())
        } else if self.j >= self.n {
            write!(f, "split@{}", self.i)
        } else {
            write!(f, "split@{},{}", self.i, self.j)
        }
    }
}

/// Extension: decode into a bounded 2-octet buffer.
/// `implied_panic` / return value as in `check_text`.
fn check_shortbuf<S: Subject>(chars: &[char], sc: &mut Scratch, l: &mut Local, implied_panic: bool) -> bool {
    let spec = S::spec();
    let n = chars.len();
    sc.set(chars);
    let refv = spec.decode(chars, &mut sc.ref_out);
    let text = sc.text.as_str();
    let ref_out = sc.ref_out.as_slice();
    l.c[C_SB_TEXTS] += 1;
    let fits = ref_out.len() <= 2;
    l.c[C_DECODE] += 1;
    let a = match guard(|| S::decode_arr2(text)) {
        Err(msg) => {
            l.violation(
                format!("C18|{}|decode<Array<2>>|panic|{}", S::NAME, panic_class(&msg)),
                n, text, "",
                || format!("decode::<Array<2>>({:?}) panicked: {}", text, msg),
                || json!({"section": "shortbuf", "codec": S::NAME, "text": text}),
            );
            None
        }
        Ok(r) => {
            if matches!(r, Err(DecodeError::ShortBuf)) {
                l.c[C_SB_SHORTBUF] += 1;
            }
            // as the reference if the octets fit, else any error
            let bad: Option<(String, String)> = match (&r, refv) {
                (Err(_), Err(_)) => None,
                (Err(_), Ok(_)) if !fits => None,
                (Err(_), Ok(true)) => None, // RFC 4648 3.5
                (Err(e), Ok(false)) => Some((format!("wellformed-that-fits-rejected|lib:{}", ek(e)), format!("failed with {e:?} although the {} octets fit", ref_out.len()))),
                (Ok(v), Err(w)) => Some((format!("malformed-accepted|ref:{}", w.s()), format!("returned Ok({}) for text that is not well-formed ({})", hex(v), w.s()))),
                (Ok(v), Ok(_)) if !fits => Some(("accepted-although-octets-do-not-fit|truncated".into(), format!("returned Ok({}) although the decoding {} does not fit 2 octets", hex(v), hex(ref_out)))),
                (Ok(v), Ok(_)) if v.as_slice() != ref_out => Some(("accepted-with-wrong-octets|ref!=lib".into(), format!("returned Ok({}), RFC 4648 decoding is {}", hex(v), hex(ref_out)))),
                (Ok(_), Ok(_)) => None,
            };
            if let Some((sig, what)) = bad {
                l.violation(
                    format!("C18|{}|decode<Array<2>>|{}", S::NAME, sig),
                    n, text, "",
                    || format!("decode::<Array<2>>({:?}) {}", text, what),
                    || json!({"section": "shortbuf", "codec": S::NAME, "text": text}),
                );
            }
            Some(r)
        }
    };
    if implied_panic {
        l.c[C_PUSH_IMPLIED] += 1;
        return true;
    }
    l.c[C_PUSHSEQ] += 1;
    let step = Cell::new(0usize);
    let mut tr = PushTrace::default();
    match guard(|| S::push_all_arr2(chars, &step, &mut tr)) {
        Err(msg) => {
            l.c[C_SB_PANIC] += 1;
            let _ = &a;
            let k = step.get();
            let op = if k < n { "Decoder::push" } else { "Decoder::finalize" };
            let after = tr.last_structural_err.as_ref().or(tr.last_err.as_ref()).map(|(_, e)| ek(e)).unwrap_or("no-prior-error");
            l.violation(
                format!("C18|{}|{}|continue-after-error|after:{}|panic:{}", S::NAME, op, after, panic_class(&msg)),
                n, text, "Array<2>",
                || format!(
                    "Decoder<Array<2>>: pushing the chars of {:?} one by one (continuing after errors): call #{} panicked: {}; last non-IllegalChar error returned before it: {:?}",
                    text, k, msg, tr.last_structural_err
                ),
                || json!({"section": "shortbuf", "codec": S::NAME, "text": text}),
            );
            true
        }
        Ok(fin) => {
            if tr.ok_after_err {
                l.c[C_OK_AFTER_ERR] += 1;
            }
            if tr.n_err > 0 && fin.is_ok() {
                l.c[C_NOT_STICKY] += 1;
            }
            errors_kept::<S>(l, &tr, &fin, n, text, "shortbuf", "<Array<2>>");
            let first: Option<DecodeError> = match (&tr.first_err, &fin) {
                (Some((_, e)), _) => Some(*e),
                (None, Err(e)) => Some(*e),
                (None, Ok(_)) => None,
            };
            let got: Result<&[u8], &str> = match (&first, &fin) {
                (None, Ok(v)) => Ok(v.as_slice()),
                (Some(e), _) => Err(ek(e)),
                (None, Err(_)) => unreachable!(),
            };
            if let Some(a) = &a {
                agree::<S>(l, "Decoder<Array<2>>::push+finalize", a, got, n, text, &"", "shortbuf");
            }
            false
        }
    }
}

const LONG_TEXT: usize = 80;

/// Encode side: three encoders equal the reference encoding; then the
/// encoding goes back through every decode entry point.
fn check_octets<S: Subject>(data: &[u8], sc: &mut Scratch, l: &mut Local) {
    let spec = S::spec();
    let want = spec.encode(data);
    l.c[C_OCTETS] += 1;
    if l.track_distinct && !data.is_empty() {
        l.distinct.push(key("enc", S::NAME, data));
    }
    let hexd = hex(data);
    let fns: [(&str, fn(&[u8]) -> String); 3] = [
        ("display", S::display),
        ("encode_string", S::encode_string),
        ("encode_display", S::encode_display),
    ];
    // `encode_string` and `encode_display` are thin wrappers of `display`:
    // a wrong encoding they merely pass on is the same defect and is counted
    // under the `display` class; a wrapper that differs from the RFC in its
    // own way gets its own class.
    let mut display_out: Option<String> = None;
    for (name, f) in fns {
        l.c[C_ENCODE] += 1;
        match guard(|| f(data)) {
            Err(msg) => l.violation(
                format!("C18|{}|{}|panic|{}", S::NAME, name, panic_class(&msg)),
                data.len(), &hexd, "",
                || format!("{}({}) panicked: {}", name, hexd, msg),
                || json!({"section": "octets", "codec": S::NAME, "octets": hexd}),
            ),
            Ok(got) => {
                if got != want {
                    let same_as_display = name != "display" && display_out.as_deref() == Some(got.as_str());
                    let class = if same_as_display { "display" } else { name };
                    let len_rel = match got.chars().count().cmp(&want.chars().count()) {
                        std::cmp::Ordering::Equal => "same-length",
                        std::cmp::Ordering::Greater => "longer",
                        std::cmp::Ordering::Less => "shorter",
                    };
                    l.violation(
                        format!("C18|{}|{}|encoding-differs-from-rfc4648|lib-output:{}", S::NAME, class, len_rel),
                        data.len(), &hexd, name,
                        || format!("{}({}) = {:?}, RFC 4648 encoding is {:?}", name, hexd, got, want),
                        || json!({"section": "octets", "codec": S::NAME, "octets": hexd}),
                    );
                    // the library must still decode what it produced
                    if !same_as_display {
                        l.c[C_DECODE] += 1;
                        match guard(|| S::decode_vec(&got)) {
                            Ok(Ok(v)) if v == data => {}
                            other => l.violation(
                                format!("C18|{}|{}+decode|roundtrip-broken|own-encoding-not-decoded-back", S::NAME, name),
                                data.len(), &hexd, "",
                                || format!("decode({}({})) = {:?}", name, hexd, other),
                                || json!({"section": "octets", "codec": S::NAME, "octets": hexd}),
                            ),
                        }
                    }
                }
                if name == "display" {
                    display_out = Some(got);
                }
            }
        }
    }
    // round trip of the RFC encoding through (a), (b), (c); the reference
    // must say "well-formed, canonical, these octets" (machinery self-check)
    let chars: Vec<char> = want.chars().collect();
    let mut tmp = Vec::new();
    match spec.decode(&chars, &mut tmp) {
        Ok(false) if tmp == data => {}
        other => {
            eprintln!("MACHINERY: reference codec {} does not round-trip {}: {:?} {}", S::NAME, hexd, other, hex(&tmp));
            std::process::exit(2);
        }
    }
    // every split into <= 3 tokens for encodings up to LONG_TEXT characters,
    // every split into <= 2 tokens beyond (the number of 3-token splits grows
    // quadratically; a 200-octet base16 text would have 79,401 of them)
    let max_tokens = if chars.len() <= LONG_TEXT { 3 } else { 2 };
    let keep = l.serde_max_len;
    l.serde_max_len = usize::MAX;
    check_text::<S>(&chars, sc, max_tokens, l, false);
    l.serde_max_len = keep;
    // the serde serializer must write exactly the RFC encoding as a JSON string
    l.c[C_SERDE_SER] += 1;
    match guard(|| S::serde_ser(data)) {
        Err(msg) => l.violation(
            format!("C18|{}|serde::serialize|panic|{}", S::NAME, panic_class(&msg)),
            data.len(), &hexd, "",
            || format!("serde::serialize({}) panicked: {}", hexd, msg),
            || json!({"section": "octets", "codec": S::NAME, "octets": hexd}),
        ),
        Ok(got) => {
            // the alphabets and '=' need no JSON escaping
            let want_doc = format!("\"{}\"", want);
            if got.as_deref() != Ok(want_doc.as_str()) {
                l.violation(
                    format!("C18|{}|serde::serialize|encoding-differs-from-rfc4648|json-string", S::NAME),
                    data.len(), &hexd, "",
                    || format!("serde::serialize({}) wrote {:?}, expected the JSON string {}", hexd, got, want_doc),
                    || json!({"section": "octets", "codec": S::NAME, "octets": hexd}),
                );
            }
        }
    }
}

// ===================================================================
// The text forms built on the codecs: NSEC3 salt (base16, "-" = empty) and
// NSEC3 next-owner hash (base32hex, unpadded), both at most 255 octets
// ===================================================================

trait TextForm: 'static {
    const NAME: &'static str;
    const IS_SALT: bool;
    fn spec() -> &'static Spec;
    fn from_str(s: &str) -> Result<Vec<u8>, String>;
    fn scan(token: &str) -> Result<Vec<u8>, String>;
    fn serde_de(doc: &str) -> Result<Vec<u8>, String>;
    /// from_octets -> (Display text, serde_json text)
    fn from_octets(data: &[u8]) -> Result<(String, String), String>;
}

macro_rules! text_form {
    ($ty:ident, $t:ident, $name:expr, $salt:expr, $spec:ident) => {
        struct $ty;
        impl TextForm for $ty {
            const NAME: &'static str = $name;
            const IS_SALT: bool = $salt;
            fn spec() -> &'static Spec {
                &$spec
            }
            fn from_str(s: &str) -> Result<Vec<u8>, String> {
                <$t<Vec<u8>> as std::str::FromStr>::from_str(s).map(|v| v.as_slice().to_vec()).map_err(|e| e.to_string())
            }
            fn scan(token: &str) -> Result<Vec<u8>, String> {
                let toks = [token];
                let mut sc = IterScanner::<_, Vec<u8>>::new(toks.iter().copied());
                $t::scan(&mut sc).map(|v| v.as_slice().to_vec()).map_err(|e| e.to_string())
            }
            fn serde_de(doc: &str) -> Result<Vec<u8>, String> {
                serde_json::from_str::<$t<Vec<u8>>>(doc).map(|v| v.as_slice().to_vec()).map_err(|e| e.to_string())
            }
            fn from_octets(data: &[u8]) -> Result<(String, String), String> {
                let v = $t::from_octets(data.to_vec()).map_err(|e| e.to_string())?;
                let js = serde_json::to_string(&v).map_err(|e| e.to_string())?;
                Ok((format!("{}", v), js))
            }
        }
    };
}

text_form!(FSalt, Nsec3Salt, "Nsec3Salt", true, B16);
text_form!(FHash, OwnerHash, "OwnerHash", false, B32H);

const N3_MAX_OCTETS: usize = 255;

#[derive(Clone, Copy, PartialEq, Eq, Debug)]
enum Want {
    Must,
    Either,
    Reject(&'static str),
}

/// One text through from_str, scan (IterScanner) and the serde deserializer.
fn check_form_text<F: TextForm>(chars: &[char], l: &mut Local) {
    let spec = F::spec();
    let text: String = chars.iter().collect();
    let n = chars.len();
    l.c[C_TEXTS] += 1;
    let mut ref_out = Vec::new();
    let want = if F::IS_SALT && text == "-" {
        // RFC 5155 3.3: "-" when the salt length is 0
        Want::Must
    } else {
        match spec.decode(chars, &mut ref_out) {
            Err(w) => Want::Reject(w.s()),
            Ok(_) if ref_out.len() > N3_MAX_OCTETS => {
                l.c[C_N3_LONG] += 1;
                Want::Reject("longer-than-255-octets")
            }
            // the empty text cannot be a token; from_str may take it either way
            Ok(_) if chars.is_empty() => Want::Either,
            Ok(true) => Want::Either,
            Ok(false) => Want::Must,
        }
    };
    if want != Want::Either && matches!(want, Want::Must) && !ref_out.is_empty() {
        l.distinct.push(key("n3", F::NAME, text.as_bytes()));
    }
    let mut outcomes: Vec<(&'static str, Result<Vec<u8>, String>)> = Vec::new();
    let mut run = |entry: &'static str, r: Result<Result<Vec<u8>, String>, String>, l: &mut Local| {
        l.c[C_N3_CALLS] += 1;
        match r {
            Err(msg) => l.violation(
                format!("C18|nsec3|{}::{}|panic|{}", F::NAME, entry, panic_class(&msg)),
                n, &text, entry,
                || format!("{}::{}({:?}) panicked: {}", F::NAME, entry, text, msg),
                || json!({"section": "nsec3-text", "form": F::NAME, "text": text, "entry": entry}),
            ),
            Ok(r) => {
                match (&r, want) {
                    (Ok(_), _) => l.c[C_N3_ACC] += 1,
                    (Err(_), _) => l.c[C_N3_REJ] += 1,
                }
                match (&r, want) {
                    (Ok(v), Want::Reject(why)) => l.violation(
                        format!("C18|nsec3|{}::{}|malformed-accepted|ref:{}", F::NAME, entry, why),
                        n, &text, entry,
                        || format!("{}::{}({:?}) returned a value of {} octets ({}) but the text is not a valid {} ({})", F::NAME, entry, if n > 40 { format!("{}...[{} chars]", chars[..32].iter().collect::<String>(), n) } else { text.clone() }, v.len(), if v.len() > 16 { format!("{}...", hex(&v[..16])) } else { hex(v) }, F::NAME, why),
                        || json!({"section": "nsec3-text", "form": F::NAME, "text": text, "entry": entry}),
                    ),
                    (Ok(v), _) if v != &ref_out => l.violation(
                        format!("C18|nsec3|{}::{}|accepted-with-wrong-octets|ref!=lib", F::NAME, entry),
                        n, &text, entry,
                        || format!("{}::{}({:?}) = {} but the reference decoding is {}", F::NAME, entry, text, hex(v), hex(&ref_out)),
                        || json!({"section": "nsec3-text", "form": F::NAME, "text": text, "entry": entry}),
                    ),
                    (Err(e), Want::Must) => l.violation(
                        format!("C18|nsec3|{}::{}|wellformed-rejected|lib:Err", F::NAME, entry),
                        n, &text, entry,
                        || format!("{}::{}({:?}) failed with {:?} but the text is a valid {} ({})", F::NAME, entry, text, e, F::NAME, hex(&ref_out)),
                        || json!({"section": "nsec3-text", "form": F::NAME, "text": text, "entry": entry}),
                    ),
                    _ => {}
                }
                outcomes.push((entry, r));
            }
        }
    };
    run("from_str", guard(|| F::from_str(&text)), l);
    if !chars.is_empty() {
        run("scan", guard(|| F::scan(&text)), l);
    }
    let doc = serde_json::to_string(&text).expect("JSON string");
    run("deserialize", guard(|| F::serde_de(&doc)), l);
    // all entry points agree
    if let Some((e0, r0)) = outcomes.first() {
        for (e, r) in &outcomes[1..] {
            if r0.as_ref().ok() != r.as_ref().ok() {
                l.violation(
                    format!("C18|nsec3|{}::{}|disagrees-with-{}|{}-vs-{}", F::NAME, e, e0, if r0.is_ok() { "Ok" } else { "Err" }, if r.is_ok() { "Ok" } else { "Err" }),
                    n, &text, e,
                    || format!("{}::{}({:?}) = {:?} but {} = {:?} (Ok(number of octets) / Err)", F::NAME, e0, if n > 40 { format!("{}...[{} chars]", chars[..32].iter().collect::<String>(), n) } else { text.clone() }, r0.as_ref().map(|v| v.len()), e, r.as_ref().map(|v| v.len())),
                    || json!({"section": "nsec3-text", "form": F::NAME, "text": text, "entry": e}),
                );
            }
        }
    }
}

/// One octet string: from_octets accepts iff <= 255 octets; Display and the
/// serde serializer write the canonical text; the canonical text goes back
/// through every text entry point (for > 255 octets: must be rejected).
fn check_form_octets<F: TextForm>(data: &[u8], l: &mut Local) {
    let spec = F::spec();
    l.c[C_OCTETS] += 1;
    let hexd = hex(data);
    let canonical = if F::IS_SALT && data.is_empty() { "-".to_string() } else { spec.encode(data) };
    l.c[C_N3_CALLS] += 1;
    match guard(|| F::from_octets(data)) {
        Err(msg) => l.violation(
            format!("C18|nsec3|{}::from_octets+Display|panic|{}", F::NAME, panic_class(&msg)),
            data.len(), &hexd, "",
            || format!("{}::from_octets / Display of {} octets panicked: {}", F::NAME, data.len(), msg),
            || json!({"section": "nsec3-octets", "form": F::NAME, "octets": hexd}),
        ),
        Ok(r) => match (r, data.len() <= N3_MAX_OCTETS) {
            (Ok((disp, js)), true) => {
                if disp != canonical {
                    l.violation(
                        format!("C18|nsec3|{}::Display|text-differs-from-canonical|{}", F::NAME, if data.is_empty() { "empty" } else { "non-empty" }),
                        data.len(), &hexd, "",
                        || format!("Display of {}({}) = {:?}, canonical text is {:?}", F::NAME, hexd, disp, canonical),
                        || json!({"section": "nsec3-octets", "form": F::NAME, "octets": hexd}),
                    );
                }
                if js != format!("\"{}\"", canonical) {
                    l.violation(
                        format!("C18|nsec3|{}::serialize|text-differs-from-canonical|json-string", F::NAME),
                        data.len(), &hexd, "",
                        || format!("serde_json of {}({}) = {:?}, canonical text is {:?}", F::NAME, hexd, js, canonical),
                        || json!({"section": "nsec3-octets", "form": F::NAME, "octets": hexd}),
                    );
                }
            }
            (Err(e), true) => l.violation(
                format!("C18|nsec3|{}::from_octets|valid-length-rejected|lib:Err", F::NAME),
                data.len(), &hexd, "",
                || format!("{}::from_octets of {} octets failed: {}", F::NAME, data.len(), e),
                || json!({"section": "nsec3-octets", "form": F::NAME, "octets": hexd}),
            ),
            (Ok(_), false) => l.violation(
                format!("C18|nsec3|{}::from_octets|too-long-accepted|more-than-255-octets", F::NAME),
                data.len(), &hexd, "",
                || format!("{}::from_octets accepted {} octets", F::NAME, data.len()),
                || json!({"section": "nsec3-octets", "form": F::NAME, "octets": hexd}),
            ),
            (Err(_), false) => {}
        },
    }
    let chars: Vec<char> = canonical.chars().collect();
    check_form_text::<F>(&chars, l);
}

fn run_forms<F: TextForm>(agg: &Agg, classes: &[char], max_len: usize, max_octets: usize) -> (u64, u64) {
    let mut texts = 0;
    for n in 0..=max_len {
        let cnt = pow(classes.len(), n);
        texts += cnt;
        let nchunks = cnt.div_ceil(CHUNK);
        (0..nchunks).into_par_iter().for_each(|ci| {
            let mut l = Local::new();
            let mut chars = Vec::with_capacity(n);
            for k in ci * CHUNK..((ci + 1) * CHUNK).min(cnt) {
                nth_string(classes, n, k, &mut chars);
                check_form_text::<F>(&chars, &mut l);
            }
            agg.merge(l);
        });
    }
    // every octet length 0..=max_octets, three fill patterns
    let cnt = (max_octets as u64 + 1) * N_PATTERNS_ALL;
    (0..cnt).into_par_iter().for_each(|k| {
        let mut l = Local::new();
        let d = fill_pattern((k % N_PATTERNS_ALL) as usize, (k / N_PATTERNS_ALL) as usize);
        check_form_octets::<F>(&d, &mut l);
        agg.merge(l);
    });
    (texts, cnt)
}

/// All strings over an escape-bearing class alphabet that contain a backslash.
fn run_escaped<S: Subject>(agg: &Agg, wd: &Watchdog, classes: &[char], max_len: usize) -> u64 {
    let mut total = 0;
    for n in 0..=max_len {
        let cnt = pow(classes.len(), n);
        total += cnt;
        run_indexed::<S>(agg, wd, "escaped-class-strings", cnt, |k, sc, l| {
            let mut chars = Vec::with_capacity(n);
            nth_string(classes, n, k, &mut chars);
            if chars.contains(&'\\') {
                check_escaped::<S>(&chars, sc, l);
            }
        });
    }
    total
}


// ===================================================================
// Front ends: the codecs as fields of complete records, read by the real
// presentation-format readers
// ===================================================================

/// One record field whose presentation format is Base 16 / 32 hex / 64 text.
///
/// The record line is `<owner> 3600 IN <rtype> <pre><tokens><post>`; the
/// expected wire-format RDATA is `wire_pre ++ length ++ octets ++ wire_post`
/// (layouts from RFC 4034 2.1/3.1/5.1, RFC 5155 3.2/4.2, RFC 6698 2.1,
/// RFC 4255 3.1, RFC 8976 2.2, RFC 7929 2.1, RFC 4025 2.1, RFC 7344,
/// RFC 3597 5, RFC 9460 2.2).
#[derive(Clone, Copy)]
struct Field {
    name: &'static str,
    /// 0 = base64, 1 = base32hex, 2 = base16
    codec: usize,
    rtype: &'static str,
    pre: &'static str,
    post: &'static str,
    /// glued to the first / last token (`ech=`, quotes)
    tok_prefix: &'static str,
    tok_suffix: &'static str,
    /// may the text be spread over several tokens
    multi: bool,
    /// RFC 3597 form: `pre` is `\# <number of octets> `
    generic: bool,
    /// RFC 5155 3.3: "-" is the empty salt
    dash_is_empty: bool,
    /// SvcParam value (no IterScanner record route; direct value scan instead)
    svcparam: bool,
    wire_pre: &'static [u8],
    /// width of the length field in front of the octets (0, 1 or 2 octets)
    len_width: usize,
    wire_post: &'static [u8],
    max_octets: usize,
}

const fn fld(name: &'static str, codec: usize, rtype: &'static str, pre: &'static str, wire_pre: &'static [u8]) -> Field {
    Field {
        name, codec, rtype, pre, post: "", tok_prefix: "", tok_suffix: "", multi: true, generic: false,
        dash_is_empty: false, svcparam: false, wire_pre, len_width: 0, wire_post: &[], max_octets: 60000,
    }
}

/// example.com. in wire format
const RRSIG_WIRE_PRE: &[u8] = &[
    0, 1, 8, 2, 0, 0, 0x0E, 0x10, // A, alg 8, 2 labels, original TTL 3600
    0x65, 0x92, 0x00, 0x80, // 2024-01-01T00:00:00Z = 1704067200
    0x63, 0xB0, 0xCD, 0x00, // 2023-01-01T00:00:00Z = 1672531200
    0x30, 0x39, // key tag 12345
    7, b'e', b'x', b'a', b'm', b'p', b'l', b'e', 3, b'c', b'o', b'm', 0,
];
/// type bit map holding just A
const BITMAP_A: &[u8] = &[0, 1, 0x40];
const NSEC3_AFTER_SALT: &[u8] = &[5, b'f', b'o', b'o', b'b', b'a', 0, 1, 0x40];

static FIELDS: [Field; 19] = [
    // ---- base64, any number of tokens
    fld("DNSKEY.public_key", 0, "DNSKEY", "256 3 8 ", &[1, 0, 3, 8]),
    fld("CDNSKEY.public_key", 0, "CDNSKEY", "257 3 13 ", &[1, 1, 3, 13]),
    fld("RRSIG.signature", 0, "RRSIG", "A 8 2 3600 20240101000000 20230101000000 12345 example.com. ", RRSIG_WIRE_PRE),
    fld("OPENPGPKEY.key", 0, "OPENPGPKEY", "", &[]),
    fld("IPSECKEY.public_key", 0, "IPSECKEY", "10 0 2 . ", &[10, 0, 2]),
    // ---- base64, SvcParam value driven by hand
    Field { multi: false, svcparam: true, tok_prefix: "ech=", len_width: 2, ..fld("SVCB.ech", 0, "SVCB", "1 . ", &[0, 1, 0, 0, 5]) },
    Field { multi: false, svcparam: true, tok_prefix: "ech=\"", tok_suffix: "\"", len_width: 2, ..fld("HTTPS.ech(quoted)", 0, "HTTPS", "1 . ", &[0, 1, 0, 0, 5]) },
    // ---- base32hex, one token
    Field { multi: false, post: " A", len_width: 1, wire_post: BITMAP_A, max_octets: 255, ..fld("NSEC3.next_owner", 1, "NSEC3", "1 0 10 AABB ", &[1, 0, 0, 10, 2, 0xAA, 0xBB]) },
    // ---- base16, one token
    Field { multi: false, dash_is_empty: true, post: " CPNMUOJ1 A", len_width: 1, wire_post: NSEC3_AFTER_SALT, max_octets: 255, ..fld("NSEC3.salt", 2, "NSEC3", "1 0 10 ", &[1, 0, 0, 10]) },
    Field { multi: false, dash_is_empty: true, len_width: 1, max_octets: 255, ..fld("NSEC3PARAM.salt", 2, "NSEC3PARAM", "1 0 10 ", &[1, 0, 0, 10]) },
    // ---- base16, any number of tokens
    fld("DS.digest", 2, "DS", "12345 8 2 ", &[0x30, 0x39, 8, 2]),
    fld("CDS.digest", 2, "CDS", "12345 13 4 ", &[0x30, 0x39, 13, 4]),
    fld("ZONEMD.digest", 2, "ZONEMD", "2018031500 1 1 ", &[0x78, 0x48, 0xB7, 0x8C, 1, 1]),
    fld("TLSA.data", 2, "TLSA", "3 1 1 ", &[3, 1, 1]),
    fld("SSHFP.fingerprint", 2, "SSHFP", "4 2 ", &[4, 2]),
    Field { generic: true, ..fld("TYPE65280.generic(rfc3597)", 2, "TYPE65280", "", &[]) },
    Field { generic: true, ..fld("TXT.generic(rfc3597)", 2, "TXT", "", &[]) },
    Field { generic: true, ..fld("DS.generic(rfc3597)", 2, "DS", "", &[]) },
    Field { generic: true, ..fld("NSEC3.generic(rfc3597)", 2, "NSEC3", "", &[]) },
];

fn codec_spec(codec: usize) -> &'static Spec {
    [&B64, &B32H, &B16][codec]
}

fn codec_name(codec: usize) -> &'static str {
    ["base64", "base32hex", "base16"][codec]
}

impl Field {
    fn kind(&self) -> &'static str {
        if self.svcparam {
            "svcparam-value"
        } else if self.generic {
            "rfc3597-data"
        } else if self.multi {
            "multi-token-field"
        } else {
            "single-token-field"
        }
    }

    fn wire(&self, octets: &[u8]) -> Vec<u8> {
        let mut v = self.wire_pre.to_vec();
        match self.len_width {
            1 => v.push(octets.len() as u8),
            2 => v.extend_from_slice(&(octets.len() as u16).to_be_bytes()),
            _ => {}
        }
        v.extend_from_slice(octets);
        v.extend_from_slice(self.wire_post);
        v
    }

    /// The presentation tokens of the field: the text cut after character
    /// `i` and `j` (values >= the length mean: no cut).
    fn tokens(&self, chars: &[char], i: usize, j: usize) -> Vec<String> {
        let n = chars.len();
        let (i, j) = (i.min(n), j.min(n));
        let mut t: Vec<String> = Vec::new();
        for (x, y) in [(0, i), (i, j), (j, n)] {
            if y > x {
                t.push(chars[x..y].iter().collect());
            }
        }
        if t.is_empty() && !self.tok_prefix.is_empty() {
            t.push(String::new());
        }
        if let Some(f) = t.first_mut() {
            f.insert_str(0, self.tok_prefix);
        }
        if let Some(l) = t.last_mut() {
            l.push_str(self.tok_suffix);
        }
        t
    }

    fn pre(&self, declared: usize) -> String {
        if self.generic {
            format!("\\# {} ", declared)
        } else {
            self.pre.to_string()
        }
    }
}

const FE_OWNER_WIRE: &[u8] = &[1, b'x', 7, b'e', b'x', b'a', b'm', b'p', b'l', b'e', 3, b'c', b'o', b'm', 0];
const FE_LAST_WIRE: &[u8] = &[4, b'l', b'a', b's', b't', 7, b'e', b'x', b'a', b'm', b'p', b'l', b'e', 3, b'c', b'o', b'm', 0];
const FE_FIRST_WIRE: &[u8] = &[5, b'f', b'i', b'r', b's', b't', 7, b'e', b'x', b'a', b'm', b'p', b'l', b'e', 3, b'c', b'o', b'm', 0];

/// The zone file holding the record. `pos` 0: the only entry; 1: after
/// `$ORIGIN`, `$TTL` and a record, and followed by another record.
/// `layout` 0: one line, tokens separated by one space; 1: the field's tokens
/// in parentheses, one per line, each followed by a comment.
fn fe_zone_text(f: &Field, declared: usize, tokens: &[String], pos: u8, layout: u8) -> String {
    let mut s = String::new();
    if pos == 1 {
        s.push_str("$ORIGIN example.com.\n$TTL 300\nfirst 3600 IN A 192.0.2.1\n");
    }
    s.push_str("x.example.com. 3600 IN ");
    s.push_str(f.rtype);
    s.push(' ');
    s.push_str(&f.pre(declared));
    if layout == 0 {
        s.push_str(&tokens.join(" "));
    } else {
        s.push_str("(\n");
        for t in tokens {
            s.push('\t');
            s.push_str(t);
            s.push_str(" ; c\n");
        }
        s.push(')');
    }
    s.push_str(f.post);
    s.push('\n');
    if pos == 1 {
        s.push_str("last 7200 IN A 192.0.2.9\n");
    }
    s
}

struct FeRead {
    /// the record under test: (rtype, wire RDATA) or that the reader failed
    rec: Result<(u16, Vec<u8>), String>,
    /// something wrong with the entries around it (only looked at if `rec` is Ok)
    around: Option<String>,
}

fn fe_entry(zf: &mut Zonefile) -> Result<Option<(Vec<u8>, u16, Vec<u8>)>, String> {
    match zf.next_entry() {
        Err(e) => Err(e.to_string()),
        Ok(None) => Ok(None),
        Ok(Some(Entry::Record(r))) => {
            let mut rd = Vec::new();
            r.data().compose_rdata(&mut rd).map_err(|_| "compose_rdata failed".to_string())?;
            Ok(Some((r.owner().to_vec().as_slice().to_vec(), r.rtype().to_int(), rd)))
        }
        Ok(Some(Entry::Include { .. })) => Err("an $INCLUDE entry".into()),
    }
}

/// (R0) the zone-file reader
fn fe_read_zonefile(zone: &str, pos: u8) -> FeRead {
    let mut zf = Zonefile::from(zone);
    let mut around: Option<String> = None;
    if pos == 1 {
        match fe_entry(&mut zf) {
            Ok(Some((o, 1, rd))) if o == FE_FIRST_WIRE && rd == [192, 0, 2, 1] => {}
            other => around = Some(format!("the record before it was read as {:?}", other)),
        }
    }
    let rec = match fe_entry(&mut zf) {
        Err(e) => Err(e),
        Ok(None) => Err("no entry".into()),
        Ok(Some((o, rt, rd))) => {
            if o != FE_OWNER_WIRE && around.is_none() {
                around = Some(format!("its owner was read as {}", hex(&o)));
            }
            Ok((rt, rd))
        }
    };
    if rec.is_ok() {
        if pos == 1 {
            match fe_entry(&mut zf) {
                Ok(Some((o, 1, rd))) if o == FE_LAST_WIRE && rd == [192, 0, 2, 9] => {}
                other => {
                    if around.is_none() {
                        around = Some(format!("the record after it (last 7200 IN A 192.0.2.9) was read as {:?}", other));
                    }
                }
            }
        }
        match fe_entry(&mut zf) {
            Ok(None) => {}
            other => {
                if around.is_none() {
                    around = Some(format!("after the last record the reader did not report the end of the file but {:?}", other));
                }
            }
        }
    }
    FeRead { rec, around }
}

/// (R1) the record data scanned from a token iterator
fn fe_read_iter(f: &Field, declared: usize, tokens: &[String]) -> Result<(u16, Vec<u8>), String> {
    let rtype = <Rtype as std::str::FromStr>::from_str(f.rtype).map_err(|_| "MACHINERY rtype".to_string())?;
    let pre = f.pre(declared);
    let mut all: Vec<&str> = pre.split_whitespace().collect();
    all.extend(tokens.iter().map(|t| t.as_str()));
    all.extend(f.post.split_whitespace());
    let mut sc = IterScanner::<_, Vec<u8>>::new(all.iter().copied());
    let mut rd = Vec::new();
    let rt = if f.generic {
        let d = UnknownRecordData::<Vec<u8>>::scan(rtype, &mut sc).map_err(|e| e.to_string())?;
        d.compose_rdata(&mut rd).map_err(|_| "compose_rdata failed".to_string())?;
        d.rtype().to_int()
    } else {
        let d = ZoneRecordData::<Vec<u8>, Name<Vec<u8>>>::scan(rtype, &mut sc).map_err(|e| e.to_string())?;
        d.compose_rdata(&mut rd).map_err(|_| "compose_rdata failed".to_string())?;
        rtype.to_int()
    };
    if !sc.is_exhausted() {
        return Err("tokens left over".into());
    }
    Ok((rt, rd))
}

/// (R2) the `ech` value scanner called directly
fn fe_read_ech(text: &str) -> Result<Vec<u8>, String> {
    let none: [&str; 0] = [];
    let mut sc = IterScanner::<_, Vec<u8>>::new(none.iter().copied());
    match <Ech<Vec<u8>> as ScanSvcParamValue<[u8], Vec<u8>>>::value_from_scan_octets(&mut sc, SvcParamKey::ECH, text.as_bytes()) {
        Ok(Some(e)) => Ok(e.as_slice().to_vec()),
        Ok(None) => Err("Ok(None)".into()),
        Err(e) => Err(e.to_string()),
    }
}

/// (position in the file, token layout) pairs
const FE_VARIANTS_ALL: [(u8, u8); 4] = [(0, 0), (0, 1), (1, 0), (1, 1)];
const FE_VARIANTS_TWO: [(u8, u8); 2] = [(0, 0), (1, 1)];

/// One text in one field through every reader, token split and layout.
///
/// Oracle (from the property and the RFC record layouts, nothing of the
/// library): not well-formed text (reference codec) -> the reader must fail;
/// well-formed canonical text -> the record must be read and its wire RDATA
/// must be the RFC layout with exactly the reference octets in the field;
/// non-zero trailing bits (RFC 4648 3.5) and the empty text (whether a field
/// may be empty is the record type's business, not the codec's) may be
/// refused, but if taken must give the reference octets; RFC 3597 `\# 0`
/// and the NSEC3 salt `-` are well-formed. The records before and after must
/// be read unharmed and the reader must then report the end of the file.
fn check_front_text(f: &Field, chars: &[char], max_tokens: u8, variants: &[(u8, u8)], l: &mut Local) {
    let spec = codec_spec(f.codec);
    let cname = codec_name(f.codec);
    let n = chars.len();
    let text: String = chars.iter().collect();
    let mut ref_out = Vec::new();
    let is_dash = f.dash_is_empty && text == "-";
    let want = if is_dash {
        Want::Must
    } else {
        match spec.decode(chars, &mut ref_out) {
            Err(w) => Want::Reject(w.s()),
            Ok(_) if ref_out.len() > f.max_octets => Want::Reject("too-long-for-the-field"),
            Ok(_) if n == 0 => {
                if f.generic {
                    Want::Must
                } else if !f.multi && f.tok_prefix.is_empty() {
                    // a single-token field cannot be written with no text at all
                    return;
                } else {
                    Want::Either
                }
            }
            Ok(true) => Want::Either,
            Ok(false) => Want::Must,
        }
    };
    // RFC 3597: the declared length; for malformed text the number of whole
    // octets its symbols would carry (what a truncating reader would produce)
    let declared = match want {
        Want::Reject(_) => chars.iter().filter(|c| spec.val(**c).is_some()).count() * spec.bits as usize / 8,
        _ => ref_out.len(),
    };
    let expected = f.wire(&ref_out);
    let want_rtype = <Rtype as std::str::FromStr>::from_str(f.rtype).map(|r| r.to_int()).unwrap_or(0);
    l.c[C_FE_TEXTS] += 1;
    if matches!(want, Want::Must) && !ref_out.is_empty() {
        l.distinct.push(key("fe", f.name, text.as_bytes()));
    }

    let judge = |l: &mut Local, reader: &str, got: Result<Result<(u16, Vec<u8>), String>, String>, detail: &str, zone: &str| -> Option<bool> {
        let replay = || json!({"section": "front-end", "codec": cname, "field": f.name, "text": text, "detail": detail, "reader": reader});
        let shown = if zone.is_empty() { format!("{} {}", f.name, detail) } else { format!("{} {} - zone file {:?}", f.name, detail, zone) };
        match got {
            Err(msg) => {
                l.violation(
                    format!("C18|{}|front-end:{}:{}|panic|{}", cname, reader, f.kind(), panic_class(&msg)),
                    n, &text, detail,
                    || format!("{} reading {:?} in {} panicked: {}", reader, text, shown, msg),
                    replay,
                );
                None
            }
            Ok(Err(e)) => {
                l.c[C_FE_REJ] += 1;
                if matches!(want, Want::Must) {
                    l.violation(
                        format!("C18|{}|front-end:{}:{}|wellformed-rejected|lib:Err", cname, reader, f.kind()),
                        n, &text, detail,
                        || format!("{} refused well-formed {} text {:?} (octets {}) in {}: {}", reader, cname, text, hex(&ref_out), shown, e),
                        replay,
                    );
                }
                Some(false)
            }
            Ok(Ok((rt, rd))) => {
                l.c[C_FE_ACC] += 1;
                if let Want::Reject(why) = want {
                    l.violation(
                        format!("C18|{}|front-end:{}:{}|malformed-accepted|ref:{}", cname, reader, f.kind(), why),
                        n, &text, detail,
                        || format!("{} accepted {:?}, which is not well-formed {} ({}), in {}: RDATA read {}", reader, text, cname, why, shown, hex(&rd)),
                        replay,
                    );
                } else if rd != expected || rt != want_rtype {
                    let rel = match rd.len().cmp(&expected.len()) {
                        std::cmp::Ordering::Less => "shorter",
                        std::cmp::Ordering::Equal => "same-length",
                        std::cmp::Ordering::Greater => "longer",
                    };
                    l.violation(
                        format!("C18|{}|front-end:{}:{}|accepted-with-wrong-octets|lib-rdata:{}", cname, reader, f.kind(), rel),
                        n, &text, detail,
                        || format!("{} read {} text {:?} in {} as type {} RDATA {} but the field holds the octets {}: expected type {} RDATA {}", reader, cname, text, shown, rt, hex(&rd), hex(&ref_out), want_rtype, hex(&expected)),
                        replay,
                    );
                }
                Some(true)
            }
        }
    };

    let mut cuts: Vec<(usize, usize)> = vec![(n, n)];
    if f.multi {
        if max_tokens >= 2 {
            for i in 1..n {
                cuts.push((i, n));
            }
        }
        if max_tokens >= 3 {
            for i in 1..n {
                for j in i + 1..n {
                    cuts.push((i, j));
                }
            }
        }
    }
    for (i, j) in cuts {
        let tokens = f.tokens(chars, i, j);
        let split = SplitTag { i, j, n }.to_string();
        l.c[C_FE_LAYOUTS] += 1;
        let mut zone_verdict: Option<bool> = None;
        for &(pos, layout) in variants {
            let zone = fe_zone_text(f, declared, &tokens, pos, layout);
            let detail = format!("{}{}{}", split, if pos == 1 { " between-records" } else { "" }, if layout == 1 { " parenthesised" } else { "" });
            l.c[C_FE_ZONEFILE] += 1;
            let r = guard(|| fe_read_zonefile(&zone, pos));
            let (rec, around) = match r {
                Err(m) => (Err(m), None),
                Ok(fr) => (Ok(fr.rec), fr.around),
            };
            let v = judge(l, "zonefile::inplace", rec, detail.trim(), &zone);
            if pos == 1 || v == Some(true) {
                l.c[C_FE_NEIGHBOUR] += 1;
            }
            if let (Some(true), Some(a)) = (v, around) {
                l.violation(
                    format!("C18|{}|front-end:zonefile::inplace:{}|neighbouring-entry-misread|after-an-accepted-field", cname, f.kind()),
                    n, &text, detail.trim(),
                    || format!("zone file {:?}: the {} record was read, but {}", zone, f.name, a),
                    || json!({"section": "front-end", "codec": cname, "field": f.name, "text": text, "detail": detail.trim(), "reader": "zonefile::inplace"}),
                );
            }
            if (pos, layout) == (0, 0) {
                zone_verdict = v;
            }
        }
        if !f.svcparam {
            l.c[C_FE_ITER] += 1;
            let r = guard(|| fe_read_iter(f, declared, &tokens));
            let v = judge(l, "IterScanner+RecordData::scan", r, &split, "");
            // two front ends of one converter: where the oracle leaves a
            // choice (non-zero trailing bits) they must make the same one
            if let (Want::Either, true, Some(a), Some(b)) = (want, n > 0, zone_verdict, v) {
                if a != b {
                    l.violation(
                        format!("C18|{}|front-end:zonefile::inplace:{}|disagrees-with-IterScanner|{}-vs-{}", cname, f.kind(), if a { "Ok" } else { "Err" }, if b { "Ok" } else { "Err" }),
                        n, &text, &split,
                        || format!("{} text {:?} in {} {}: the zone-file reader {} it, the IterScanner route {} it", cname, text, f.name, split, if a { "accepts" } else { "refuses" }, if b { "accepts" } else { "refuses" }),
                        || json!({"section": "front-end", "codec": cname, "field": f.name, "text": text, "detail": split, "reader": "zonefile::inplace"}),
                    );
                }
            }
        }
    }
    if f.svcparam && f.tok_suffix.is_empty() {
        l.c[C_FE_ECH] += 1;
        let r = guard(|| fe_read_ech(&text)).map(|r| r.map(|v| (want_rtype, f.wire(&v))));
        judge(l, "Ech::value_from_scan_octets", r, "", "");
    }
}

fn fe_classes(codec: usize) -> Vec<Vec<char>> {
    match codec {
        // zero-bits symbol, non-zero symbols, '=', illegal ASCII, non-ASCII
        0 => vec![vec!['A', 'B', '/', '=', '!', 'é']],
        1 => vec![vec!['0', 'v', 'V', 'W', '='], vec!['0', 'V', 'W']],
        // '-' is the empty NSEC3 salt when alone
        _ => vec![vec!['0', 'f', 'F', 'g', '=', '-', 'é']],
    }
}

/// Returns the coverage description.
fn run_front_ends(agg: &Agg, wd: &Watchdog, quick: bool) -> Value {
    // (A) the encode space: reference encodings of every length x pattern
    let (max_octets, patterns) = if quick { (12usize, N_PATTERNS_ALL as usize) } else { (40usize, N_PATTERNS_BOUNDARY as usize) };
    let per_field = (max_octets + 1) * patterns;
    let total = (FIELDS.len() * per_field) as u64;
    (0..total).into_par_iter().for_each(|k| {
        wd.enter(|| json!({"codec": "front-end", "what": "front-end-encodings", "case": k}));
        let f = &FIELDS[k as usize / per_field];
        let r = k as usize % per_field;
        let (len, p) = (r / patterns, r % patterns);
        let mut l = Local::new();
        if len > 0 || p == 0 {
            let data = fill_pattern(p, len);
            let text = if f.dash_is_empty && data.is_empty() { "-".to_string() } else { codec_spec(f.codec).encode(&data) };
            let chars: Vec<char> = text.chars().collect();
            // every 3-token split of short texts (quick) / of all texts (thorough)
            let max_tokens = if !quick || chars.len() <= 12 { 3 } else { 2 };
            check_front_text(f, &chars, max_tokens, &FE_VARIANTS_ALL, &mut l);
        }
        agg.merge(l);
        wd.leave();
    });
    // (B) class strings: the malformed-text families in every field
    let mut menus = Vec::new();
    for codec in 0..3 {
        for (mi, classes) in fe_classes(codec).into_iter().enumerate() {
            let max_len = match (codec, mi, quick) {
                (0, _, true) => 5,
                (0, _, false) => 7,
                (1, 0, true) => 6,
                (1, 0, false) => 9,
                (1, _, true) => 10,
                (1, _, false) => 13,
                (_, _, true) => 4,
                (_, _, false) => 6,
            };
            let fields: Vec<&Field> = FIELDS.iter().filter(|f| f.codec == codec).collect();
            let mut strings = 0u64;
            for n in 0..=max_len {
                let cnt = pow(classes.len(), n);
                strings += cnt;
                let nchunks = cnt.div_ceil(CHUNK);
                (0..nchunks).into_par_iter().for_each(|ci| {
                    wd.enter(|| json!({"codec": "front-end", "what": "front-end-class-strings", "chunk": ci}));
                    let mut l = Local::new();
                    let mut chars = Vec::with_capacity(n);
                    for k in ci * CHUNK..((ci + 1) * CHUNK).min(cnt) {
                        nth_string(&classes, n, k, &mut chars);
                        for f in &fields {
                            check_front_text(f, &chars, 2, &FE_VARIANTS_TWO, &mut l);
                        }
                    }
                    agg.merge(l);
                    wd.leave();
                });
            }
            menus.push(json!({"codec": codec_name(codec), "classes": classes.iter().collect::<String>(), "max_len": max_len, "strings": strings, "fields": fields.len()}));
        }
    }
    json!({
        "fields": FIELDS.iter().map(|f| json!({"field": f.name, "codec": codec_name(f.codec), "kind": f.kind()})).collect::<Vec<_>>(),
        "readers": ["zonefile::inplace::Zonefile (complete zone file)", "ZoneRecordData::scan / UnknownRecordData::scan over IterScanner (not for SvcParams: IterScanner has no scan_svcb_octets)", "Ech::value_from_scan_octets called directly"],
        "encodings": format!("reference (harness) encoding of every octet length 0..={} x {} fill patterns per field; every split into <= 3 tokens (quick: <= 2 tokens for texts longer than 12 characters) for multi-token fields", max_octets, patterns),
        "zone_file_variants": "encodings: {only entry, between two records} x {one line, parenthesised one token per line with comments}; class strings: only-entry/one-line and between-records/parenthesised",
        "class_strings": menus,
        "class_string_splits": "unsplit and every 2-token split for multi-token fields",
    })
}

// ===================================================================
// Enumeration drivers
// ===================================================================

const CHUNK: u64 = 4096;
const EVAL_COUNTERS: [usize; 14] = [C_DECODE, C_PUSHSEQ, C_CONV_DIRECT, C_CONV_ENTRY, C_CONV_TOKEN, C_ENCODE, C_DECODE_OTHER, C_SERDE_DE, C_SERDE_SER, C_ESC_CALLS, C_N3_CALLS, C_FE_ZONEFILE, C_FE_ITER, C_FE_ECH];

fn run_indexed<S: Subject>(
    agg: &Agg,
    wd: &Watchdog,
    what: &'static str,
    total: u64,
    f: impl Fn(u64, &mut Scratch, &mut Local) + Sync,
) {
    let nchunks = total.div_ceil(CHUNK);
    (0..nchunks).into_par_iter().for_each(|ci| {
        wd.enter(|| json!({"codec": S::NAME, "what": what, "chunk": ci}));
        let mut l = Local::new();
        let mut sc = Scratch::new();
        for k in ci * CHUNK..((ci + 1) * CHUNK).min(total) {
            f(k, &mut sc, &mut l);
        }
        agg.merge(l);
        wd.leave();
    });
}

/// Like `run_indexed` for a small number of heavy cases: one case per task.
fn run_indexed_small<S: Subject>(
    agg: &Agg,
    wd: &Watchdog,
    what: &'static str,
    total: u64,
    f: impl Fn(u64, &mut Scratch, &mut Local) + Sync,
) {
    (0..total).into_par_iter().for_each(|k| {
        wd.enter(|| json!({"codec": S::NAME, "what": what, "case": k}));
        let mut l = Local::new();
        let mut sc = Scratch::new();
        f(k, &mut sc, &mut l);
        agg.merge(l);
        wd.leave();
    });
}

/// One bit per string index of one length.
struct Bits(Vec<std::sync::atomic::AtomicU64>);

impl Bits {
    fn new(n: u64) -> Bits {
        Bits((0..n.div_ceil(64)).map(|_| std::sync::atomic::AtomicU64::new(0)).collect())
    }
    fn set(&self, k: u64) {
        self.0[(k / 64) as usize].fetch_or(1 << (k % 64), std::sync::atomic::Ordering::Relaxed);
    }
    fn get(&self, k: u64) -> bool {
        self.0[(k / 64) as usize].load(std::sync::atomic::Ordering::Relaxed) & (1 << (k % 64)) != 0
    }
}

/// All strings of length 0..=max_len over `classes`, shortest first.
/// `nth_string` puts the lowest base-|classes| digit first, so the prefix of
/// length n-1 of string k is string `k mod |classes|^(n-1)` of the previous
/// length; its "push sequence panics" bit is complete before length n starts.
fn run_lengths<S: Subject>(
    agg: &Agg,
    wd: &Watchdog,
    what: &'static str,
    classes: &[char],
    max_len: usize,
    f: impl Fn(&[char], &mut Scratch, &mut Local, bool) -> bool + Sync,
) -> u64 {
    let mut total = 0;
    let mut prev: Option<Bits> = None;
    for n in 0..=max_len {
        let cnt = pow(classes.len(), n);
        total += cnt;
        let cur = Bits::new(cnt);
        let plen = if n > 0 { pow(classes.len(), n - 1) } else { 1 };
        run_indexed::<S>(agg, wd, what, cnt, |k, sc, l| {
            let mut chars = Vec::with_capacity(n);
            nth_string(classes, n, k, &mut chars);
            let implied = match &prev {
                Some(p) => p.get(k % plen),
                None => false,
            };
            if f(&chars, sc, l, implied) {
                cur.set(k);
            }
        });
        prev = Some(cur);
    }
    total
}

fn run_classes<S: Subject>(agg: &Agg, wd: &Watchdog, classes: &[char], max_len: usize) -> u64 {
    run_lengths::<S>(agg, wd, "class-strings", classes, max_len, |chars, sc, l, implied| check_text::<S>(chars, sc, 3, l, implied))
}

fn run_shortbuf<S: Subject>(agg: &Agg, wd: &Watchdog, classes: &[char], max_len: usize) -> u64 {
    run_lengths::<S>(agg, wd, "shortbuf", classes, max_len, |chars, sc, l, implied| check_shortbuf::<S>(chars, sc, l, implied))
}

/// The character universe of the alphabet sweep.
fn sweep_chars() -> Vec<char> {
    let mut v: Vec<char> = (0u32..=0x17F).filter_map(char::from_u32).collect();
    // look-alikes and digits of other scripts, Kelvin sign, fullwidth forms, last scalar
    for u in [0x0660u32, 0x06F0, 0x0966, 0x212A, 0x2160, 0xFF10, 0xFF21, 0xFF41, 0xFF1D, 0x1D7CE, 0x10FFFF] {
        v.push(char::from_u32(u).unwrap());
    }
    v
}

fn fill_char<S: Subject>() -> char {
    match S::NAME {
        "base64" => 'Q',
        "base32hex" => 'A',
        _ => '5',
    }
}

/// Every ordered pair of sweep characters as the two leading characters of a
/// minimal well-formed shape, and every sweep character at every position of
/// one full group.
fn run_alphabet_sweep<S: Subject>(agg: &Agg, wd: &Watchdog) -> u64 {
    let x = sweep_chars();
    let m = x.len() as u64;
    let spec = S::spec();
    let pairs = m * m;
    run_indexed::<S>(agg, wd, "alphabet-pairs", pairs, |k, sc, l| {
        let (c1, c2) = (x[(k / m) as usize], x[(k % m) as usize]);
        let mut chars = vec![c1, c2];
        if spec.padded {
            // two symbols carry one octet: pad to a full group
            while chars.len() % spec.group != 0 {
                chars.push('=');
            }
        }
        check_text::<S>(&chars, sc, 1, l, false);
    });
    let g = spec.group as u64;
    let pos = m * g;
    run_indexed::<S>(agg, wd, "alphabet-positions", pos, |k, sc, l| {
        let (ci, p) = ((k / g) as usize, (k % g) as usize);
        let mut chars = vec![fill_char::<S>(); spec.group];
        chars[p] = x[ci];
        check_text::<S>(&chars, sc, 1, l, false);
    });
    pairs + pos
}

const OCT_ALPHA: [u8; 5] = [0x00, 0x01, 0x7F, 0x80, 0xFF];

/// Patterns 0..3 are used for every length; 3..8 additionally at the lengths
/// around multiples of 64 (where an encoder working in blocks would switch).
const N_PATTERNS_ALL: u64 = 3;
const N_PATTERNS_BOUNDARY: u64 = 8;
const ENC_MAX_LEN: u64 = 200;
const BOUNDARY_LENS: [usize; 12] = [63, 64, 65, 127, 128, 129, 191, 192, 193, 255, 256, 257];

fn fill_pattern(p: usize, len: usize) -> Vec<u8> {
    (0..len)
        .map(|i| match p {
            0 => 0x00,
            1 => 0xFF,
            2 => (i as u8).wrapping_mul(37).wrapping_add(0x5B),
            3 => 0x80,
            4 => 0x7F,
            5 => if i % 2 == 0 { 0x00 } else { 0xFF },
            6 => 0xFFu8.wrapping_sub(i as u8),
            _ => ((i * i) as u8).wrapping_add(7) ^ ((i >> 3) as u8),
        })
        .collect()
}

fn run_encode<S: Subject>(agg: &Agg, wd: &Watchdog, alpha_len: usize, full_len: usize) -> u64 {
    let mut total = 0;
    // all octet strings over the 5-value alphabet
    for n in 0..=alpha_len {
        let cnt = pow(OCT_ALPHA.len(), n);
        total += cnt;
        run_indexed::<S>(agg, wd, "octets-5-values", cnt, |k, sc, l| {
            let mut d = Vec::with_capacity(n);
            nth_string(&OCT_ALPHA, n, k, &mut d);
            check_octets::<S>(&d, sc, l);
        });
    }
    // ALL octet strings of length 1..=full_len
    for n in 1..=full_len {
        let cnt = 1u64 << (8 * n);
        total += cnt;
        run_indexed::<S>(agg, wd, "octets-all-values", cnt, |k, sc, l| {
            let d: Vec<u8> = (0..n).map(|i| (k >> (8 * (n - 1 - i))) as u8).collect();
            l.track_distinct = n <= 2;
            check_octets::<S>(&d, sc, l);
        });
    }
    // every length 0..=200, three fill patterns
    let cnt = (ENC_MAX_LEN + 1) * N_PATTERNS_ALL;
    total += cnt;
    run_indexed_small::<S>(agg, wd, "octets-fill-patterns", cnt, |k, sc, l| {
        let d = fill_pattern((k % N_PATTERNS_ALL) as usize, (k / N_PATTERNS_ALL) as usize);
        check_octets::<S>(&d, sc, l);
    });
    // lengths around multiples of 64, eight fill patterns
    let cnt = BOUNDARY_LENS.len() as u64 * N_PATTERNS_BOUNDARY;
    total += cnt;
    run_indexed_small::<S>(agg, wd, "octets-block-boundaries", cnt, |k, sc, l| {
        let d = fill_pattern((k % N_PATTERNS_BOUNDARY) as usize, BOUNDARY_LENS[(k / N_PATTERNS_BOUNDARY) as usize]);
        check_octets::<S>(&d, sc, l);
    });
    total
}

// ===================================================================
// Human-readable single case (samples, replay)
// ===================================================================

fn describe_text<S: Subject>(text: &str) -> Value {
    let chars: Vec<char> = text.chars().collect();
    let mut ro = Vec::new();
    let oracle = match S::spec().decode(&chars, &mut ro) {
        Ok(nc) => format!("well-formed, octets {}{}", hex(&ro), if nc { ", non-zero trailing bits (MAY be rejected)" } else { "" }),
        Err(w) => format!("not well-formed: {}", w.s()),
    };
    let dec = match guard(|| S::decode_vec(text)) {
        Ok(r) => format!("{:?}", r.map(|v| hex(&v))),
        Err(m) => format!("PANIC {m}"),
    };
    let mut log = Vec::new();
    let pr = guard(|| S::push_log(&chars, &mut log));
    if let Err(m) = pr {
        log.push(format!("PANIC {m}"));
    }
    let mut out = Vec::new();
    let conv = match guard(|| S::conv_direct(&chars, chars.len(), chars.len(), &mut out)) {
        Ok(Ok(())) => format!("Ok({})", hex(&out)),
        Ok(Err(e)) => format!("Err({e})"),
        Err(m) => format!("PANIC {m}"),
    };
    json!({"codec": S::NAME, "text": text, "oracle": oracle, "decode": dec, "push_char_by_char": log, "symbol_converter_one_token": conv})
}

fn replay_case<S: Subject>(case: &Value, l: &mut Local) {
    let mut sc = Scratch::new();
    match case["section"].as_str().unwrap_or("text") {
        "octets" => {
            let d = unhex(case["octets"].as_str().unwrap_or(""));
            println!("octets {} -> display {:?}, reference {:?}", hex(&d), guard(|| S::display(&d)), S::spec().encode(&d));
            check_octets::<S>(&d, &mut sc, l);
        }
        "escaped" => {
            let text = case["text"].as_str().unwrap_or("");
            let chars: Vec<char> = text.chars().collect();
            println!("escapes parse as {:?}", parse_escapes(&chars));
            println!("convert_token -> {:?}", guard(|| S::conv_token(text).map(|v| hex(&v)).map_err(|e| e.to_string())));
            check_escaped::<S>(&chars, &mut sc, l);
        }
        "shortbuf" => {
            let text = case["text"].as_str().unwrap_or("");
            let chars: Vec<char> = text.chars().collect();
            println!("{}", serde_json::to_string_pretty(&describe_text::<S>(text)).unwrap());
            println!("decode::<Array<2>> -> {:?}", guard(|| S::decode_arr2(text)));
            check_shortbuf::<S>(&chars, &mut sc, l, false);
        }
        _ => {
            let text = case["text"].as_str().unwrap_or("");
            let chars: Vec<char> = text.chars().collect();
            println!("{}", serde_json::to_string_pretty(&describe_text::<S>(text)).unwrap());
            check_text::<S>(&chars, &mut sc, 3, l, false);
        }
    }
}

fn report(ctx: &Ctx, l: &Local) {
    for (sig, v) in &l.viol {
        ctx.violation(sig, &v.what, v.replay.clone());
        for _ in 1..v.n {
            ctx.violation(sig, &v.what, Value::Null);
        }
    }
}

fn codec_json(l: &Local) -> Value {
    let mut counters = serde_json::Map::new();
    for (i, n) in COUNTER_NAMES.iter().enumerate() {
        counters.insert((*n).into(), json!(l.c[i]));
    }
    let mut mat = serde_json::Map::new();
    let mut outcomes = 0;
    for (i, r) in REF_ROWS.iter().enumerate() {
        let mut row = serde_json::Map::new();
        for (j, c) in LIB_COLS.iter().enumerate() {
            if l.matrix[i][j] != 0 {
                row.insert((*c).into(), json!(l.matrix[i][j]));
                outcomes += 1;
            }
        }
        mat.insert((*r).into(), Value::Object(row));
    }
    json!({
        "counters": counters,
        "reference_verdict_x_decode_outcome": mat,
        "distinct_verdict_outcome_pairs": outcomes,
        "smallest_text_where_finalize_is_Ok_although_a_push_failed": l.not_sticky.as_ref().map(|x| x.1.clone()),
        "smallest_text_where_a_converter_continued_after_its_error_panics": l.conv_cont_panic.as_ref().map(|x| x.1.clone()),
        "violation_instances": l.viol.iter().map(|(k, v)| (k.clone(), json!(v.n))).collect::<serde_json::Map<_, _>>(),
    })
}

fn main() {
    let ctx = Ctx::new("C18", "exploration");
    let stats = Arc::new(Stats::new());

    if let Some(path) = ctx.replay.clone() {
        let body: Value = match std::fs::read_to_string(&path).ok().and_then(|t| serde_json::from_str(&t).ok()) {
            Some(v) => v,
            None => {
                eprintln!("MACHINERY: cannot read replay file {path}");
                std::process::exit(2);
            }
        };
        let case = body["case"].clone();
        let name = case["codec"].as_str().unwrap_or("").to_string();
        let mut l = Local::new();
        if case["section"].as_str() == Some("front-end") {
            let fname = case["field"].as_str().unwrap_or("");
            let Some(f) = FIELDS.iter().find(|f| f.name == fname) else {
                eprintln!("MACHINERY: unknown field {fname:?} in replay file {path}");
                std::process::exit(2);
            };
            let chars: Vec<char> = case["text"].as_str().unwrap_or("").chars().collect();
            let toks = f.tokens(&chars, chars.len(), chars.len());
            let mut ro = Vec::new();
            let rv = codec_spec(f.codec).decode(&chars, &mut ro);
            println!("reference: {:?} octets {}", rv.map_err(|w| w.s()), hex(&ro));
            for (pos, layout) in FE_VARIANTS_ALL {
                let zone = fe_zone_text(f, ro.len(), &toks, pos, layout);
                println!("zone file {:?}\n  -> {:?}", zone, guard(|| fe_read_zonefile(&zone, pos)).map(|r| (r.rec.map(|(t, d)| (t, hex(&d))), r.around)));
            }
            check_front_text(f, &chars, 3, &FE_VARIANTS_ALL, &mut l);
        } else if let Some(form) = case["form"].as_str() {
            let octets = case["section"].as_str() == Some("nsec3-octets");
            let chars: Vec<char> = case["text"].as_str().unwrap_or("").chars().collect();
            let data = unhex(case["octets"].as_str().unwrap_or(""));
            match (form, octets) {
                ("Nsec3Salt", false) => check_form_text::<FSalt>(&chars, &mut l),
                ("Nsec3Salt", true) => check_form_octets::<FSalt>(&data, &mut l),
                ("OwnerHash", false) => check_form_text::<FHash>(&chars, &mut l),
                ("OwnerHash", true) => check_form_octets::<FHash>(&data, &mut l),
                _ => {
                    eprintln!("MACHINERY: unknown form {form:?} in replay file {path}");
                    std::process::exit(2);
                }
            }
        } else {
            match name.as_str() {
                "base64" => replay_case::<S64>(&case, &mut l),
                "base32hex" => replay_case::<S32>(&case, &mut l),
                "base16" => replay_case::<S16>(&case, &mut l),
                other => {
                    eprintln!("MACHINERY: unknown codec {other:?} in replay file {path}");
                    std::process::exit(2);
                }
            }
        }
        for (sig, v) in &l.viol {
            println!("replay: {} x{}: {}", sig, v.n, v.what);
        }
        report(&ctx, &l);
        let evals: u64 = EVAL_COUNTERS.iter().map(|&i| l.c[i]).sum();
        ctx.finish(
            json!({"evaluations": evals.max(1), "distinct_nontrivial": 1, "rule": "single replayed case", "samples": [case], "exhaustive": true, "replay": codec_json(&l)}),
            &["replay of one recorded case"],
        );
    }

    let wd = Watchdog::start(ctx.clone(), Duration::from_secs(120), |d| {
        format!("C18|{}|hang|{}", d["codec"].as_str().unwrap_or("?"), d["what"].as_str().unwrap_or("?"))
    });

    // ---- bounds -----------------------------------------------------
    let quick = ctx.quick();
    // character classes: zero-bits symbol, two non-zero symbols (one is the
    // last of the alphabet), '=', illegal ASCII, non-ASCII, space / first
    // character outside the alphabet
    let cls64: Vec<char> = vec!['A', 'B', '/', '=', '!', 'é', ' '];
    let cls32: Vec<char> = vec!['0', '1', 'V', 'v', 'W', '=', 'é'];
    let cls16: Vec<char> = vec!['0', '9', 'f', 'F', 'g', '=', 'é', '０'];
    let (len64, len32, len16) = if quick { (8, 9, 6) } else { (10, 10, 8) };
    // a second, narrower base32hex alphabet carried further (two wraps of the 8-group are impossible at 7 classes)
    let cls32b: Vec<char> = vec!['0', 'V', '=', 'W'];
    let len32b = if quick { 11 } else { 13 };
    let (enc_alpha_len, enc_full_len) = if quick { (5, 2) } else { (7, 3) };
    let sb64: Vec<char> = vec!['A', '/', '=', '!'];
    let sb32: Vec<char> = vec!['0', 'V', 'W'];
    let sb16: Vec<char> = vec!['0', 'F', 'g'];
    let sblen = if quick { 9 } else { 11 };

    let a64 = Agg { inner: Mutex::new(Local::new()), stats: stats.clone() };
    let a32 = Agg { inner: Mutex::new(Local::new()), stats: stats.clone() };
    let a16 = Agg { inner: Mutex::new(Local::new()), stats: stats.clone() };

    // ---- fixed, written-out sample cases (deterministic) --------------
    for t in ["", "AA==", "AB==", "AAA=", "AA=A", "AA=AA", "A===", "!AAAA", "AAAA=", "AA==AAAA", "Zm9vYmE="] {
        stats.sample(64, || describe_text::<S64>(t));
    }
    for t in ["", "CO", "co", "01", "CPNMUOJ1E8", "C", "CO======", "CPW"] {
        stats.sample(64, || describe_text::<S32>(t));
    }
    for t in ["", "F00f", "F", "0g", "０0"] {
        stats.sample(64, || describe_text::<S16>(t));
    }

    // ---- enumeration --------------------------------------------------
    let mut space = serde_json::Map::new();
    let n = run_classes::<S64>(&a64, &wd, &cls64, len64);
    space.insert("base64_class_strings".into(), json!({"classes": cls64.iter().collect::<String>(), "max_len": len64, "strings": n}));
    let n = run_classes::<S32>(&a32, &wd, &cls32, len32);
    space.insert("base32hex_class_strings".into(), json!({"classes": cls32.iter().collect::<String>(), "max_len": len32, "strings": n}));
    let n = run_classes::<S32>(&a32, &wd, &cls32b, len32b);
    space.insert("base32hex_class_strings_narrow".into(), json!({"classes": cls32b.iter().collect::<String>(), "max_len": len32b, "strings": n}));
    let n = run_classes::<S16>(&a16, &wd, &cls16, len16);
    space.insert("base16_class_strings".into(), json!({"classes": cls16.iter().collect::<String>(), "max_len": len16, "strings": n}));

    let n64 = run_alphabet_sweep::<S64>(&a64, &wd);
    let n32 = run_alphabet_sweep::<S32>(&a32, &wd);
    let n16 = run_alphabet_sweep::<S16>(&a16, &wd);
    space.insert("alphabet_sweep".into(), json!({"chars": sweep_chars().len(), "base64_texts": n64, "base32hex_texts": n32, "base16_texts": n16}));

    let e64 = run_encode::<S64>(&a64, &wd, enc_alpha_len, enc_full_len);
    let e32 = run_encode::<S32>(&a32, &wd, enc_alpha_len, enc_full_len);
    let e16 = run_encode::<S16>(&a16, &wd, enc_alpha_len, enc_full_len);
    space.insert("encode".into(), json!({"five_value_alphabet_max_len": enc_alpha_len, "all_octet_strings_max_len": enc_full_len, "fill_pattern_lengths": "every length 0..=200 x 3 patterns", "block_boundary_lengths": BOUNDARY_LENS, "block_boundary_patterns": N_PATTERNS_BOUNDARY, "token_splits_of_encodings": "all <=3-token splits up to 80 characters, all <=2-token splits beyond", "per_codec_octet_strings": [e64, e32, e16]}));

    let s64 = run_shortbuf::<S64>(&a64, &wd, &sb64, sblen);
    let s32 = run_shortbuf::<S32>(&a32, &wd, &sb32, sblen);
    let s16 = run_shortbuf::<S16>(&a16, &wd, &sb16, sblen);
    space.insert("shortbuf_extension".into(), json!({"buffer": "octseq::Array<2>", "max_len": sblen, "classes": [sb64.iter().collect::<String>(), sb32.iter().collect::<String>(), sb16.iter().collect::<String>()], "texts": [s64, s32, s16]}));

    // escapes on the scanner routes: backslash, an alphabet symbol that is a
    // letter, digits that form \DDD escapes of alphabet symbols (\065 = 'A',
    // \048 = '0'), '=' / a symbol outside the alphabet
    let esc64: Vec<char> = vec!['\\', 'A', '0', '6', '5', '=', '!'];
    let esc32: Vec<char> = vec!['\\', '0', '4', '8', 'V', 'W'];
    let esc16: Vec<char> = vec!['\\', '0', '4', '8', 'F', 'g'];
    let esclen = if quick { 7 } else { 9 };
    let x64 = run_escaped::<S64>(&a64, &wd, &esc64, esclen);
    let x32 = run_escaped::<S32>(&a32, &wd, &esc32, esclen);
    let x16 = run_escaped::<S16>(&a16, &wd, &esc16, esclen);
    space.insert("escaped_scanner_routes".into(), json!({"classes": [esc64.iter().collect::<String>(), esc32.iter().collect::<String>(), esc16.iter().collect::<String>()], "max_len": esclen, "strings_enumerated": [x64, x32, x16], "checked": "those containing a backslash (counter escaped_texts), plus every alphabet-sweep text with a backslash"}));

    // NSEC3 salt / owner hash text forms
    let an3 = Agg { inner: Mutex::new(Local::new()), stats: stats.clone() };
    let cls_salt: Vec<char> = vec!['-', '0', 'F', 'f', 'g', '='];
    let cls_hash: Vec<char> = vec!['-', '0', '1', 'V', 'v', 'W', '='];
    let n3len = if quick { 6 } else { 8 };
    let n3oct = 300;
    let (ts, os) = run_forms::<FSalt>(&an3, &cls_salt, n3len, n3oct);
    let (th, oh) = run_forms::<FHash>(&an3, &cls_hash, n3len, n3oct);
    space.insert("nsec3_text_forms".into(), json!({"entry_points": "Nsec3Salt / OwnerHash: FromStr, scan (IterScanner), serde Deserialize; from_octets, Display, serde Serialize", "salt_classes": cls_salt.iter().collect::<String>(), "hash_classes": cls_hash.iter().collect::<String>(), "max_len": n3len, "class_texts": [ts, th], "octet_lengths": format!("every length 0..={n3oct} x 3 fill patterns (limit is 255)"), "octet_strings": [os, oh]}));

    // the front ends: fields of complete records read by the real readers
    let afe = Agg { inner: Mutex::new(Local::new()), stats: stats.clone() };
    let fe_cov = run_front_ends(&afe, &wd, quick);
    space.insert("front_ends".into(), fe_cov);

    // ---- report -------------------------------------------------------
    let lfe = afe.inner.into_inner().unwrap();
    let ln3 = an3.inner.into_inner().unwrap();
    let l64 = a64.inner.into_inner().unwrap();
    let l32 = a32.inner.into_inner().unwrap();
    let l16 = a16.inner.into_inner().unwrap();
    let mut evals = 0u64;
    for l in [&l64, &l32, &l16, &ln3, &lfe] {
        report(&ctx, l);
        evals += EVAL_COUNTERS.iter().map(|&i| l.c[i]).sum::<u64>();
    }
    if lfe.c[C_FE_ACC] == 0 || lfe.c[C_FE_REJ] == 0 || lfe.c[C_FE_ECH] == 0 || lfe.c[C_FE_ITER] == 0 || lfe.c[C_FE_NEIGHBOUR] == 0 {
        eprintln!("MACHINERY: front ends: accept / reject / a reader never reached");
        std::process::exit(2);
    }
    if ln3.c[C_N3_LONG] == 0 || ln3.c[C_N3_ACC] == 0 || ln3.c[C_N3_REJ] == 0 {
        eprintln!("MACHINERY: nsec3 text forms: accept / reject / over-length case never reached");
        std::process::exit(2);
    }
    for (name, l) in [("base64", &l64), ("base32hex", &l32), ("base16", &l16)] {
        if l.c[C_ESC_ACC] == 0 || l.c[C_ESC_REJ] == 0 || l.c[C_ESC_MALFORMED] == 0 || l.c[C_SERDE_DE_ACC] == 0 {
            eprintln!("MACHINERY: {name}: escaped-text accept / reject / malformed-escape or serde accept never reached");
            std::process::exit(2);
        }
    }
    // vacuity guards: the interesting verdicts must all have been reached
    for (name, l) in [("base64", &l64), ("base32hex", &l32), ("base16", &l16)] {
        let need: &[usize] = if name == "base64" { &[0, 1, 2, 3, 4, 5] } else if name == "base32hex" { &[0, 1, 2, 4] } else { &[0, 2, 4] };
        for &r in need {
            if l.c[C_REF0 + r] == 0 {
                eprintln!("MACHINERY: {name}: reference verdict {} never reached - enumeration is vacuous", REF_ROWS[r]);
                std::process::exit(2);
            }
        }
    }
    ctx.finish(
        json!({
            "evaluations": evals,
            "distinct_nontrivial": stats.distinct_count(),
            "rule": "distinct (codec,text) whose reference verdict is 'well-formed with >= 1 octet' plus distinct non-empty (codec,octet string) of the encode space plus distinct (record field, well-formed canonical non-empty text) of the front-end part (the all-3-octet-strings sweep of the thorough tier is left out of this set to bound memory; it is counted in octet_strings_encoded); hashed with FNV-1a",
            "exhaustive": true,
            "evaluations_are": "calls of a subject entry point: decode, one Decoder push..finalize sequence, one SymbolConverter run (direct / IterScanner::convert_entry / convert_token), one encode function call, one zone file / record data / ech value read by a front end",
            "space": space,
            "base64": codec_json(&l64),
            "base32hex": codec_json(&l32),
            "base16": codec_json(&l16),
            "nsec3": codec_json(&ln3),
            "front_ends": codec_json(&lfe),
            "samples": stats.samples(),
        }),
        &[
            "well-formedness per module documentation: base64 padded (RFC 4648 s.4); base32hex unpadded and case-insensitive (module: 'The decoder does not support padding', display_hex emits none); base16 case-insensitive",
            "non-zero trailing bits may be accepted or rejected (RFC 4648 s.3.5); the observed behaviour is recorded under obs_noncanonical_*",
            "the standard (non-hex) base32 alphabet named in the property is not implemented by src/utils/base32.rs, so nothing is run for it",
            "Decoder::push is continued after errors because its documentation says this is okay; a SymbolConverter is NOT continued after an error for the verdict (a scanner stops at the first error); what happens if it is continued is recorded as an observation only",
            "all three Decoder::push docs promise that errors are kept after the first failed push: a later push returning Ok, or finalize returning Ok, after a failed push is a violation (error-not-kept)",
            "character classes stand for their class; the alphabet sweep covers every character U+0000..U+017F (+11 look-alikes) in the first two positions and at every position of one full group",
            "bounded-buffer (Array<2>) runs are an extension beyond the property's input quantifier; they share the root cause of the known push panic",
            "escaped symbols (\\X, \\DDD) on the scanner routes: a malformed escape and a text whose escapes resolve to non-well-formed codec text must be rejected; a well-formed text written with escapes MAY be refused (neither RFC 4648 nor the modules define escapes) but if accepted must give the reference octets, and library-parsed and harness-parsed symbol routes must agree",
            "NSEC3 text forms: a text is valid iff it is the codec's well-formed text of at most 255 octets (salt: or exactly \"-\"); the empty string (not a possible token) may be taken either way by FromStr/Deserialize",
            "front ends: the expected record is written out as wire-format RDATA from the RFC layouts with the reference decoding in the field; the empty text in a field may be refused (whether a key or digest may be empty is the record type's rule) except RFC 3597 '\\# 0' and the NSEC3 salt '-'; a '\\# <len>' line for malformed text declares the number of whole octets the symbols would carry; ZoneRecordData::scan over an IterScanner is not used for the RFC 3597 form (UnknownRecordData::scan is) nor for SvcParams (IterScanner does not implement scan_svcb_octets)",
            "serde helpers are exercised through serde_json only (human-readable side: a JSON string); the binary (non-human-readable) side is raw octets and involves no codec",
            "not covered because it is not codec behaviour: Debug/Display of the error types, accessors/Eq/Ord/Hash/compose/parse of Nsec3/Nsec3param/Nsec3Salt/OwnerHash, ZonefileFmt, the integer/name/charstr scanning functions of base/scan.rs; octets types SmallVec/heapless are not reachable without adding crates to the harness (Vec, Bytes and Array cover the growable, shared and fixed builders)",
        ],
    );
}
