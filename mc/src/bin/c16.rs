//! C16 — servers answer each request once, correctly framed, within size.
//!
//! Part (a): complete product (transport x request-EDNS x configured limit x
//! response-size boundary x response-OPT x question length x section layout)
//! through the real `MandatoryMiddlewareSvc<EdnsMiddlewareSvc<
//! CookiesMiddlewareSvc<service_fn>>>`, called directly.
//!
//! Part (b): the real `DgramServer` / `StreamServer` (+ its private
//! `Connection`) over mock `AsyncDgramSock` / `AsyncAccept` + in-memory
//! stream on a tokio current-thread paused-clock runtime; every
//! environment-answer / request-kind / service-behaviour sequence with at
//! most k non-default answers (`mc::envx::explore`).
//!
//! Part (c): pipeline-depth sweep over one stream connection (default
//! configuration, default environment): n = 1..16 (quick) / 1..64 (thorough)
//! queries written in one segment.
//!
//! Part (d): n connections whose set-up future (`AsyncAccept::Future`)
//! resolves to Err, then a fresh well-behaved connection that must be
//! answered, for small configured connection limits and the default 100.
//!
//! Part (e): DgramServer::reconfigure lowers/raises the response size limit
//! between requests; product of (l1, l2, service size, advertised size).
//!
//! Part (f): three pipelined queries; a write fault (stall longer / shorter
//! than the write timeout followed by the reader resuming, stall for ever,
//! write error) after every octet position of the response stream.
//!
//! Part (d) also: `limit` connections are open when another one arrives,
//! accept_connections_at_max on/off, then the open ones close or
//! StreamServer::reconfigure raises the limit; somebody must be served.
//! Part (g): two pipelined queries each answered with n responses inside a
//! BeginTransaction/EndTransaction bracket, n = 1..24 / 1..64.
//! Part (h): service feedback (Begin/EndTransaction, Reconfigure) as a
//! feedback-only item or attached to any response of a 1- or 3-response
//! stream x 1..3 pipelined queries x max_queued_responses {1,2,default} x a
//! client that reads promptly / stalls after f frames + x octets; and the
//! same behaviours through DgramServer. Exactly-once, in order, whole frames.
//! Part (i): 1..=3 connections in sequence whose set-up future resolves at
//! once / after 3 turns / after a later event / never / to Err (at once or
//! after the event) x limit x reconfigure; every established connection is
//! answered whatever the other set-ups do, commands still take effect.
//! Part (a) also covers every deciding branch of the cookie middleware
//! (client/valid/expired/too new/wrongly hashed/non-standard/malformed
//! cookie x deny list x QDCOUNT=0 prefetch) and a limit-aware service
//! (set_push_limit(hint - num_reserved_bytes()), TC set by the service).
//!
//! Tiers: (a) quick = boundary offsets {-18,-17,-12,-11,-10,-1,0,+1} around
//! {512,513,1232,4096,65535}, thorough = every offset -24..=+2 and six more
//! advertised sizes; (b) quick <= 3 deviations, thorough <= 4.

use domain::base::iana::{Class, Rcode};
use domain::base::{Message, Name, Rtype, UnknownRecordData};
use domain::net::server::buf::VecBufSource;
use domain::net::server::dgram::{self, DgramServer};
use domain::net::server::message::{
    NonUdpTransportContext, Request, TransportSpecificContext, UdpTransportContext,
};
use domain::net::server::middleware::cookies::CookiesMiddlewareSvc;
use domain::net::server::middleware::edns::EdnsMiddlewareSvc;
use domain::net::server::middleware::mandatory::MandatoryMiddlewareSvc;
use domain::net::server::service::{CallResult, Service, ServiceError, ServiceFeedback, ServiceResult};
use domain::net::server::sock::{AsyncAccept, AsyncDgramSock};
use domain::net::server::stream::{self, StreamServer};
use domain::base::iana::OptRcode;
use domain::net::server::util::{mk_builder_for_target, mk_error_response, service_fn};
use futures_util::stream::Stream;
use futures_util::{FutureExt, StreamExt};
use mc::envx::{explore, Chooser};
use mc::wire::{read_message, RawMessage};
use mc::*;
use rayon::prelude::*;
use serde_json::{json, Value};
use std::cell::RefCell;
use std::collections::{BTreeMap, BTreeSet, VecDeque};
use std::future::Future;
use std::io;
use std::net::SocketAddr;
use std::pin::Pin;
use std::sync::atomic::{AtomicBool, AtomicU64, Ordering};
use std::sync::{Arc, Mutex};
use std::task::{Context, Poll, Waker};
use std::time::Duration;
use tokio::io::{AsyncRead, AsyncWrite, ReadBuf};

// ---------------------------------------------------------------------------
// panic bookkeeping: tokio catches panics of spawned tasks, so `guard` alone
// would not see them. A second hook records every panic of this thread.
// ---------------------------------------------------------------------------

thread_local! {
    static TASK_PANICS: RefCell<Vec<String>> = const { RefCell::new(Vec::new()) };
}

fn install_task_panic_hook() {
    let prev = std::panic::take_hook();
    std::panic::set_hook(Box::new(move |info| {
        let msg = if let Some(s) = info.payload().downcast_ref::<&str>() {
            s.to_string()
        } else if let Some(s) = info.payload().downcast_ref::<String>() {
            s.clone()
        } else {
            "<non-string panic>".to_string()
        };
        let loc = info
            .location()
            .map(|l| format!("{}:{}", l.file(), l.line()))
            .unwrap_or_default();
        TASK_PANICS.with(|p| p.borrow_mut().push(format!("{msg} @ {loc}")));
        prev(info);
    }));
}

fn take_task_panics() -> Vec<String> {
    TASK_PANICS.with(|p| std::mem::take(&mut *p.borrow_mut()))
}

// ---------------------------------------------------------------------------
// hand-made wire helpers (requests are composed without the library)
// ---------------------------------------------------------------------------

fn hdr(id: u16, flags: u16, counts: [u16; 4]) -> Vec<u8> {
    let mut v = Vec::with_capacity(12);
    v.extend_from_slice(&id.to_be_bytes());
    v.extend_from_slice(&flags.to_be_bytes());
    for c in counts {
        v.extend_from_slice(&c.to_be_bytes());
    }
    v
}

fn name_wire(labels: &[&[u8]]) -> Vec<u8> {
    let mut v = Vec::new();
    for l in labels {
        v.push(l.len() as u8);
        v.extend_from_slice(l);
    }
    v.push(0);
    v
}

/// A 255-octet name (3 x 63 + 61).
fn long_name() -> Vec<u8> {
    let a = [b'a'; 63];
    let b = [b'b'; 63];
    let c = [b'c'; 63];
    let d = [b'd'; 61];
    name_wire(&[&a, &b, &c, &d])
}

fn question(name: &[u8], qtype: u16) -> Vec<u8> {
    let mut v = name.to_vec();
    v.extend_from_slice(&qtype.to_be_bytes());
    v.extend_from_slice(&1u16.to_be_bytes());
    v
}

fn opt_rr(size: u16, version: u8, options: &[u8]) -> Vec<u8> {
    let mut v = vec![0u8, 0, 41];
    v.extend_from_slice(&size.to_be_bytes());
    v.push(0); // extended rcode
    v.push(version);
    v.extend_from_slice(&[0, 0]); // flags
    v.extend_from_slice(&(options.len() as u16).to_be_bytes());
    v.extend_from_slice(options);
    v
}

const A_CLIENT: &str = "192.0.2.1:5300";

/// The COOKIE option (code 10) of a request from A_CLIENT. The server
/// cookie is made the way the server makes it (RFC 9018) - this only crafts
/// the input, it is not part of the oracle.
fn cookie_option(kind: EdnsReq) -> Vec<u8> {
    use domain::base::opt::cookie::{ClientCookie, StandardServerCookie};
    use domain::base::Serial;
    let client = [1u8, 2, 3, 4, 5, 6, 7, 8];
    let ip: std::net::IpAddr = A_CLIENT.parse::<SocketAddr>().unwrap().ip();
    let now = Serial::now().into_int();
    let ts = match kind {
        EdnsReq::CookieExpired => now.wrapping_sub(7200),
        EdnsReq::CookieFuture => now.wrapping_add(3600),
        _ => now,
    };
    let sc = StandardServerCookie::calculate(ClientCookie::from_octets(client), Serial::from(ts), ip, &COOKIE_SECRET);
    let sc: domain::base::opt::cookie::ServerCookie = sc.into();
    let mut server: Vec<u8> = AsRef::<[u8]>::as_ref(&sc).to_vec();
    match kind {
        EdnsReq::CookieBadHash => server[15] ^= 0x55,
        EdnsReq::CookieShortServer => server.truncate(8),
        _ => {}
    }
    let mut v = vec![0, 10, 0, (8 + server.len()) as u8];
    v.extend_from_slice(&client);
    v.extend_from_slice(&server);
    v
}

/// A plain `ns.example. 60 IN A 192.0.2.53` record.
fn a_rr() -> Vec<u8> {
    let mut v = name_wire(&[b"ns", b"example"]);
    v.extend_from_slice(&[0, 1, 0, 1, 0, 0, 0, 60, 0, 4, 192, 0, 2, 53]);
    v
}

/// A TSIG-looking record (`key.example. 0 ANY TSIG hmac-sha256. ...`).
fn tsig_rr() -> Vec<u8> {
    let mut rd = name_wire(&[b"hmac-sha256"]);
    rd.extend_from_slice(&[0, 0, 0x65, 0x00, 0x00, 0x00]); // time signed
    rd.extend_from_slice(&[0x01, 0x2c]); // fudge
    rd.extend_from_slice(&[0, 32]);
    rd.extend_from_slice(&[0x5A; 32]); // mac
    rd.extend_from_slice(&[0xBE, 0xEF, 0, 0, 0, 0]); // original id, error, other len
    let mut v = name_wire(&[b"key", b"example"]);
    v.extend_from_slice(&[0, 250, 0, 255, 0, 0, 0, 0]);
    v.extend_from_slice(&(rd.len() as u16).to_be_bytes());
    v.extend_from_slice(&rd);
    v
}

const F_RD: u16 = 0x0100;
const F_QR: u16 = 0x8000;
const F_TC: u16 = 0x0200;

fn opt_records(m: &RawMessage) -> Vec<&mc::wire::RawRecord> {
    m.sections[2].iter().filter(|r| r.rtype == 41).collect()
}

type RecKey = (usize, Vec<Vec<u8>>, u16, u16, u32, Vec<u8>);

fn content_records(m: &RawMessage) -> Vec<RecKey> {
    let mut v = Vec::new();
    for s in 0..3 {
        for r in &m.sections[s] {
            if r.rtype != 41 {
                v.push((s, r.owner.clone(), r.rtype, r.class, r.ttl, r.rdata.clone()));
            }
        }
    }
    v
}

// ---------------------------------------------------------------------------
// the middleware stack
// ---------------------------------------------------------------------------

type Stack<S> = MandatoryMiddlewareSvc<
    Vec<u8>,
    EdnsMiddlewareSvc<Vec<u8>, CookiesMiddlewareSvc<Vec<u8>, S, ()>, ()>,
    (),
>;

const COOKIE_SECRET: [u8; 16] = [7u8; 16];

#[derive(Clone, Copy, Debug, Default)]
struct StackMode {
    /// `MandatoryMiddlewareSvc::relaxed` instead of `new`
    relaxed: bool,
    /// `CookiesMiddlewareSvc::enable(false)`
    cookies_disabled: bool,
    /// this client address is on the cookie middleware's deny list
    deny: Option<std::net::IpAddr>,
}

fn mk_stack_mode<S>(svc: S, mode: StackMode) -> Stack<S>
where
    S: Service<Vec<u8>, ()>,
    S::Future: Unpin,
{
    let mut cookies = CookiesMiddlewareSvc::new(svc, COOKIE_SECRET);
    if let Some(ip) = mode.deny {
        cookies = cookies.with_denied_ips(vec![ip]);
    }
    if mode.cookies_disabled {
        cookies = cookies.enable(false);
    }
    let edns = EdnsMiddlewareSvc::new(cookies);
    if mode.relaxed {
        MandatoryMiddlewareSvc::relaxed(edns)
    } else {
        MandatoryMiddlewareSvc::new(edns)
    }
}

fn mk_stack<S>(svc: S) -> Stack<S>
where
    S: Service<Vec<u8>, ()>,
    S::Future: Unpin,
{
    mk_stack_mode(svc, StackMode::default())
}

// ===========================================================================
// Part (a)
// ===========================================================================

#[derive(Clone, Copy, Debug, PartialEq, Eq)]
enum EdnsReq {
    Absent,
    Size(u16),
    Version1,
    TwoOpts,
    CookieClient,
    CookieMalformed,
    /// client cookie + server cookie the server itself would hand out now
    CookieValid,
    /// ... with a timestamp two hours in the past (expired)
    CookieExpired,
    /// ... with a timestamp one hour in the future (too new)
    CookieFuture,
    /// ... with a wrong hash
    CookieBadHash,
    /// client cookie + an 8-octet (non-standard) server cookie
    CookieShortServer,
    /// no OPT, but a plain A record in the additional section
    OtherA,
    /// no OPT, but a TSIG-looking record in the additional section
    OtherTsig,
    /// OPT (1232) followed by an A record
    OptThenA,
    /// an A record followed by OPT (1232)
    AThenOpt,
}

impl EdnsReq {
    fn label(&self) -> String {
        match self {
            EdnsReq::Absent => "absent".into(),
            EdnsReq::Size(s) => format!("size{s}"),
            EdnsReq::Version1 => "version1".into(),
            EdnsReq::TwoOpts => "two-opts".into(),
            EdnsReq::CookieClient => "cookie-client".into(),
            EdnsReq::CookieMalformed => "cookie-malformed".into(),
            EdnsReq::CookieValid => "cookie-valid-server".into(),
            EdnsReq::CookieExpired => "cookie-expired-server".into(),
            EdnsReq::CookieFuture => "cookie-future-server".into(),
            EdnsReq::CookieBadHash => "cookie-bad-hash".into(),
            EdnsReq::CookieShortServer => "cookie-8-octet-server".into(),
            EdnsReq::OtherA => "no-opt+additional-A".into(),
            EdnsReq::OtherTsig => "no-opt+additional-TSIG".into(),
            EdnsReq::OptThenA => "opt-then-A".into(),
            EdnsReq::AThenOpt => "A-then-opt".into(),
        }
    }
}

#[derive(Clone, Copy, Debug, PartialEq, Eq)]
enum Transport {
    Udp(Option<u16>),
    Tcp(bool), // idle timeout known?
}

#[derive(Clone, Copy, Debug, PartialEq, Eq)]
enum SizeSpec {
    Min,
    Abs(usize),
    /// the service answers `Ok(mk_error_response(request, SERVFAIL))`, i.e.
    /// an error response that always carries an OPT record
    MkError,
}

#[derive(Clone, Debug)]
struct ACase {
    transport: Transport,
    edns: EdnsReq,
    size: SizeSpec,
    resp_opt: u8, // 0 none, 1 small OPT, 2 OPT with 300 octets of padding
    qlong: bool,
    layout: u8, // 0 all records in answer, 1 spread over the three sections
    /// 1: the service's last builder operation is a push that fails (a record
    /// that cannot fit in 65535 octets) and is rolled back
    tail: u8,
    /// the client's address is on the cookie middleware's deny list
    deny: bool,
    /// QDCOUNT=0 (RFC 7873 5.4 server cookie prefetch when a COOKIE is there)
    prefetch: bool,
    /// the service honours the size hint: set_push_limit(hint - reserved),
    /// pushes until a push fails, then sets TC itself
    aware: bool,
}

impl ACase {
    fn to_json(&self) -> Value {
        let (t, limit) = match self.transport {
            Transport::Udp(l) => ("udp", json!(l)),
            Transport::Tcp(true) => ("tcp-idle", Value::Null),
            Transport::Tcp(false) => ("tcp", Value::Null),
        };
        let (ek, ev) = match self.edns {
            EdnsReq::Absent => ("absent", 0),
            EdnsReq::Size(s) => ("size", s),
            EdnsReq::Version1 => ("version1", 0),
            EdnsReq::TwoOpts => ("two-opts", 0),
            EdnsReq::CookieClient => ("cookie-client", 0),
            EdnsReq::CookieMalformed => ("cookie-malformed", 0),
            EdnsReq::CookieValid => ("cookie-valid", 0),
            EdnsReq::CookieExpired => ("cookie-expired", 0),
            EdnsReq::CookieFuture => ("cookie-future", 0),
            EdnsReq::CookieBadHash => ("cookie-bad-hash", 0),
            EdnsReq::CookieShortServer => ("cookie-short-server", 0),
            EdnsReq::OtherA => ("other-a", 0),
            EdnsReq::OtherTsig => ("other-tsig", 0),
            EdnsReq::OptThenA => ("opt-then-a", 0),
            EdnsReq::AThenOpt => ("a-then-opt", 0),
        };
        json!({
            "part": "a", "transport": t, "limit": limit, "edns": ek, "edns_size": ev,
            "size": match self.size { SizeSpec::Min => json!("min"), SizeSpec::Abs(n) => json!(n), SizeSpec::MkError => json!("mk-error") },
            "resp_opt": self.resp_opt, "qlong": self.qlong, "layout": self.layout, "tail": self.tail,
            "deny": self.deny, "prefetch": self.prefetch, "aware": self.aware,
        })
    }
    fn from_json(v: &Value) -> Option<ACase> {
        let transport = match v["transport"].as_str()? {
            "udp" => Transport::Udp(v["limit"].as_u64().map(|x| x as u16)),
            "tcp-idle" => Transport::Tcp(true),
            _ => Transport::Tcp(false),
        };
        let edns = match v["edns"].as_str()? {
            "absent" => EdnsReq::Absent,
            "size" => EdnsReq::Size(v["edns_size"].as_u64()? as u16),
            "version1" => EdnsReq::Version1,
            "two-opts" => EdnsReq::TwoOpts,
            "cookie-client" => EdnsReq::CookieClient,
            "cookie-valid" => EdnsReq::CookieValid,
            "cookie-expired" => EdnsReq::CookieExpired,
            "cookie-future" => EdnsReq::CookieFuture,
            "cookie-bad-hash" => EdnsReq::CookieBadHash,
            "cookie-short-server" => EdnsReq::CookieShortServer,
            "other-a" => EdnsReq::OtherA,
            "other-tsig" => EdnsReq::OtherTsig,
            "opt-then-a" => EdnsReq::OptThenA,
            "a-then-opt" => EdnsReq::AThenOpt,
            _ => EdnsReq::CookieMalformed,
        };
        let size = match v["size"].as_u64() {
            Some(n) => SizeSpec::Abs(n as usize),
            None if v["size"].as_str() == Some("mk-error") => SizeSpec::MkError,
            None => SizeSpec::Min,
        };
        Some(ACase {
            transport,
            edns,
            size,
            resp_opt: v["resp_opt"].as_u64()? as u8,
            qlong: v["qlong"].as_bool()?,
            layout: v["layout"].as_u64()? as u8,
            tail: v["tail"].as_u64().unwrap_or(0) as u8,
            deny: v["deny"].as_bool().unwrap_or(false),
            prefetch: v["prefetch"].as_bool().unwrap_or(false),
            aware: v["aware"].as_bool().unwrap_or(false),
        })
    }
    fn request(&self) -> Vec<u8> {
        let qn = if self.qlong {
            long_name()
        } else {
            name_wire(&[b"q", b"example"])
        };
        let q = question(&qn, 1);
        let mut ar: Vec<Vec<u8>> = Vec::new();
        match self.edns {
            EdnsReq::Absent => {}
            EdnsReq::Size(s) => ar.push(opt_rr(s, 0, &[])),
            EdnsReq::Version1 => ar.push(opt_rr(1232, 1, &[])),
            EdnsReq::TwoOpts => {
                ar.push(opt_rr(1232, 0, &[]));
                ar.push(opt_rr(4096, 0, &[]));
            }
            EdnsReq::CookieClient => {
                ar.push(opt_rr(1232, 0, &[0, 10, 0, 8, 1, 2, 3, 4, 5, 6, 7, 8]))
            }
            EdnsReq::CookieMalformed => ar.push(opt_rr(1232, 0, &[0, 10, 0, 5, 1, 2, 3, 4, 5])),
            EdnsReq::CookieValid | EdnsReq::CookieExpired | EdnsReq::CookieFuture | EdnsReq::CookieBadHash | EdnsReq::CookieShortServer => {
                ar.push(opt_rr(1232, 0, &cookie_option(self.edns)))
            }
            EdnsReq::OtherA => ar.push(a_rr()),
            EdnsReq::OtherTsig => ar.push(tsig_rr()),
            EdnsReq::OptThenA => {
                ar.push(opt_rr(1232, 0, &[]));
                ar.push(a_rr());
            }
            EdnsReq::AThenOpt => {
                ar.push(a_rr());
                ar.push(opt_rr(1232, 0, &[]));
            }
        }
        let mut m = hdr(0xBEEF, F_RD, [if self.prefetch { 0 } else { 1 }, 0, 0, ar.len() as u16]);
        if !self.prefetch {
            m.extend_from_slice(&q);
        }
        for r in ar {
            m.extend_from_slice(&r);
        }
        m
    }
}

#[derive(Clone)]
struct ASvcSpec {
    size: SizeSpec,
    resp_opt: u8,
    layout: u8,
    tail: u8,
    aware: bool,
    /// the limit-aware service stopped pushing because a push failed
    svc_dropped: Arc<AtomicBool>,
    out: Arc<Mutex<Option<Vec<u8>>>>,
    unconstructible: Arc<AtomicBool>,
}

/// Lengths of the RDATA of the records that fill exactly `r` octets, each
/// record costing 11 + rdlen (root owner). None if impossible.
fn fill_plan(mut r: usize) -> Option<Vec<usize>> {
    let mut v = Vec::new();
    if r == 0 {
        return Some(v);
    }
    if r < 11 {
        return None;
    }
    const CH: usize = 400;
    while r > 0 {
        let mut rd = (r - 11).min(CH);
        let left = r - 11 - rd;
        if left > 0 && left < 11 {
            rd -= 11 - left;
        }
        v.push(rd);
        r -= 11 + rd;
    }
    Some(v)
}

/// The service's last builder operation: a push that cannot fit and is
/// rolled back by the builder.
fn failed_push(add: &mut domain::base::message_builder::AdditionalBuilder<domain::base::StreamTarget<Vec<u8>>>) -> bool {
    let big = vec![0xEEu8; 65535];
    let d = UnknownRecordData::from_octets(Rtype::from_int(0xFF00), &big[..]).unwrap();
    add.push((Name::root_ref(), Class::IN, 60u32, d)).is_err()
}

fn a_handler(req: Request<Vec<u8>, ()>, spec: ASvcSpec) -> ServiceResult<Vec<u8>> {
    if spec.size == SizeSpec::MkError {
        let mut add = mk_error_response::<Vec<u8>, Vec<u8>>(req.message(), OptRcode::SERVFAIL);
        if spec.tail == 1 && !failed_push(&mut add) {
            spec.unconstructible.store(true, Ordering::SeqCst);
        }
        *spec.out.lock().unwrap() = Some(add.as_slice().to_vec());
        return Ok(CallResult::new(add));
    }
    let b = mk_builder_for_target::<Vec<u8>>();
    let mut ans = b.start_answer(req.message(), Rcode::NOERROR)?;
    let base = ans.as_slice().len();
    let pad: u16 = match spec.resp_opt {
        0 => 0,
        1 => 4,
        _ => 300,
    };
    let optlen = if spec.resp_opt == 0 { 0 } else { 11 + 4 + pad as usize };
    let min = base + optlen;
    let plan = match spec.size {
        SizeSpec::Min | SizeSpec::MkError => Vec::new(),
        SizeSpec::Abs(s) => {
            if s < min {
                spec.unconstructible.store(true, Ordering::SeqCst);
                Vec::new()
            } else {
                match fill_plan(s - min) {
                    Some(p) => p,
                    None => {
                        spec.unconstructible.store(true, Ordering::SeqCst);
                        Vec::new()
                    }
                }
            }
        }
    };
    let n = plan.len();
    let (n_an, n_ns) = if spec.layout == 0 {
        (n, 0)
    } else {
        (n.div_ceil(3), (n - n.div_ceil(3)).div_ceil(2))
    };
    let rt = Rtype::from_int(0xFF00);
    let blob = [0xA5u8; 512];
    // a limit-aware service: what the transport allows (512 for a client
    // without EDNS) minus what the middleware asked to keep free
    let mut full = false;
    if spec.aware {
        let max: usize = match req.transport_ctx() {
            TransportSpecificContext::Udp(u) => {
                if req.message().opt().is_some() {
                    u.max_response_size_hint().unwrap_or(512) as usize
                } else {
                    512
                }
            }
            TransportSpecificContext::NonUdp(_) => 65535,
        };
        let limit = max.saturating_sub(req.num_reserved_bytes() as usize);
        ans.set_push_limit(limit);
        if ans.push_limit() != Some(limit) {
            return Err(ServiceError::InternalError);
        }
    }
    // a push that fails ends the limit-aware service's response (it sets TC
    // below); for the plain service a failed push is an error
    macro_rules! put {
        ($b:expr, $len:expr) => {
            if !full {
                let d = UnknownRecordData::from_octets(rt, &blob[..$len]).unwrap();
                if let Err(e) = $b.push((Name::root_ref(), Class::IN, 60u32, d)) {
                    if spec.aware {
                        full = true;
                    } else {
                        return Err(e.into());
                    }
                }
            }
        };
    }
    let mut i = 0;
    while i < n_an {
        put!(ans, plan[i]);
        i += 1;
    }
    let mut auth = ans.authority();
    while i < n_an + n_ns {
        put!(auth, plan[i]);
        i += 1;
    }
    let mut add = auth.additional();
    while i < n {
        put!(add, plan[i]);
        i += 1;
    }
    if spec.resp_opt != 0 {
        let r = add.opt(|o| {
            o.set_udp_payload_size(1232);
            o.padding(pad)
        });
        if let Err(e) = r {
            if spec.aware {
                full = true;
            } else {
                return Err(e.into());
            }
        }
    }
    if full {
        add.header_mut().set_tc(true);
        spec.svc_dropped.store(true, Ordering::SeqCst);
    }
    if spec.tail == 1 && !failed_push(&mut add) {
        spec.unconstructible.store(true, Ordering::SeqCst);
    }
    *spec.out.lock().unwrap() = Some(add.as_slice().to_vec());
    Ok(CallResult::new(add))
}

struct AOut {
    req: Vec<u8>,
    svc_bytes: Option<Vec<u8>>,
    unconstructible: bool,
    /// Ok(Some(bytes)) response, Ok(None) feedback only, Err(service error)
    items: Vec<Result<Option<Vec<u8>>, String>>,
    /// `as_stream_slice()` (two-octet length + message) of every response
    stream_slices: Vec<Vec<u8>>,
    not_ready: bool,
    /// the limit-aware service dropped records itself (and set TC)
    svc_dropped: bool,
    /// `Stream::size_hint()` of the stack's stream before the first item
    size_hint: Option<(usize, Option<usize>)>,
}

fn run_a(c: &ACase) -> Result<AOut, String> {
    let req = c.request();
    let spec = ASvcSpec {
        size: c.size,
        resp_opt: c.resp_opt,
        layout: c.layout,
        tail: c.tail,
        aware: c.aware,
        svc_dropped: Arc::new(AtomicBool::new(false)),
        out: Arc::new(Mutex::new(None)),
        unconstructible: Arc::new(AtomicBool::new(false)),
    };
    let spec2 = spec.clone();
    let reqb = req.clone();
    let deny = c.deny;
    let transport = c.transport;
    let r = guard(move || {
        let svc = service_fn::<Vec<u8>, Vec<u8>, _, (), _>(a_handler, spec2);
        let client: SocketAddr = A_CLIENT.parse().unwrap();
        let stack = mk_stack_mode(svc, StackMode { deny: if deny { Some(client.ip()) } else { None }, ..Default::default() });
        let msg = Message::from_octets(reqb).map_err(|e| format!("request rejected: {e}"))?;
        let tctx: TransportSpecificContext = match transport {
            Transport::Udp(l) => UdpTransportContext::new(l).into(),
            Transport::Tcp(idle) => NonUdpTransportContext::new(if idle {
                Some(Duration::from_secs(30))
            } else {
                None
            })
            .into(),
        };
        let request = Request::new(
            client,
            tokio::time::Instant::now(),
            msg,
            tctx,
            (),
        );
        let mut items = Vec::new();
        let mut stream_slices: Vec<Vec<u8>> = Vec::new();
        let mut not_ready = false;
        let mut size_hint = None;
        match stack.call(request).now_or_never() {
            None => not_ready = true,
            Some(mut stream) => loop {
                if size_hint.is_none() {
                    size_hint = Some(stream.size_hint());
                }
                match stream.next().now_or_never() {
                    None => {
                        not_ready = true;
                        break;
                    }
                    Some(None) => break,
                    Some(Some(Ok(cr))) => {
                        let (resp, _fb) = cr.into_inner();
                        items.push(Ok(resp.map(|r| {
                            let t = r.finish();
                            stream_slices.push(t.as_stream_slice().to_vec());
                            t.as_dgram_slice().to_vec()
                        })));
                    }
                    Some(Some(Err(e))) => items.push(Err(format!("{e}"))),
                }
                if items.len() > 4 {
                    break;
                }
            },
        }
        Ok::<_, String>((items, stream_slices, not_ready, size_hint))
    });
    match r {
        Err(p) => Err(p),
        Ok(Err(e)) => Err(format!("HARNESS: {e}")),
        Ok(Ok((items, stream_slices, not_ready, size_hint))) => Ok(AOut {
            req,
            svc_bytes: spec.out.lock().unwrap().clone(),
            unconstructible: spec.unconstructible.load(Ordering::SeqCst),
            items,
            stream_slices,
            not_ready,
            svc_dropped: spec.svc_dropped.load(Ordering::SeqCst),
            size_hint,
        }),
    }
}

/// Evaluate the oracle of part (a) on one case. Returns a list of
/// (signature, what) and an outcome label.
fn judge_a(c: &ACase, out: &AOut) -> (Vec<(String, String)>, String, bool) {
    let mut v: Vec<(String, String)> = Vec::new();
    let t = match c.transport {
        Transport::Udp(_) => "udp",
        Transport::Tcp(_) => "tcp",
    };
    if out.not_ready {
        v.push((format!("C16|a|{t}|stack|future-or-stream-not-ready"), "middleware stack future/stream not immediately ready over a ready service".into()));
        return (v, "not-ready".into(), false);
    }
    if let Some((lo, hi)) = out.size_hint {
        let n = out.items.len();
        if lo > n || hi.map(|h| h < n).unwrap_or(false) {
            v.push((format!("C16|a|{t}|stack|size-hint-excludes-the-number-of-items"), format!("size_hint ({lo}, {hi:?}) but the stream yielded {n} items")));
        }
    }
    if out.items.len() != 1 {
        v.push((format!("C16|a|{t}|stack|item-count"), format!("stack yielded {} items for a single-response service", out.items.len())));
        return (v, "item-count".into(), false);
    }
    let fin = match &out.items[0] {
        Ok(Some(b)) => b.clone(),
        Ok(None) => {
            v.push((format!("C16|a|{t}|stack|response-missing"), "stack yielded an item without a response".into()));
            return (v, "no-response".into(), false);
        }
        Err(e) => {
            v.push((format!("C16|a|{t}|stack|unexpected-service-error"), format!("stack yielded Err({e}) although the service returned Ok")));
            return (v, "error-item".into(), false);
        }
    };
    let rq = read_message(&out.req).expect("harness request must parse");
    let m = match read_message(&fin) {
        Ok(m) => m,
        Err(e) => {
            v.push((format!("C16|a|{t}|unparseable-response"), format!("response of {} octets does not parse: {e}", fin.len())));
            return (v, "unparseable".into(), true);
        }
    };
    if m.end != fin.len() {
        v.push((format!("C16|a|{t}|trailing-octets"), format!("response has {} octets after the last record", fin.len() - m.end)));
    }
    let tc = m.flags & F_TC != 0;
    if m.id != rq.id {
        v.push((format!("C16|a|{t}|id-mismatch|tc={tc}"), format!("response id {:#x} != request id {:#x}", m.id, rq.id)));
    }
    if m.flags & F_QR == 0 {
        v.push((format!("C16|a|{t}|qr-clear"), "response has QR=0".into()));
    }
    let rcode = m.flags & 0xF;
    let mut obs_formerr_noq = false;
    if m.questions != rq.questions {
        if rcode == 1 && m.questions.is_empty() {
            obs_formerr_noq = true;
        } else {
            v.push((format!("C16|a|{t}|question-mismatch|rcode={rcode}|tc={tc}"), format!("the response carries {} questions, the request's question section is not echoed (rcode {rcode}, service called: {})", m.questions.len(), out.svc_bytes.is_some())));
        }
    }
    // content accounting
    let svc_recs = out
        .svc_bytes
        .as_ref()
        .map(|b| content_records(&read_message(b).expect("service response must parse")))
        .unwrap_or_default();
    let fin_recs = content_records(&m);
    let dropped = fin_recs != svc_recs;
    if dropped {
        // what is left must be a prefix of what the service produced
        let is_prefix = fin_recs.len() <= svc_recs.len() && svc_recs[..fin_recs.len()] == fin_recs[..];
        if !is_prefix {
            v.push((format!("C16|a|{t}|records-altered"), "records in the final response are not a prefix of the service's records".into()));
        }
    }
    let req_opts = opt_records(&rq);
    let fin_opts = opt_records(&m);
    let mut over = false;
    let mut obs_opt_no_room = false;
    match c.transport {
        Transport::Udp(limit) => {
            let adv = if req_opts.len() == 1 { Some(req_opts[0].class) } else { None };
            let bound: usize = match adv {
                None => 512,
                Some(a) => (a.max(512) as usize).min(limit.map(|l| l as usize).unwrap_or(65535)),
            };
            if fin.len() > bound {
                over = true;
                let cause = if adv.is_none() && req_opts.is_empty() && rq.counts[3] > 0 {
                    "no-edns-but-other-additional-records|response>512"
                } else if adv.is_none() {
                    if limit.map(|l| l > 512).unwrap_or(false) {
                        "no-edns|configured-limit>512|response>512"
                    } else {
                        "no-edns|response>512"
                    }
                } else if fin_recs.is_empty() {
                    "edns|minimal-response(header+question+OPT)-over-limit"
                } else if tc {
                    "edns|truncated-but-over-limit"
                } else {
                    "edns|not-truncated-over-limit"
                };
                v.push((
                    format!("C16|a|udp|size|{cause}"),
                    format!("UDP response of {} octets exceeds the allowed {} (advertised {:?}, configured limit {:?})", fin.len(), bound, adv, limit),
                ));
            }
            // a response the middleware makes itself may carry TC as a
            // deliberate "retry over TCP" signal (cookie deny list)
            let tc_expected = dropped || out.svc_dropped;
            if c.aware && dropped {
                v.push(("C16|a|udp|limit-aware-service-response-truncated-again".into(), format!("the service kept to hint - reserved octets ({} octets) but the middleware still dropped records ({} of {})", out.svc_bytes.as_ref().map(|b| b.len()).unwrap_or(0), fin_recs.len(), svc_recs.len())));
            }
            if tc && !tc_expected && !over && out.svc_bytes.is_some() {
                v.push(("C16|a|udp|tc-set-without-dropped-content".into(), "TC set although every record of the service's response is present".into()));
            }
            if !tc && tc_expected {
                v.push(("C16|a|udp|content-dropped-without-tc".into(), format!("{} of {} records present but TC clear", fin_recs.len(), svc_recs.len())));
            }
            let req_edns0 = req_opts.len() == 1 && (req_opts[0].ttl >> 16) & 0xFF == 0;
            // size of the response as it stands before the truncation step
            let svc_len = out.svc_bytes.as_ref().map(|b| b.len());
            let svc_optlen = match c.resp_opt { 0 => 0, 1 => 11 + 4 + 4, _ => 11 + 4 + 300 };
            let opt_fits = c.resp_opt != 0 || svc_len.map(|l| l + 11 <= 65535).unwrap_or(true);
            if tc && dropped && req_edns0 && fin_opts.len() != 1 {
                if opt_fits {
                    v.push(("C16|a|udp|truncated-response-lost-opt".into(), format!("truncated response carries {} OPT records", fin_opts.len())));
                } else {
                    obs_opt_no_room = true;
                }
            }
            if let (Some(l), true) = (svc_len, dropped) {
                let pre = if req_opts.is_empty() { l - svc_optlen } else if c.resp_opt != 0 { l } else { l + 11 };
                if pre <= bound && opt_fits {
                    v.push(("C16|a|udp|needless-truncation".into(), format!("a response of {pre} octets fits the allowed {bound} but was delivered with {} of {} records", fin_recs.len(), svc_recs.len())));
                }
            }
        }
        Transport::Tcp(_) => {
            if out.svc_dropped && !tc {
                v.push(("C16|a|tcp|service-set-tc-lost".into(), "the service set TC after dropping records, the final response has TC clear".into()));
            }
            if let Some(ss) = out.stream_slices.first() {
                let announced = if ss.len() >= 2 { u16::from_be_bytes([ss[0], ss[1]]) as usize } else { usize::MAX };
                if ss.len() != fin.len() + 2 || announced != fin.len() || ss[2..] != fin[..] {
                    v.push((
                        "C16|a|tcp|stream-length-prefix!=message-length".into(),
                        format!("the stream form of the response announces {announced} octets but the message has {} ({} octets follow the prefix)", fin.len(), ss.len().saturating_sub(2)),
                    ));
                }
            }
            if (tc && !out.svc_dropped) || dropped {
                v.push((
                    "C16|a|tcp|truncated".into(),
                    format!("TCP response of service size {:?} truncated (tc={tc}, {} of {} records)", out.svc_bytes.as_ref().map(|b| b.len()), fin_recs.len(), svc_recs.len()),
                ));
            }
        }
    }
    let label = format!(
        "{t}:{}{}{}{}{}{}{}",
        if out.svc_bytes.is_some() { "svc".to_string() } else { format!("short-circuit:rcode{rcode}") },
        if out.svc_dropped { ":svc-set-tc" } else { "" },
        if !req_opts.is_empty() && fin_opts.is_empty() { ":edns-request-answered-without-opt" } else { "" },
        if tc { ":tc" } else { "" },
        if over { ":over" } else { "" },
        if obs_formerr_noq { ":formerr-noq" } else { "" },
        if obs_opt_no_room { ":no-room-for-opt" } else { "" },
    );
    let nontrivial = out.svc_bytes.as_ref().map(|b| *b != fin).unwrap_or(true) || tc || over;
    (v, label, nontrivial)
}

fn a_cases(quick: bool) -> Vec<ACase> {
    let bounds = [512usize, 513, 1232, 4096, 65535];
    let offs: Vec<i64> = if quick {
        vec![-18, -17, -12, -11, -10, -1, 0, 1]
    } else {
        (-24..=2).collect()
    };
    let mut sizes: BTreeSet<usize> = BTreeSet::new();
    for b in bounds {
        for o in &offs {
            let s = b as i64 + o;
            if s > 0 && s <= 65535 {
                sizes.insert(s as usize);
            }
        }
    }
    sizes.insert(300);
    let mut size_menu = vec![SizeSpec::Min, SizeSpec::MkError];
    size_menu.extend(sizes.into_iter().map(SizeSpec::Abs));
    let mut edns = vec![EdnsReq::Absent];
    let mut es: Vec<u16> = vec![0, 511, 512, 513, 1232, 4096, 65535];
    if !quick {
        es.extend([1, 1231, 1233, 4095, 4097, 65534]);
    }
    es.sort();
    edns.extend(es.into_iter().map(EdnsReq::Size));
    edns.extend([EdnsReq::Version1, EdnsReq::TwoOpts, EdnsReq::CookieClient, EdnsReq::CookieMalformed]);
    edns.extend([EdnsReq::OtherA, EdnsReq::OtherTsig, EdnsReq::OptThenA, EdnsReq::AThenOpt]);
    let mut transports = vec![Transport::Tcp(false), Transport::Tcp(true)];
    for l in [None, Some(512u16), Some(1232), Some(4096)] {
        transports.push(Transport::Udp(l));
    }
    let mut v = Vec::new();
    // cookie sub-product: every deciding branch of the cookie middleware
    // (no cookie / client only / valid, expired, too new, wrongly hashed,
    // non-standard server cookie / malformed) x deny list x QDCOUNT=0 prefetch
    let cookie_kinds = [
        EdnsReq::Absent,
        EdnsReq::Size(1232),
        EdnsReq::CookieClient,
        EdnsReq::CookieMalformed,
        EdnsReq::CookieValid,
        EdnsReq::CookieExpired,
        EdnsReq::CookieFuture,
        EdnsReq::CookieBadHash,
        EdnsReq::CookieShortServer,
    ];
    let cookie_sizes = [SizeSpec::Min, SizeSpec::Abs(300), SizeSpec::Abs(501), SizeSpec::Abs(502), SizeSpec::Abs(512), SizeSpec::Abs(513), SizeSpec::Abs(1221), SizeSpec::Abs(1222), SizeSpec::Abs(1232), SizeSpec::Abs(1233)];
    for &transport in &transports {
        for &e in &cookie_kinds {
            for deny in [false, true] {
                for prefetch in [false, true] {
                    if !deny && !prefetch && !matches!(e, EdnsReq::CookieValid | EdnsReq::CookieExpired | EdnsReq::CookieFuture | EdnsReq::CookieBadHash | EdnsReq::CookieShortServer) {
                        continue; // already in the main product
                    }
                    for &size in &cookie_sizes {
                        for resp_opt in 0..2u8 {
                            for qlong in [false, true] {
                                for aware in [false, true] {
                                    v.push(ACase { transport, edns: e, size, resp_opt, qlong, layout: 0, tail: 0, deny, prefetch, aware });
                                }
                            }
                        }
                    }
                }
            }
        }
    }
    for &transport in &transports {
        for &e in &edns {
            for &size in &size_menu {
                for resp_opt in 0..3u8 {
                    for qlong in [false, true] {
                        for layout in 0..2u8 {
                            for tail in 0..2u8 {
                                v.push(ACase { transport, edns: e, size, resp_opt, qlong, layout, tail, deny: false, prefetch: false, aware: false });
                            }
                            // the limit-aware service (push limit = hint - reserved octets)
                            if resp_opt < 2 && size != SizeSpec::MkError {
                                v.push(ACase { transport, edns: e, size, resp_opt, qlong, layout, tail: 0, deny: false, prefetch: false, aware: true });
                            }
                        }
                    }
                }
            }
        }
    }
    v
}

// ===========================================================================
// Part (b): shared environment
// ===========================================================================

#[derive(Clone, Debug)]
enum Produced {
    Resp(Vec<u8>),
    Feedback,
    Err,
}

#[derive(Default)]
struct Log {
    dispatched: Vec<(u16, SocketAddr)>,
    svc_calls: Vec<(u16, SocketAddr, usize)>,
    produced: Vec<(u16, SocketAddr, Produced)>,
    flags: BTreeSet<&'static str>,
    /// every item the outermost service stream yielded, in production order
    /// over all requests (part (h))
    items: Vec<ItemRec>,
}

/// The three kinds of `ServiceFeedback`.
#[derive(Clone, Copy, Debug, PartialEq, Eq)]
enum Fb {
    Begin,
    End,
    Reconf,
}

impl Fb {
    const ALL: [Fb; 3] = [Fb::Begin, Fb::End, Fb::Reconf];
    fn name(self) -> &'static str {
        match self {
            Fb::Begin => "BeginTransaction",
            Fb::End => "EndTransaction",
            Fb::Reconf => "Reconfigure(idle=5s)",
        }
    }
    fn from_name(s: &str) -> Option<Fb> {
        Fb::ALL.into_iter().find(|f| f.name() == s)
    }
    fn to_feedback(self) -> ServiceFeedback {
        match self {
            Fb::Begin => ServiceFeedback::BeginTransaction,
            Fb::End => ServiceFeedback::EndTransaction,
            // smaller than the default idle timeout of 30 s
            Fb::Reconf => ServiceFeedback::Reconfigure { idle_timeout: Some(Duration::from_secs(5)) },
        }
    }
    fn of(f: ServiceFeedback) -> Fb {
        match f {
            ServiceFeedback::BeginTransaction => Fb::Begin,
            ServiceFeedback::EndTransaction => Fb::End,
            ServiceFeedback::Reconfigure { .. } => Fb::Reconf,
        }
    }
}

/// One item of a service stream as the transport got it.
#[derive(Clone, Debug)]
struct ItemRec {
    id: u16,
    addr: SocketAddr,
    resp: Option<Vec<u8>>,
    fb: Option<Fb>,
    /// octets the tracked connection's peer had accepted when the item was produced
    out_octets: u64,
    /// the tracked connection's writer was blocked in the middle of / before a frame
    blocked: bool,
}

struct Env {
    ch: Mutex<Chooser>,
    probe: AtomicBool,
    log: Mutex<Log>,
    /// part (g): requests 0x2000.. are answered with a stream of this many
    /// responses inside a transaction (0 = off)
    txn_items: std::sync::atomic::AtomicUsize,
    /// part (h): octets the peer of the tracked stream has accepted so far
    out_octets: AtomicU64,
    /// part (h): the tracked stream's peer currently refuses to read
    write_blocked: AtomicBool,
}

impl Env {
    fn new(ch: Chooser, probe: bool) -> Arc<Env> {
        Arc::new(Env {
            ch: Mutex::new(ch),
            probe: AtomicBool::new(probe),
            log: Mutex::new(Log::default()),
            txn_items: std::sync::atomic::AtomicUsize::new(0),
            out_octets: AtomicU64::new(0),
            write_blocked: AtomicBool::new(false),
        })
    }
    fn choose(&self, n: usize, label: &'static str) -> usize {
        if self.probe.load(Ordering::SeqCst) {
            0
        } else {
            self.ch.lock().unwrap().choose(n, label)
        }
    }
    fn flag(&self, f: &'static str) {
        self.log.lock().unwrap().flags.insert(f);
    }
}

// ---- behaviour service (innermost) ----------------------------------------

const SK_SINGLE: usize = 0;
const SK_STREAM3: usize = 1;
const SK_SPACED: usize = 2;
const SK_DELAY: usize = 3;
const SK_DELAY_LONG: usize = 4;
const SK_ERROR: usize = 5;
#[allow(dead_code)]
const SK_STREAM_ERR: usize = 6;
/// `Ok(mk_error_response(..))`: an error response carrying an OPT record
const SK_OK_ERRRESP: usize = 7;
/// a response whose last builder operation is a rolled-back failed push
const SK_ROLLBACK: usize = 8;
/// feedback-only BeginTransaction, three responses, EndTransaction on the last
const SK_TXN3: usize = 9;
/// one response carrying ServiceFeedback::Reconfigure { idle_timeout: 60 s }
const SK_RECONF: usize = 10;
const SK_N: usize = 11;
const SK_NAMES: [&str; SK_N] = [
    "single", "stream3", "stream3-spaced", "delayed-100ms", "delayed-31s", "error", "stream2-then-error", "ok(mk_error_response)", "rolled-back-push-last",
    "transaction(begin,3,end)", "reconfigure-feedback(idle=60s)",
];

type BoxStream = Pin<Box<dyn Stream<Item = ServiceResult<Vec<u8>>> + Send>>;

#[derive(Clone)]
struct BehSvc {
    env: Arc<Env>,
}

fn mk_item(req: &Request<Vec<u8>, ()>, idx: u8) -> ServiceResult<Vec<u8>> {
    let id = req.message().header().id();
    // like a real service: an unparseable question is a format error
    for q in req.message().question() {
        q?;
    }
    let b = mk_builder_for_target::<Vec<u8>>();
    let mut ans = b.start_answer(req.message(), Rcode::NOERROR)?;
    let tag = [b'T', (id >> 8) as u8, id as u8, idx];
    let d = UnknownRecordData::from_octets(Rtype::from_int(0xFF00), &tag[..]).unwrap();
    ans.push((Name::root_ref(), Class::IN, 60u32, d))?;
    Ok(CallResult::new(ans.additional()))
}

impl Service<Vec<u8>, ()> for BehSvc {
    type Target = Vec<u8>;
    type Stream = BoxStream;
    type Future = Pin<Box<dyn Future<Output = Self::Stream> + Send>>;

    fn call(&self, request: Request<Vec<u8>, ()>) -> Self::Future {
        let id = request.message().header().id();
        let addr = request.client_addr();
        // the concurrent well-behaved connection always gets a plain answer
        let txn_items = self.env.txn_items.load(Ordering::SeqCst);
        let kind = if id == 0x7C7C {
            SK_SINGLE
        } else if txn_items > 0 && (0x2000..0x2100).contains(&id) {
            SK_TXN3
        } else {
            self.env.choose(SK_N, "svc-kind")
        };
        self.env.log.lock().unwrap().svc_calls.push((id, addr, kind));
        let mut items: VecDeque<ServiceResult<Vec<u8>>> = VecDeque::new();
        let mut pre = Duration::ZERO;
        let mut spacing = Duration::ZERO;
        match kind {
            SK_SINGLE => items.push_back(mk_item(&request, 0)),
            SK_STREAM3 => (0..3).for_each(|i| items.push_back(mk_item(&request, i))),
            SK_SPACED => {
                (0..3).for_each(|i| items.push_back(mk_item(&request, i)));
                spacing = Duration::from_millis(100);
            }
            SK_DELAY => {
                items.push_back(mk_item(&request, 0));
                pre = Duration::from_millis(100);
            }
            SK_DELAY_LONG => {
                items.push_back(mk_item(&request, 0));
                pre = Duration::from_secs(31);
                self.env.flag("svc-slower-than-idle-timeout");
            }
            SK_ERROR => {
                // the way services usually fail: `?` on a push that does not fit
                let failing = |req: &Request<Vec<u8>, ()>| -> ServiceResult<Vec<u8>> {
                    let mut ans = mk_builder_for_target::<Vec<u8>>().start_answer(req.message(), Rcode::NOERROR)?;
                    let big = vec![0u8; 65535];
                    ans.push((Name::root_ref(), Class::IN, 60u32, UnknownRecordData::from_octets(Rtype::from_int(0xFF00), &big[..]).unwrap()))?;
                    Ok(CallResult::new(ans.additional()))
                };
                let r = failing(&request);
                items.push_back(if r.is_ok() { Err(ServiceError::InternalError) } else { r });
            }
            SK_TXN3 => {
                let n = if txn_items > 0 && (0x2000..0x2100).contains(&id) { txn_items } else { 3 };
                items.push_back(Ok(CallResult::from(ServiceFeedback::BeginTransaction)));
                for i in 0..n {
                    let it = mk_item(&request, i as u8);
                    items.push_back(if i + 1 == n { it.map(|cr| cr.with_feedback(ServiceFeedback::EndTransaction)) } else { it });
                }
            }
            SK_RECONF => items.push_back(mk_item(&request, 0).map(|cr| cr.with_feedback(ServiceFeedback::Reconfigure { idle_timeout: Some(Duration::from_secs(60)) }))),
            SK_OK_ERRRESP => items.push_back(Ok(CallResult::from(mk_error_response::<Vec<u8>, Vec<u8>>(request.message(), OptRcode::REFUSED)))),
            SK_ROLLBACK => items.push_back(mk_item(&request, 0).map(|cr| {
                let (resp, _) = cr.into_inner();
                let mut add = resp.expect("mk_item makes a response");
                let _ = failed_push(&mut add);
                CallResult::new(add)
            })),
            _ => {
                items.push_back(mk_item(&request, 0));
                items.push_back(mk_item(&request, 1));
                items.push_back(Err(ServiceError::Refused));
            }
        }
        Box::pin(async move {
            if !pre.is_zero() {
                tokio::time::sleep(pre).await;
            }
            let st: BoxStream = Box::pin(futures_util::stream::unfold(
                (items, spacing, true),
                |(mut items, spacing, first)| async move {
                    let it = items.pop_front()?;
                    if !first && !spacing.is_zero() {
                        tokio::time::sleep(spacing).await;
                    }
                    Some((it, (items, spacing, false)))
                },
            ));
            st
        })
    }
}

// ---- recorder (outermost): ground truth of what the service stack yields ---

#[derive(Clone)]
struct Recorder<S> {
    inner: S,
    env: Arc<Env>,
}

struct RecStream<St> {
    inner: St,
    env: Arc<Env>,
    id: u16,
    addr: SocketAddr,
}

impl<St> Stream for RecStream<St>
where
    St: Stream<Item = ServiceResult<Vec<u8>>> + Unpin,
{
    type Item = ServiceResult<Vec<u8>>;
    fn poll_next(mut self: Pin<&mut Self>, cx: &mut Context<'_>) -> Poll<Option<Self::Item>> {
        let r = self.inner.poll_next_unpin(cx);
        if let Poll::Ready(Some(item)) = &r {
            let p = match item {
                Ok(cr) => {
                    if cr.feedback().is_some() {
                        self.env.flag("service-feedback-seen");
                    }
                    match cr.response() {
                        Some(resp) => Produced::Resp(resp.as_slice().to_vec()),
                        None => Produced::Feedback,
                    }
                }
                Err(_) => Produced::Err,
            };
            let rec = ItemRec {
                id: self.id,
                addr: self.addr,
                resp: match &p {
                    Produced::Resp(b) => Some(b.clone()),
                    _ => None,
                },
                fb: item.as_ref().ok().and_then(|cr| cr.feedback()).map(Fb::of),
                out_octets: self.env.out_octets.load(Ordering::SeqCst),
                blocked: self.env.write_blocked.load(Ordering::SeqCst),
            };
            let mut log = self.env.log.lock().unwrap();
            log.items.push(rec);
            log.produced.push((self.id, self.addr, p));
        }
        r
    }
}

impl<S> Service<Vec<u8>, ()> for Recorder<S>
where
    S: Service<Vec<u8>, (), Target = Vec<u8>>,
    S::Future: Send + 'static,
    S::Stream: 'static,
{
    type Target = Vec<u8>;
    type Stream = RecStream<S::Stream>;
    type Future = Pin<Box<dyn Future<Output = Self::Stream> + Send>>;

    fn call(&self, request: Request<Vec<u8>, ()>) -> Self::Future {
        let id = request.message().header().id();
        let addr = request.client_addr();
        self.env.log.lock().unwrap().dispatched.push((id, addr));
        let fut = self.inner.call(request);
        let env = self.env.clone();
        Box::pin(async move { RecStream { inner: fut.await, env, id, addr } })
    }
}

fn mk_server_service_mode(env: &Arc<Env>, mode: StackMode) -> Recorder<Stack<BehSvc>> {
    Recorder { inner: mk_stack_mode(BehSvc { env: env.clone() }, mode), env: env.clone() }
}

fn mk_server_service(env: &Arc<Env>) -> Recorder<Stack<BehSvc>> {
    mk_server_service_mode(env, StackMode::default())
}

/// Environment choice: how the application assembled its middleware stack.
fn choose_stack_mode(env: &Env) -> StackMode {
    match env.choose(3, "stack-mode") {
        1 => StackMode { relaxed: true, ..Default::default() },
        2 => StackMode { cookies_disabled: true, ..Default::default() },
        _ => StackMode::default(),
    }
}

// ---- request kinds ---------------------------------------------------------

const RK_VALID: usize = 0;
const RK_SHORT: usize = 1;
const RK_OVERRUN: usize = 2;
const RK_PTRLOOP: usize = 3;
const RK_COUNTSMAX: usize = 4;
const RK_QR1: usize = 5;
const RK_IQUERY: usize = 6;
const RK_QD2: usize = 7;
const RK_N_DGRAM: usize = 8;
// stream only: framing-level kinds
const RK_LEN0: usize = 8;
const RK_LEN1: usize = 9;
const RK_LEN65535: usize = 10;
const RK_N_STREAM: usize = 11;
const RK_NAMES: [&str; RK_N_STREAM] = [
    "valid", "short(<12)", "label-overrun", "pointer-loop", "counts-0xffff", "qr=1", "iquery", "qdcount=2",
    "len-prefix-0", "len-prefix-1", "len-prefix-65535-short-body",
];

fn req_id(slot: usize) -> u16 {
    0x1100 + 0x0111 * slot as u16
}

/// The DNS message (no length prefix) for kinds that have one.
fn req_message(slot: usize, kind: usize) -> Vec<u8> {
    let id = req_id(slot);
    let names: [Vec<u8>; 3] = [
        name_wire(&[b"a", b"example"]),
        name_wire(&[b"b", b"example"]),
        name_wire(&[b"c", b"Example"]),
    ];
    let qtypes = [1u16, 28, 16];
    let valid = |flags: u16| -> Vec<u8> {
        let s = slot % 3;
        let ar: Vec<u8> = match s {
            0 => Vec::new(),
            1 => opt_rr(1232, 0, &[]),
            _ => opt_rr(512, 0, &[]),
        };
        let f = if s == 2 { flags & !F_RD } else { flags | F_RD };
        let mut m = hdr(id, f, [1, 0, 0, if ar.is_empty() { 0 } else { 1 }]);
        m.extend_from_slice(&question(&names[s], qtypes[s]));
        m.extend_from_slice(&ar);
        m
    };
    match kind {
        RK_VALID => valid(0),
        RK_SHORT => vec![(id >> 8) as u8, id as u8, 0x01, 0x00, 0x00],
        RK_OVERRUN => {
            let mut m = hdr(id, F_RD, [1, 0, 0, 0]);
            m.extend_from_slice(&[0x3F, b'x', b'y']);
            m
        }
        RK_PTRLOOP => {
            let mut m = hdr(id, F_RD, [1, 0, 0, 0]);
            m.extend_from_slice(&[0xC0, 0x0C, 0, 1, 0, 1]);
            m
        }
        RK_COUNTSMAX => hdr(id, F_RD, [0xFFFF; 4]),
        RK_QR1 => valid(F_QR | 0x0080),
        RK_IQUERY => valid(0x0800),
        RK_QD2 => {
            let mut m = hdr(id, F_RD, [2, 0, 0, 0]);
            m.extend_from_slice(&question(&names[slot % 3], 1));
            m.extend_from_slice(&question(&names[(slot + 1) % 3], 16));
            m
        }
        _ => unreachable!(),
    }
}

/// Octets put on the stream for a request slot.
fn req_stream_bytes(slot: usize, kind: usize) -> Vec<u8> {
    match kind {
        RK_LEN0 => vec![0, 0],
        RK_LEN1 => vec![0, 1, 0x42],
        RK_LEN65535 => {
            let mut v = vec![0xFF, 0xFF];
            v.extend_from_slice(&req_message(slot, RK_VALID));
            v
        }
        _ => {
            let m = req_message(slot, kind);
            let mut v = (m.len() as u16).to_be_bytes().to_vec();
            v.extend_from_slice(&m);
            v
        }
    }
}

fn probe_message(id: u16) -> Vec<u8> {
    let mut m = hdr(id, F_RD, [1, 0, 0, 0]);
    m.extend_from_slice(&question(&name_wire(&[b"probe", b"example"]), 1));
    m
}

// ---- generic response checks ----------------------------------------------

struct ReqInfo {
    bytes: Vec<u8>,
    id: Option<u16>,
    parsed: Option<RawMessage>, // Some iff the exact octets are one well-formed message
    qr: bool,
}

impl ReqInfo {
    fn new(bytes: Vec<u8>) -> ReqInfo {
        let id = if bytes.len() >= 2 { Some(u16::from_be_bytes([bytes[0], bytes[1]])) } else { None };
        let parsed = match read_message(&bytes) {
            Ok(m) if m.end == bytes.len() => Some(m),
            _ => None,
        };
        let qr = bytes.len() >= 3 && bytes[2] & 0x80 != 0;
        ReqInfo { bytes, id, parsed, qr }
    }
}

/// Checks every response message against its request: parses, no trailing
/// octets, ID echo, QR, question echo (when the request is well-formed).
fn check_response_msg(comp: &str, req: &ReqInfo, resp: &[u8], out: &mut Vec<(String, String)>) {
    let m = match read_message(resp) {
        Ok(m) => m,
        Err(e) => {
            out.push((format!("C16|{comp}|response|unparseable"), format!("response {} does not parse: {e}", hex(resp))));
            return;
        }
    };
    if m.end != resp.len() {
        out.push((format!("C16|{comp}|response|trailing-octets"), format!("{} octets after the last record", resp.len() - m.end)));
    }
    if let Some(id) = req.id {
        if m.id != id {
            out.push((format!("C16|{comp}|response|id-mismatch"), format!("response id {:#x}, request id {:#x}", m.id, id)));
        }
    }
    if m.flags & F_QR == 0 {
        out.push((format!("C16|{comp}|response|qr-clear"), "response has QR=0".into()));
    }
    if let Some(rq) = &req.parsed {
        let formerr_noq = m.flags & 0xF == 1 && m.questions.is_empty();
        if m.questions != rq.questions && !formerr_noq {
            out.push((format!("C16|{comp}|response|question-mismatch"), format!("response questions {:?} != request questions {:?}", m.questions, rq.questions)));
        }
    }
}

/// Compare observed responses with what the service stack produced.
/// `prefix_ok`: the connection was torn down for an excused reason, so a
/// prefix of the expectation is acceptable.
fn compare_seq(
    comp: &str,
    suspects: &str,
    what: &str,
    produced: &[Produced],
    observed: &[Vec<u8>],
    prefix_ok: bool,
    out: &mut Vec<(String, String)>,
) {
    let expected: Vec<&Produced> = produced.iter().filter(|p| !matches!(p, Produced::Feedback)).collect();
    if observed.len() > expected.len() {
        out.push((
            format!("C16|{comp}|response-duplicate-or-extra|{suspects}"),
            format!("{what}: service produced {} responses, {} were sent", expected.len(), observed.len()),
        ));
        return;
    }
    for (i, o) in observed.iter().enumerate() {
        if let Produced::Resp(b) = expected[i] {
            if b != o {
                out.push((
                    format!("C16|{comp}|response-altered-or-reordered|{suspects}"),
                    format!("{what}: response #{i} sent as {} but produced as {}", hex(o), hex(b)),
                ));
                return;
            }
        }
    }
    if observed.len() < expected.len() && !prefix_ok {
        out.push((
            format!("C16|{comp}|response-missing|{suspects}"),
            format!("{what}: service produced {} responses, only {} were sent", expected.len(), observed.len()),
        ));
    }
}

/// Cause predicate used in signatures of missing-response classes: the
/// enumerated condition (if any) that is present for this request.
fn suspect_for(log: &Log, id: Option<u16>, addr: SocketAddr, stream: bool, fixed: Option<&str>) -> String {
    if let Some(f) = fixed {
        return f.to_string();
    }
    if stream {
        if let Some(id) = id {
            if log.svc_calls.iter().any(|c| c.0 == id && c.1 == addr && c.2 == SK_DELAY_LONG) {
                return "service-slower(31s)-than-idle-timeout(30s)".into();
            }
        }
        if log.flags.contains("read-interrupted") {
            return "after-read-error-kind-interrupted".into();
        }
    }
    "no-suspect-condition".into()
}

// ===========================================================================
// Part (b1): DgramServer over a mock socket
// ===========================================================================

struct OpenSend {
    dest: SocketAddr,
    data: Vec<u8>,
    mode: usize,
}

#[derive(Clone, Debug)]
struct SendRec {
    dest: SocketAddr,
    data: Vec<u8>,
    outcome: &'static str,
}

#[derive(Default)]
struct SockState {
    inq: VecDeque<(Vec<u8>, SocketAddr)>,
    rwaker: Option<Waker>,
    spurious_done: bool,
    open: Vec<OpenSend>,
    sends: Vec<SendRec>,
}

struct SockInner {
    env: Arc<Env>,
    st: Mutex<SockState>,
}

#[derive(Clone)]
struct MockSock(Arc<SockInner>);

impl MockSock {
    fn new(env: &Arc<Env>) -> MockSock {
        MockSock(Arc::new(SockInner { env: env.clone(), st: Mutex::new(SockState::default()) }))
    }
    fn deliver(&self, data: Vec<u8>, from: SocketAddr) {
        let mut st = self.0.st.lock().unwrap();
        st.inq.push_back((data, from));
        if let Some(w) = st.rwaker.take() {
            w.wake();
        }
    }
}

impl AsyncDgramSock for MockSock {
    fn poll_send_to(&self, cx: &mut Context<'_>, data: &[u8], dest: &SocketAddr) -> Poll<io::Result<usize>> {
        let mut st = self.0.st.lock().unwrap();
        if let Some(pos) = st.open.iter().position(|o| o.dest == *dest && o.data == data) {
            return match st.open[pos].mode {
                1 => {
                    st.open.remove(pos);
                    Poll::Ready(Ok(data.len()))
                }
                _ => Poll::Pending, // stalled for ever; the server's write timeout has to fire
            };
        }
        let c = self.0.env.choose(5, "udp-send");
        let outcome = ["ok", "pending-once", "error", "short", "stalled"][c];
        st.sends.push(SendRec { dest: *dest, data: data.to_vec(), outcome });
        match c {
            0 => Poll::Ready(Ok(data.len())),
            1 => {
                st.open.push(OpenSend { dest: *dest, data: data.to_vec(), mode: 1 });
                cx.waker().wake_by_ref();
                Poll::Pending
            }
            2 => Poll::Ready(Err(io::Error::new(io::ErrorKind::ConnectionRefused, "mock: send failed"))),
            3 => Poll::Ready(Ok(data.len().saturating_sub(1))),
            _ => {
                st.open.push(OpenSend { dest: *dest, data: data.to_vec(), mode: 4 });
                Poll::Pending
            }
        }
    }

    fn readable(&self) -> Pin<Box<dyn Future<Output = io::Result<()>> + '_ + Send>> {
        Box::pin(std::future::poll_fn(move |cx| {
            let mut st = self.0.st.lock().unwrap();
            if st.inq.is_empty() {
                st.rwaker = Some(cx.waker().clone());
                Poll::Pending
            } else {
                Poll::Ready(Ok(()))
            }
        }))
    }

    fn try_recv_buf_from(&self, buf: &mut ReadBuf<'_>) -> io::Result<(usize, SocketAddr)> {
        let mut st = self.0.st.lock().unwrap();
        if st.inq.is_empty() {
            return Err(io::ErrorKind::WouldBlock.into());
        }
        if !st.spurious_done {
            if self.0.env.choose(2, "udp-recv") == 1 {
                st.spurious_done = true;
                return Err(io::ErrorKind::WouldBlock.into());
            }
        }
        st.spurious_done = false;
        let (d, a) = st.inq.pop_front().unwrap();
        let n = d.len().min(buf.remaining());
        buf.put_slice(&d[..n]);
        Ok((n, a))
    }
}

struct Collector {
    ctx: Arc<Ctx>,
    stats: Stats,
    verbose: bool,
}

impl Collector {
    fn report(&self, viol: Vec<(String, String)>, replay: &Value) {
        let mut seen = BTreeSet::new();
        for (sig, what) in viol {
            if self.verbose {
                println!("  -> {sig}: {what}");
            }
            if seen.insert(sig.clone()) {
                self.ctx.violation(&sig, &what, replay.clone());
            }
        }
    }
}

fn new_runtime() -> tokio::runtime::Runtime {
    tokio::runtime::Builder::new_current_thread()
        .enable_time()
        .start_paused(true)
        .build()
        .expect("runtime")
}

fn dgram_addr(slot: usize) -> SocketAddr {
    SocketAddr::from(([192, 0, 2, 10 + slot as u8], 1000 + slot as u16))
}

fn run_dgram(ch: &mut Chooser, col: &Collector) {
    let env = Env::new(std::mem::take(ch), false);
    let _ = take_task_panics();
    let env2 = env.clone();
    let mut viol: Vec<(String, String)> = Vec::new();
    let rt = new_runtime();
    let res = guard(|| {
        rt.block_on(async move {
            let env = env2;
            let sock = MockSock::new(&env);
            let mode = choose_stack_mode(&env);
            let srv = Arc::new(DgramServer::new(sock.clone(), VecBufSource, mk_server_service_mode(&env, mode)));
            let s2 = srv.clone();
            let jh = tokio::spawn(async move { s2.run().await });
            let mut kinds = Vec::new();
            for slot in 0..3 {
                let kind = env.choose(RK_N_DGRAM, "req-kind");
                let gap = env.choose(2, "req-gap");
                kinds.push(kind);
                if gap == 1 {
                    tokio::time::sleep(Duration::from_secs(1)).await;
                }
                sock.deliver(req_message(slot, kind), dgram_addr(slot));
            }
            tokio::time::sleep(Duration::from_secs(100)).await;
            env.probe.store(true, Ordering::SeqCst);
            sock.deliver(probe_message(0x7E57), dgram_addr(9));
            tokio::time::sleep(Duration::from_secs(10)).await;
            let alive = !jh.is_finished();
            let _ = srv.shutdown();
            tokio::time::sleep(Duration::from_secs(1)).await;
            let stopped = jh.is_finished();
            let sends = sock.0.st.lock().unwrap().sends.clone();
            (kinds, sends, alive, stopped)
        })
    });
    drop(rt);
    *ch = env.ch.lock().unwrap().clone();
    let panics = take_task_panics();
    let replay = json!({"part": "dgram", "choices": ch.choices(), "trace": ch.describe()});
    for p in &panics {
        viol.push((format!("C16|dgram|panic|{}", panic_class(p)), format!("panic in the datagram server: {p}")));
    }
    let (kinds, sends, alive, stopped) = match res {
        Ok(x) => x,
        Err(p) => {
            if panics.is_empty() {
                viol.push((format!("C16|dgram|panic|{}", panic_class(&p)), format!("panic: {p}")));
            }
            col.report(viol, &replay);
            return;
        }
    };
    let log = env.log.lock().unwrap();
    if !alive {
        viol.push(("C16|dgram|server-task-exited".to_string(), "DgramServer::run returned before shutdown".into()));
    }
    if !stopped {
        viol.push(("C16|dgram|server-task-ignores-shutdown".into(), "DgramServer::run did not return after shutdown()".into()));
    }
    let mut known_dests: BTreeMap<SocketAddr, ReqInfo> = BTreeMap::new();
    for (slot, kind) in kinds.iter().enumerate() {
        known_dests.insert(dgram_addr(slot), ReqInfo::new(req_message(slot, *kind)));
    }
    known_dests.insert(dgram_addr(9), ReqInfo::new(probe_message(0x7E57)));
    for s in &sends {
        if !known_dests.contains_key(&s.dest) {
            viol.push(("C16|dgram|send|unknown-destination".into(), format!("datagram sent to {} which never sent a request", s.dest)));
        }
    }
    for (addr, req) in &known_dests {
        let is_probe = *addr == dgram_addr(9);
        let comp = if is_probe { "dgram-probe" } else { "dgram" };
        let observed: Vec<Vec<u8>> = sends.iter().filter(|s| s.dest == *addr).map(|s| s.data.clone()).collect();
        let produced: Vec<Produced> = log.produced.iter().filter(|p| p.1 == *addr).map(|p| p.2.clone()).collect();
        let dispatched = log.dispatched.iter().any(|d| d.1 == *addr);
        let suspects = suspect_for(&log, req.id, *addr, false, None);
        for o in &observed {
            check_response_msg(comp, req, o, &mut viol);
            // size discipline: default configured limit 1232
            let edns = matches!(&req.parsed, Some(m) if opt_records(m).len() == 1);
            let bound = match &req.parsed {
                Some(m) if edns => (opt_records(m)[0].class.max(512) as usize).min(1232),
                _ => 512,
            };
            if o.len() > bound {
                let cause = if edns { "edns|over-limit" } else { "no-edns|configured-limit>512|response>512" };
                viol.push((format!("C16|{comp}|size|{cause}"), format!("datagram of {} octets sent in answer to {}, allowed {bound} (default configured limit 1232)", o.len(), hex(&req.bytes))));
            }
        }
        if dispatched {
            compare_seq(comp, &suspects, &format!("request from {addr} ({})", hex(&req.bytes)), &produced, &observed, false, &mut viol);
        } else {
            if req.parsed.is_some() && !req.qr {
                viol.push((format!("C16|{comp}|request-not-dispatched|{suspects}"), format!("well-formed query {} never reached the service", hex(&req.bytes))));
            }
            if observed.len() > 1 {
                viol.push((format!("C16|{comp}|response-duplicate-or-extra|{suspects}"), format!("{} datagrams sent for an undispatched request", observed.len())));
            }
        }
    }
    // statistics
    let st = &col.stats;
    st.eval();
    let mut counts: BTreeMap<String, u64> = BTreeMap::new();
    for k in &kinds {
        *counts.entry(format!("dgram.req.{}", RK_NAMES[*k])).or_insert(0) += 1;
    }
    for c in &log.svc_calls {
        *counts.entry(format!("dgram.svc.{}", SK_NAMES[c.2])).or_insert(0) += 1;
    }
    for s in &sends {
        *counts.entry(format!("dgram.send.{}", s.outcome)).or_insert(0) += 1;
    }
    *counts.entry(format!("dgram.responses-per-execution.{}", sends.len())).or_insert(0) += 1;
    st.merge_counts(&counts);
    if ch.deviations() >= 1 {
        st.distinct(fnv(format!("dgram{:?}", ch.choices()).as_bytes()));
    }
    st.sample(3, || json!({"part": "dgram", "trace": ch.describe(), "datagrams_sent": sends.iter().map(|s| json!({"to": s.dest.to_string(), "len": s.data.len(), "env": s.outcome})).collect::<Vec<_>>() }));
    if col.verbose {
        println!("dgram execution: trace {:?}", ch.describe());
        for s in &sends {
            println!("  sent to {} [{}]: {}", s.dest, s.outcome, hex(&s.data));
        }
        println!("  produced: {:?}", log.produced.iter().map(|p| (p.0, p.1.to_string(), match &p.2 { Produced::Resp(b) => format!("resp {}B", b.len()), Produced::Feedback => "feedback".into(), Produced::Err => "err".into() })).collect::<Vec<_>>());
    }
    drop(log);
    col.report(viol, &replay);
}

// ===========================================================================
// Part (b2): StreamServer (+Connection) over a mock listener and stream
// ===========================================================================

#[derive(Default)]
struct StreamState {
    inbuf: VecDeque<u8>,
    eof: bool,
    reset: bool,
    rwaker: Option<Waker>,
    intr_done: bool,
    out: Vec<u8>,
    pend_once: bool,
    stalled: bool,
    write_fail: bool,
    shutdown: bool,
    writes: Vec<&'static str>,
    reads_interrupted: u32,
    /// the peer does not read until this instant, then reads again
    stalled_until: Option<tokio::time::Instant>,
    /// scripted fault (part (f)): after this many octets in total have been
    /// accepted, answer the next write with the given mode
    script: Option<(usize, usize)>,
    script_fired: bool,
    /// part (h): the peer reads `frames` whole frames and `octets` octets of
    /// the next one, then does not read until `release()` (an event of the
    /// driver, not a point in time)
    hold: Option<(usize, usize)>,
    hold_waker: Option<Waker>,
}

struct StreamInner {
    env: Arc<Env>,
    /// a quiet stream always gets the default environment answers
    quiet: bool,
    /// part (h): mirrors the octets accepted / the blocked state into `env`
    tracked: bool,
    st: Mutex<StreamState>,
}

#[derive(Clone)]
struct MockStream(Arc<StreamInner>);

impl MockStream {
    fn new(env: &Arc<Env>) -> MockStream {
        MockStream(Arc::new(StreamInner { env: env.clone(), quiet: false, tracked: false, st: Mutex::new(StreamState::default()) }))
    }
    fn quiet(env: &Arc<Env>) -> MockStream {
        MockStream(Arc::new(StreamInner { env: env.clone(), quiet: true, tracked: false, st: Mutex::new(StreamState::default()) }))
    }
    /// A quiet stream whose peer reads as `hold` says (part (h)).
    fn tracked(env: &Arc<Env>, hold: Option<(usize, usize)>) -> MockStream {
        let st = StreamState { hold, ..Default::default() };
        MockStream(Arc::new(StreamInner { env: env.clone(), quiet: true, tracked: true, st: Mutex::new(st) }))
    }
    /// The peer reads again.
    fn release(&self) {
        let mut st = self.0.st.lock().unwrap();
        st.hold = None;
        self.0.env.write_blocked.store(false, Ordering::SeqCst);
        if let Some(w) = st.hold_waker.take() {
            w.wake();
        }
    }
    fn choose(&self, n: usize, label: &'static str) -> usize {
        if self.0.quiet {
            0
        } else {
            self.0.env.choose(n, label)
        }
    }
    fn feed(&self, bytes: &[u8]) {
        let mut st = self.0.st.lock().unwrap();
        st.inbuf.extend(bytes.iter().copied());
        if let Some(w) = st.rwaker.take() {
            w.wake();
        }
    }
    fn close(&self, reset: bool) {
        let mut st = self.0.st.lock().unwrap();
        if reset {
            st.reset = true;
            st.inbuf.clear();
        } else {
            st.eof = true;
        }
        if let Some(w) = st.rwaker.take() {
            w.wake();
        }
    }
}

impl AsyncRead for MockStream {
    fn poll_read(self: Pin<&mut Self>, cx: &mut Context<'_>, buf: &mut ReadBuf<'_>) -> Poll<io::Result<()>> {
        let mut st = self.0.st.lock().unwrap();
        if st.reset {
            return Poll::Ready(Err(io::ErrorKind::ConnectionReset.into()));
        }
        if !st.inbuf.is_empty() {
            if !st.intr_done && self.choose(2, "tcp-read") == 1 {
                st.intr_done = true;
                st.reads_interrupted += 1;
                self.0.env.flag("read-interrupted");
                return Poll::Ready(Err(io::ErrorKind::Interrupted.into()));
            }
            st.intr_done = false;
            let n = buf.remaining().min(st.inbuf.len());
            for _ in 0..n {
                let b = st.inbuf.pop_front().unwrap();
                buf.put_slice(&[b]);
            }
            Poll::Ready(Ok(()))
        } else if st.eof {
            Poll::Ready(Ok(()))
        } else {
            st.rwaker = Some(cx.waker().clone());
            Poll::Pending
        }
    }
}

impl AsyncWrite for MockStream {
    fn poll_write(self: Pin<&mut Self>, cx: &mut Context<'_>, buf: &[u8]) -> Poll<io::Result<usize>> {
        let mut st = self.0.st.lock().unwrap();
        if st.reset {
            return Poll::Ready(Err(io::ErrorKind::BrokenPipe.into()));
        }
        if st.stalled {
            return Poll::Pending;
        }
        if let Some(until) = st.stalled_until {
            if tokio::time::Instant::now() < until {
                let w = cx.waker().clone();
                tokio::spawn(async move {
                    tokio::time::sleep_until(until).await;
                    w.wake();
                });
                return Poll::Pending;
            }
            st.stalled_until = None;
        }
        if let Some((f, x)) = st.hold {
            let (frames, leftover) = deframe(&st.out);
            let allowed = if frames.len() < f {
                // up to the end of the current frame
                if leftover < 2 {
                    2 - leftover
                } else {
                    let p = st.out.len() - leftover;
                    2 + u16::from_be_bytes([st.out[p], st.out[p + 1]]) as usize - leftover
                }
            } else if frames.len() == f {
                x.saturating_sub(leftover)
            } else {
                0
            };
            if allowed == 0 {
                st.hold_waker = Some(cx.waker().clone());
                self.0.env.write_blocked.store(true, Ordering::SeqCst);
                return Poll::Pending;
            }
            let n = allowed.min(buf.len());
            st.writes.push("held");
            st.out.extend_from_slice(&buf[..n]);
            self.0.env.out_octets.store(st.out.len() as u64, Ordering::SeqCst);
            return Poll::Ready(Ok(n));
        }
        let mut c = if st.pend_once {
            st.pend_once = false;
            0
        } else if st.script.is_some() {
            0
        } else {
            self.choose(6, "tcp-write")
        };
        if let (Some((at, mode)), false) = (st.script, st.script_fired) {
            let avail = at.saturating_sub(st.out.len());
            if avail == 0 {
                st.script_fired = true;
                c = mode;
            } else if avail < buf.len() {
                st.writes.push("scripted-partial");
                st.out.extend_from_slice(&buf[..avail]);
                return Poll::Ready(Ok(avail));
            }
        }
        let name = ["all", "one-octet", "pending-once", "error", "stalled", "stall-31s-then-resume", "stall-5s-then-resume"][c];
        st.writes.push(name);
        match c {
            0 => {
                st.out.extend_from_slice(buf);
                if self.0.tracked {
                    self.0.env.out_octets.store(st.out.len() as u64, Ordering::SeqCst);
                }
                Poll::Ready(Ok(buf.len()))
            }
            1 => {
                let n = buf.len().min(1);
                st.out.extend_from_slice(&buf[..n]);
                Poll::Ready(Ok(n))
            }
            2 => {
                st.pend_once = true;
                cx.waker().wake_by_ref();
                Poll::Pending
            }
            3 => {
                st.write_fail = true;
                Poll::Ready(Err(io::ErrorKind::BrokenPipe.into()))
            }
            4 => {
                st.write_fail = true;
                st.stalled = true;
                Poll::Pending
            }
            5 | 6 => {
                // the peer stops reading for longer (5) / shorter (6) than the
                // default response_write_timeout of 30 s, then reads again
                let d = if c == 5 {
                    st.write_fail = true;
                    31
                } else {
                    5
                };
                let until = tokio::time::Instant::now() + Duration::from_secs(d);
                st.stalled_until = Some(until);
                let w = cx.waker().clone();
                tokio::spawn(async move {
                    tokio::time::sleep_until(until).await;
                    w.wake();
                });
                Poll::Pending
            }
            _ => unreachable!(),
        }
    }
    fn poll_flush(self: Pin<&mut Self>, _cx: &mut Context<'_>) -> Poll<io::Result<()>> {
        Poll::Ready(Ok(()))
    }
    fn poll_shutdown(self: Pin<&mut Self>, _cx: &mut Context<'_>) -> Poll<io::Result<()>> {
        self.0.st.lock().unwrap().shutdown = true;
        Poll::Ready(Ok(()))
    }
}

/// How the set-up future (`AsyncAccept::Future`, e.g. a TLS handshake) of an
/// accepted connection behaves. A `TcpListener` only ever does `AtOnce`; the
/// trait allows all of these.
#[derive(Clone, Copy, Debug, PartialEq, Eq)]
enum Setup {
    /// ready when first polled
    AtOnce,
    /// Pending (waking itself) for three scheduler turns, then the stream
    AfterTurns,
    /// Pending until the driver opens the gate (a later environment event)
    AfterEvent,
    /// the peer stalls: never resolves
    Never,
    /// Err when first polled
    FailAtOnce,
    /// Pending until the driver opens the gate, then Err
    FailAfterEvent,
}

impl Setup {
    const ALL: [Setup; 6] = [Setup::AtOnce, Setup::AfterTurns, Setup::AfterEvent, Setup::Never, Setup::FailAtOnce, Setup::FailAfterEvent];
    fn name(self) -> &'static str {
        match self {
            Setup::AtOnce => "at-once",
            Setup::AfterTurns => "after-3-turns",
            Setup::AfterEvent => "after-a-later-event",
            Setup::Never => "never",
            Setup::FailAtOnce => "fails-at-once",
            Setup::FailAfterEvent => "fails-after-a-later-event",
        }
    }
    fn from_name(s: &str) -> Option<Setup> {
        Setup::ALL.into_iter().find(|m| m.name() == s)
    }
    /// the server gets a stream, sooner or later
    fn establishes(self) -> bool {
        matches!(self, Setup::AtOnce | Setup::AfterTurns | Setup::AfterEvent)
    }
    /// established without any help of the driver
    fn establishes_unaided(self) -> bool {
        matches!(self, Setup::AtOnce | Setup::AfterTurns)
    }
    fn fails(self) -> bool {
        matches!(self, Setup::FailAtOnce | Setup::FailAfterEvent)
    }
    /// still unresolved until the driver opens the gate (or for ever)
    fn lingers(self) -> bool {
        matches!(self, Setup::AfterEvent | Setup::Never | Setup::FailAfterEvent)
    }
}

#[derive(Default)]
struct GateState {
    open: bool,
    waker: Option<Waker>,
}

#[derive(Clone, Default)]
struct Gate(Arc<Mutex<GateState>>);

impl Gate {
    fn open(&self) {
        let mut g = self.0.lock().unwrap();
        g.open = true;
        if let Some(w) = g.waker.take() {
            w.wake();
        }
    }
}

/// The mock's `AsyncAccept::Future`.
struct SetupFut {
    stream: Option<MockStream>,
    mode: Setup,
    turns_left: u32,
    gate: Gate,
}

impl Future for SetupFut {
    type Output = Result<MockStream, io::Error>;
    fn poll(self: Pin<&mut Self>, cx: &mut Context<'_>) -> Poll<Self::Output> {
        let this = self.get_mut();
        let failed = || Poll::Ready(Err(io::Error::new(io::ErrorKind::InvalidData, "mock: handshake failed")));
        match this.mode {
            Setup::AtOnce => Poll::Ready(Ok(this.stream.take().expect("set-up future polled after completion"))),
            Setup::FailAtOnce => failed(),
            Setup::AfterTurns => {
                if this.turns_left > 0 {
                    this.turns_left -= 1;
                    cx.waker().wake_by_ref();
                    Poll::Pending
                } else {
                    Poll::Ready(Ok(this.stream.take().expect("set-up future polled after completion")))
                }
            }
            Setup::Never => Poll::Pending,
            Setup::AfterEvent | Setup::FailAfterEvent => {
                let mut g = this.gate.0.lock().unwrap();
                if !g.open {
                    g.waker = Some(cx.waker().clone());
                    return Poll::Pending;
                }
                drop(g);
                if this.mode == Setup::AfterEvent {
                    Poll::Ready(Ok(this.stream.take().expect("set-up future polled after completion")))
                } else {
                    failed()
                }
            }
        }
    }
}

#[derive(Default)]
struct ListenerState {
    /// the stream, the peer, how the connection's set-up (the
    /// `AsyncAccept::Future`, e.g. a TLS handshake) is scripted to go
    pending: VecDeque<(MockStream, SocketAddr, Setup, Gate)>,
    waker: Option<Waker>,
    err_done: bool,
    accept_errors: u32,
    /// peers whose set-up future resolves to Err or never resolves
    setup_failed: Vec<SocketAddr>,
}

struct ListenerInner {
    env: Arc<Env>,
    st: Mutex<ListenerState>,
}

#[derive(Clone)]
struct MockListener(Arc<ListenerInner>);

impl MockListener {
    fn new(env: &Arc<Env>) -> MockListener {
        MockListener(Arc::new(ListenerInner { env: env.clone(), st: Mutex::new(ListenerState::default()) }))
    }
    fn connect(&self, s: MockStream, a: SocketAddr) {
        self.connect_with(s, a, Setup::AtOnce);
    }
    /// A peer whose connection set-up fails after it was accepted.
    fn connect_failing(&self, a: SocketAddr) {
        let s = MockStream::quiet(&self.0.env);
        self.connect_with(s, a, Setup::FailAtOnce);
    }
    /// A peer whose connection set-up goes as `mode` says.
    fn connect_with(&self, s: MockStream, a: SocketAddr, mode: Setup) -> Gate {
        let gate = Gate::default();
        let mut st = self.0.st.lock().unwrap();
        st.pending.push_back((s, a, mode, gate.clone()));
        if let Some(w) = st.waker.take() {
            w.wake();
        }
        gate
    }
    fn setup_failed(&self, a: SocketAddr) -> bool {
        self.0.st.lock().unwrap().setup_failed.contains(&a)
    }
}

/// answers to "tcp-accept" in the exploration (part (b)): 0 = accepted and
/// set up at once, 1 = poll_accept error, 2.. = these set-up futures
const ACCEPT_SETUPS: [Setup; 3] = [Setup::FailAtOnce, Setup::AfterTurns, Setup::Never];

impl AsyncAccept for MockListener {
    type Error = io::Error;
    type StreamType = MockStream;
    type Future = SetupFut;

    fn poll_accept(&self, cx: &mut Context<'_>) -> Poll<io::Result<(Self::Future, SocketAddr)>> {
        let mut st = self.0.st.lock().unwrap();
        if st.pending.is_empty() {
            st.waker = Some(cx.waker().clone());
            return Poll::Pending;
        }
        // scripted set-ups and quiet streams ask no question
        let quiet = st.pending.front().map(|p| p.0 .0.quiet || p.2 != Setup::AtOnce).unwrap_or(false);
        let mut chosen: Option<Setup> = None;
        if !quiet && !st.err_done {
            match self.0.env.choose(2 + ACCEPT_SETUPS.len(), "tcp-accept") {
                0 => {}
                1 => {
                    st.err_done = true;
                    st.accept_errors += 1;
                    return Poll::Ready(Err(io::Error::new(io::ErrorKind::ConnectionAborted, "mock: accept failed")));
                }
                k => chosen = Some(ACCEPT_SETUPS[k - 2]),
            }
        }
        st.err_done = false;
        let (s, a, scripted, gate) = st.pending.pop_front().unwrap();
        let mode = chosen.unwrap_or(scripted);
        if mode.fails() {
            st.setup_failed.push(a);
            self.0.env.flag("connection-setup-failed");
        } else if mode == Setup::Never {
            st.setup_failed.push(a);
            self.0.env.flag("connection-setup-never-finishes");
        } else if mode != Setup::AtOnce {
            self.0.env.flag("connection-setup-finishes-later");
        }
        Poll::Ready(Ok((SetupFut { stream: Some(s), mode, turns_left: 3, gate }, a)))
    }
}

/// What the client intends to put on connection A.
struct StreamPlan {
    /// (gap of 1 s before this chunk, octets)
    chunks: Vec<(bool, Vec<u8>)>,
    kinds: Vec<usize>,
}

fn plan_from_choices(env: &Env) -> StreamPlan {
    let mut chunks: Vec<(bool, Vec<u8>)> = vec![(false, Vec::new())];
    let mut kinds = Vec::new();
    for slot in 0..3 {
        let kind = env.choose(RK_N_STREAM, "req-kind");
        let seg = env.choose(3, "req-segmentation");
        kinds.push(kind);
        let bytes = req_stream_bytes(slot, kind);
        match seg {
            0 => chunks.last_mut().unwrap().1.extend_from_slice(&bytes),
            1 => chunks.push((true, bytes)),
            _ => {
                chunks.last_mut().unwrap().1.push(bytes[0]);
                chunks.push((true, bytes[1..].to_vec()));
            }
        }
    }
    chunks.retain(|c| !c.1.is_empty());
    StreamPlan { chunks, kinds }
}

fn plan_depth(n: usize) -> StreamPlan {
    let mut bytes = Vec::new();
    for k in 0..n {
        let mut m = hdr(0x2000 + k as u16, F_RD, [1, 0, 0, 0]);
        let l = format!("p{k}");
        m.extend_from_slice(&question(&name_wire(&[l.as_bytes(), b"example"]), 1));
        bytes.extend_from_slice(&(m.len() as u16).to_be_bytes());
        bytes.extend_from_slice(&m);
    }
    StreamPlan { chunks: vec![(false, bytes)], kinds: vec![RK_VALID; n] }
}

struct ConnObs {
    delivered: Vec<u8>,
    out: Vec<u8>,
    client_abort: Option<&'static str>,
    write_fail: bool,
    writes: Vec<&'static str>,
    server_closed: bool,
}

struct StreamObs {
    a: ConnObs,
    b: ConnObs,
    c: ConnObs,
    alive: bool,
    stopped: bool,
    /// the environment made connection A's set-up future resolve to Err:
    /// the server never had a stream, nothing on A can be expected
    a_setup_failed: bool,
}

async fn drive_stream(env: Arc<Env>, plan: &StreamPlan, script: Option<(usize, usize)>) -> StreamObs {
    let listener = MockListener::new(&env);
    let mode = choose_stack_mode(&env);
    // the service is handed over behind an Arc (Service is implemented for Deref<Target = impl Service>)
    let srv = Arc::new(StreamServer::new(listener.clone(), VecBufSource, Arc::new(mk_server_service_mode(&env, mode))));
    let s2 = srv.clone();
    let jh = tokio::spawn(async move { s2.run().await });
    let a = MockStream::new(&env);
    a.0.st.lock().unwrap().script = script;
    let addr_a: SocketAddr = "192.0.2.20:4000".parse().unwrap();
    listener.connect(a.clone(), addr_a);
    // a concurrent, well-behaved connection with default environment answers
    let c = MockStream::quiet(&env);
    let addr_c: SocketAddr = "192.0.2.22:4002".parse().unwrap();
    listener.connect(c.clone(), addr_c);
    let cm = probe_message(0x7C7C);
    let mut cb = (cm.len() as u16).to_be_bytes().to_vec();
    cb.extend_from_slice(&cm);
    c.feed(&cb);
    let mut delivered = Vec::new();
    let mut abort: Option<&'static str> = None;
    for (gap, bytes) in &plan.chunks {
        if *gap {
            tokio::time::sleep(Duration::from_secs(1)).await;
        }
        match env.choose(3, "client-abort") {
            1 => abort = Some("eof"),
            2 => abort = Some("reset"),
            _ => {}
        }
        if abort.is_some() {
            break;
        }
        a.feed(bytes);
        delivered.extend_from_slice(bytes);
    }
    if abort.is_none() {
        // abort right after the last octet, before any response could be read
        match env.choose(3, "client-abort") {
            1 => abort = Some("eof"),
            2 => abort = Some("reset"),
            _ => {}
        }
    }
    match abort {
        Some("eof") => a.close(false),
        Some(_) => a.close(true),
        None => {}
    }
    tokio::time::sleep(Duration::from_secs(100)).await;
    if abort.is_none() {
        a.close(false); // orderly close long after everything should be done
    }
    tokio::time::sleep(Duration::from_secs(1)).await;
    // second connection: a plain query, default environment
    env.probe.store(true, Ordering::SeqCst);
    let b = MockStream::new(&env);
    let addr_b: SocketAddr = "192.0.2.21:4001".parse().unwrap();
    listener.connect(b.clone(), addr_b);
    let pm = probe_message(0x7E57);
    let mut pb = (pm.len() as u16).to_be_bytes().to_vec();
    pb.extend_from_slice(&pm);
    b.feed(&pb);
    tokio::time::sleep(Duration::from_secs(10)).await;
    let alive = !jh.is_finished();
    b.close(false);
    c.close(false);
    let _ = srv.shutdown();
    tokio::time::sleep(Duration::from_secs(1)).await;
    let stopped = jh.is_finished();
    let obs = |s: &MockStream, delivered: Vec<u8>, abort: Option<&'static str>| {
        let st = s.0.st.lock().unwrap();
        ConnObs { delivered, out: st.out.clone(), client_abort: abort, write_fail: st.write_fail, writes: st.writes.clone(), server_closed: st.shutdown }
    };
    let a_setup_failed = listener.setup_failed(addr_a);
    StreamObs { a: obs(&a, delivered, abort), b: obs(&b, pb, None), c: obs(&c, cb, None), alive, stopped, a_setup_failed }
}

/// Reference deframing: complete frames of a two-octet-length-prefixed stream.
fn deframe(bytes: &[u8]) -> (Vec<Vec<u8>>, usize) {
    let mut v = Vec::new();
    let mut p = 0;
    while p + 2 <= bytes.len() {
        let l = u16::from_be_bytes([bytes[p], bytes[p + 1]]) as usize;
        if p + 2 + l > bytes.len() {
            break;
        }
        v.push(bytes[p + 2..p + 2 + l].to_vec());
        p += 2 + l;
    }
    (v, bytes.len() - p)
}

fn judge_conn(comp: &str, conn: &ConnObs, log: &Log, addr: SocketAddr, fixed: Option<&str>, viol: &mut Vec<(String, String)>) -> (usize, usize) {
    let conn_suspects = suspect_for(log, None, addr, true, fixed);
    let suspects = &conn_suspects;
    // requests as the server receives them
    let (frames, _incomplete) = deframe(&conn.delivered);
    let first_short = frames.iter().position(|f| f.len() < 12);
    let excused = conn.client_abort.is_some() || conn.write_fail || first_short.is_some();
    // what the server wrote
    let (msgs, leftover) = deframe(&conn.out);
    if leftover != 0 && !conn.write_fail && conn.client_abort != Some("reset") {
        viol.push((format!("C16|{comp}|framing|partial-frame-at-end|{suspects}"), format!("{leftover} octets written that do not form a length-prefixed message")));
    } else if leftover != 0 {
        // the server gave up in the middle of a frame (write failure): what
        // is left must be the clean head of ONE response frame, nothing else
        let tail = &conn.out[conn.out.len() - leftover..];
        let clean = log.produced.iter().filter(|p| p.1 == addr).any(|p| match &p.2 {
            Produced::Resp(b) => {
                let mut f = (b.len() as u16).to_be_bytes().to_vec();
                f.extend_from_slice(b);
                f.len() > tail.len() && f.starts_with(tail)
            }
            // a server-made error response: its octets are not known here
            Produced::Err => true,
            Produced::Feedback => false,
        }) || frames.iter().any(|f| f.len() >= 3 && f[2] & 0x80 != 0);
        if !clean {
            viol.push((
                format!("C16|{comp}|framing|octets-after-an-abandoned-frame|{suspects}"),
                format!("the last {leftover} octets written ({}) are not the head of one response frame", hex(tail)),
            ));
        }
    }
    let reqs: Vec<ReqInfo> = frames.iter().take(first_short.unwrap_or(frames.len())).map(|f| ReqInfo::new(f.clone())).collect();
    let mut by_id: BTreeMap<u16, Vec<Vec<u8>>> = BTreeMap::new();
    let mut order: Vec<u16> = Vec::new();
    for m in &msgs {
        if m.len() < 12 {
            viol.push((format!("C16|{comp}|framing|message-shorter-than-header"), format!("frame of {} octets written", m.len())));
            continue;
        }
        let id = u16::from_be_bytes([m[0], m[1]]);
        order.push(id);
        by_id.entry(id).or_default().push(m.clone());
    }
    let known_ids: BTreeSet<u16> = reqs.iter().filter_map(|r| r.id).collect();
    for id in by_id.keys() {
        if !known_ids.contains(id) {
            viol.push((format!("C16|{comp}|response|unknown-id|{suspects}"), format!("a message with id {id:#x} was written but no such request was received")));
        }
    }
    let mut expected_total = 0;
    for req in &reqs {
        let id = req.id.unwrap();
        let req_suspects = suspect_for(log, Some(id), addr, true, fixed);
        let suspects = &req_suspects;
        let observed = by_id.get(&id).cloned().unwrap_or_default();
        for o in &observed {
            check_response_msg(comp, req, o, viol);
            if read_message(o).map(|m| m.flags & F_TC != 0).unwrap_or(false) {
                viol.push((format!("C16|{comp}|response|truncated-on-stream"), "TC set on a stream transport".into()));
            }
        }
        let produced: Vec<Produced> = log.produced.iter().filter(|p| p.0 == id && p.1 == addr).map(|p| p.2.clone()).collect();
        expected_total += produced.iter().filter(|p| !matches!(p, Produced::Feedback)).count();
        let dispatched = log.dispatched.iter().any(|d| d.0 == id && d.1 == addr);
        let what = format!("request {} on {comp}", hex(&req.bytes));
        if dispatched {
            compare_seq(comp, suspects, &what, &produced, &observed, excused, viol);
        } else {
            if req.parsed.is_some() && !req.qr && !excused {
                viol.push((format!("C16|{comp}|request-not-dispatched|{suspects}"), format!("{what}: a well-formed query never reached the service")));
            }
            if observed.len() > 1 {
                viol.push((format!("C16|{comp}|response-duplicate-or-extra|{suspects}"), format!("{what}: {} responses to an undispatched request", observed.len())));
            }
        }
    }
    let _ = order;
    (msgs.len(), expected_total)
}

/// octets the server wrote on connection A in the last write-cut execution
/// (used once, sequentially, to size the sweep of part (f))
static WRITE_CUT_TOTAL: AtomicU64 = AtomicU64::new(0);

const CUT_MODES: [(usize, &str); 4] = [
    (5, "peer-stalls-31s(>write-timeout)-then-reads"),
    (6, "peer-stalls-5s(<write-timeout)-then-reads"),
    (4, "peer-stalls-for-ever"),
    (3, "write-error"),
];

/// Three pipelined well-formed queries in one segment (part (f)).
fn plan_three_valid() -> StreamPlan {
    let mut bytes = Vec::new();
    for slot in 0..3 {
        bytes.extend_from_slice(&req_stream_bytes(slot, RK_VALID));
    }
    StreamPlan { chunks: vec![(false, bytes)], kinds: vec![RK_VALID; 3] }
}

/// `depth`: part (c); `cut`: part (f) = (octets accepted before the fault,
/// index into CUT_MODES); neither: one execution of the exploration.
fn run_stream(ch: &mut Chooser, col: &Collector, depth: Option<usize>, cut: Option<(usize, usize)>) {
    run_stream_txn(ch, col, depth, cut, None)
}

/// `txn`: part (g) = two pipelined queries, each answered with a stream of
/// that many responses inside a BeginTransaction/EndTransaction bracket.
fn run_stream_txn(ch: &mut Chooser, col: &Collector, depth: Option<usize>, cut: Option<(usize, usize)>, txn: Option<usize>) {
    let depth = if txn.is_some() { Some(2) } else { depth };
    let env = Env::new(std::mem::take(ch), depth.is_some() || cut.is_some());
    if let Some(n) = txn {
        env.txn_items.store(n, Ordering::SeqCst);
    }
    let _ = take_task_panics();
    let plan = match (depth, cut) {
        (Some(n), _) => plan_depth(n),
        (None, Some(_)) => plan_three_valid(),
        (None, None) => plan_from_choices(&env),
    };
    let script = cut.map(|(at, m)| (at, CUT_MODES[m].0));
    let env2 = env.clone();
    let rt = new_runtime();
    let res = guard(|| rt.block_on(drive_stream(env2, &plan, script)));
    drop(rt);
    *ch = env.ch.lock().unwrap().clone();
    let panics = take_task_panics();
    let replay = match (depth, cut) {
        (Some(_), _) if txn.is_some() => json!({"part": "transaction", "n": txn}),
        (Some(n), _) => json!({"part": "depth", "n": n}),
        (None, Some((at, m))) => json!({"part": "write-cut", "cut": at, "mode": m, "mode_name": CUT_MODES[m].1}),
        (None, None) => json!({"part": "stream", "choices": ch.choices(), "trace": ch.describe()}),
    };
    let part = if txn.is_some() { "stream-transaction" } else if depth.is_some() { "stream-depth" } else if cut.is_some() { "stream-write-cut" } else { "stream" };
    let mut viol: Vec<(String, String)> = Vec::new();
    for p in &panics {
        viol.push((format!("C16|stream|panic|{}", panic_class(p)), format!("panic in the stream server: {p}")));
    }
    let obs = match res {
        Ok(o) => o,
        Err(p) => {
            if panics.is_empty() {
                viol.push((format!("C16|stream|panic|{}", panic_class(&p)), format!("panic: {p}")));
            }
            col.report(viol, &replay);
            return;
        }
    };
    let log = env.log.lock().unwrap();
    let mut fixed: Option<&str> = depth.map(|n| if n > 10 { "pipelined-requests>max_queued_responses(10)" } else { "pipelined-requests<=max_queued_responses(10)" });
    if let Some((_, m)) = cut {
        fixed = Some(CUT_MODES[m].1);
    }
    if txn.is_some() {
        fixed = Some("n-responses-inside-a-transaction");
    }
    if !obs.alive {
        viol.push(("C16|stream|server-task-exited".to_string(), "StreamServer::run returned before shutdown".into()));
    }
    if !obs.stopped {
        viol.push(("C16|stream|server-task-ignores-shutdown".into(), "StreamServer::run did not return after shutdown()".into()));
    }
    let comp_a = part;
    if cut.is_some() {
        WRITE_CUT_TOTAL.store(obs.a.out.len() as u64, Ordering::SeqCst);
    }
    let (written_a, expected_a) = if obs.a_setup_failed {
        if !obs.a.out.is_empty() {
            viol.push(("C16|stream|octets-written-to-a-connection-that-was-never-set-up".to_string(), format!("{} octets", obs.a.out.len())));
        }
        (0, 0)
    } else {
        judge_conn(comp_a, &obs.a, &log, "192.0.2.20:4000".parse().unwrap(), fixed, &mut viol)
    };
    let (written_b, _) = judge_conn("stream-probe-conn", &obs.b, &log, "192.0.2.21:4001".parse().unwrap(), None, &mut viol);
    let (written_c, _) = judge_conn("stream-concurrent-conn", &obs.c, &log, "192.0.2.22:4002".parse().unwrap(), None, &mut viol);
    if written_c != 1 && !viol.iter().any(|v| v.0.starts_with("C16|stream-concurrent-conn")) {
        viol.push(("C16|stream-concurrent-conn|response-missing|no-suspect-condition".to_string(), format!("{written_c} responses on the concurrent connection")));
    }
    if written_b != 1 && !viol.iter().any(|v| v.0.starts_with("C16|stream-probe-conn")) {
        viol.push(("C16|stream-probe-conn|response-missing|no-suspect-condition".to_string(), format!("{written_b} responses on the second connection")));
    }
    let st = &col.stats;
    st.eval();
    let mut counts: BTreeMap<String, u64> = BTreeMap::new();
    if let Some((at, m)) = cut {
        *counts.entry(format!("write-cut.{}.messages-written={written_a}", CUT_MODES[m].1)).or_insert(0) += 1;
        let _ = at;
    } else if depth.is_none() {
        for k in &plan.kinds {
            *counts.entry(format!("stream.req.{}", RK_NAMES[*k])).or_insert(0) += 1;
        }
        for c in &log.svc_calls {
            *counts.entry(format!("stream.svc.{}", SK_NAMES[c.2])).or_insert(0) += 1;
        }
        for w in &obs.a.writes {
            *counts.entry(format!("stream.write.{w}")).or_insert(0) += 1;
        }
        *counts.entry(format!("stream.client-abort.{}", obs.a.client_abort.unwrap_or("none"))).or_insert(0) += 1;
        *counts.entry(format!("stream.messages-written-on-A.{written_a}")).or_insert(0) += 1;
        *counts.entry(format!("stream.server-closed-A.{}", obs.a.server_closed)).or_insert(0) += 1;
        *counts.entry(format!("stream.setup-of-A-failed.{}", obs.a_setup_failed)).or_insert(0) += 1;
        if written_a < expected_a {
            *counts.entry("stream.executions-with-fewer-responses-than-produced(excused-or-not)".into()).or_insert(0) += 1;
        }
        for f in &log.flags {
            *counts.entry(format!("stream.flag.{f}")).or_insert(0) += 1;
        }
    } else if let Some(n) = txn {
        *counts.entry(format!("transaction.items={n:02}x2.written={written_a:03}")).or_insert(0) += 1;
    } else {
        *counts.entry(format!("depth.n={:02}.written={written_a:02}", depth.unwrap())).or_insert(0) += 1;
    }
    st.merge_counts(&counts);
    if ch.deviations() >= 1 || depth.is_some() || cut.is_some() {
        st.distinct(fnv(format!("{part}{:?}{:?}{:?}{:?}", ch.choices(), depth, cut, txn).as_bytes()));
    }
    st.sample(if depth.is_some() { 8 } else if cut.is_some() { 14 } else { 6 }, || json!({"part": part, "depth": depth, "write_cut": cut.map(|(at, m)| json!({"octets_before_fault": at, "mode": CUT_MODES[m].1})), "trace": ch.describe(), "client_octets": obs.a.delivered.len(), "server_octets": obs.a.out.len(), "messages_written": written_a, "produced": expected_a}));
    if col.verbose {
        println!("{part} execution: trace {:?}", ch.describe());
        println!("  A delivered {} octets: {}", obs.a.delivered.len(), hex(&obs.a.delivered));
        println!("  A written   {} octets: {}", obs.a.out.len(), hex(&obs.a.out));
        println!("  A abort={:?} write_fail={} server_closed={} writes={:?}", obs.a.client_abort, obs.a.write_fail, obs.a.server_closed, obs.a.writes);
        println!("  B written   {} octets: {}", obs.b.out.len(), hex(&obs.b.out));
        println!("  C written   {} octets: {}", obs.c.out.len(), hex(&obs.c.out));
        println!("  dispatched: {:?}", log.dispatched.iter().map(|d| format!("{:#x}", d.0)).collect::<Vec<_>>());
        println!("  svc calls: {:?}", log.svc_calls.iter().map(|d| format!("{:#x}:{}", d.0, SK_NAMES[d.2])).collect::<Vec<_>>());
        println!("  produced: {:?}", log.produced.iter().map(|p| format!("{:#x}:{}", p.0, match &p.2 { Produced::Resp(b) => format!("resp{}B", b.len()), Produced::Feedback => "feedback".into(), Produced::Err => "err".into() })).collect::<Vec<_>>());
        println!("  flags: {:?}", log.flags);
    }
    drop(log);
    col.report(viol, &replay);
}

// ===========================================================================
// Part (d): n failed connection set-ups, then a fresh well-behaved connection
// ===========================================================================

struct SetupObs {
    probe: ConnObs,
    alive: bool,
    stopped: bool,
    failed: usize,
}

async fn drive_failed_setups(env: Arc<Env>, n: usize, max_conn: Option<usize>) -> SetupObs {
    let listener = MockListener::new(&env);
    let mut cfg = stream::Config::new();
    if let Some(m) = max_conn {
        cfg.set_max_concurrent_connections(m);
    }
    let srv = Arc::new(StreamServer::with_config(listener.clone(), VecBufSource, mk_server_service(&env), cfg));
    let s2 = srv.clone();
    let jh = tokio::spawn(async move { s2.run().await });
    for k in 0..n {
        listener.connect_failing(SocketAddr::from(([198, 51, 100, (k % 250) as u8 + 1], 2000 + k as u16)));
        // one at a time, each fully over before the next peer shows up
        tokio::time::sleep(Duration::from_millis(100)).await;
    }
    tokio::time::sleep(Duration::from_secs(1)).await;
    let failed = listener.0.st.lock().unwrap().setup_failed.len();
    let b = MockStream::quiet(&env);
    let addr_b: SocketAddr = "192.0.2.21:4001".parse().unwrap();
    listener.connect(b.clone(), addr_b);
    let pm = probe_message(0x7E57);
    let mut pb = (pm.len() as u16).to_be_bytes().to_vec();
    pb.extend_from_slice(&pm);
    b.feed(&pb);
    tokio::time::sleep(Duration::from_secs(10)).await;
    let alive = !jh.is_finished();
    b.close(false);
    let _ = srv.shutdown();
    tokio::time::sleep(Duration::from_secs(1)).await;
    let stopped = jh.is_finished();
    let st = b.0.st.lock().unwrap();
    let probe = ConnObs { delivered: pb, out: st.out.clone(), client_abort: None, write_fail: st.write_fail, writes: st.writes.clone(), server_closed: st.shutdown };
    drop(st);
    SetupObs { probe, alive, stopped, failed }
}

fn run_failed_setups(n: usize, max_conn: Option<usize>, col: &Collector) {
    let env = Env::new(Chooser::default(), true);
    let _ = take_task_panics();
    let env2 = env.clone();
    let rt = new_runtime();
    let res = guard(|| rt.block_on(drive_failed_setups(env2, n, max_conn)));
    drop(rt);
    let panics = take_task_panics();
    let replay = json!({"part": "failed-setups", "n": n, "max_concurrent_connections": max_conn});
    let limit = max_conn.unwrap_or(100);
    let pred = if n >= limit { "failed-setups>=max_concurrent_connections" } else { "failed-setups<max_concurrent_connections" };
    let mut viol: Vec<(String, String)> = Vec::new();
    for p in &panics {
        viol.push((format!("C16|stream-failed-setups|panic|{}", panic_class(p)), format!("panic in the stream server: {p}")));
    }
    let obs = match res {
        Ok(o) => o,
        Err(p) => {
            if panics.is_empty() {
                viol.push((format!("C16|stream-failed-setups|panic|{}", panic_class(&p)), format!("panic: {p}")));
            }
            col.report(viol, &replay);
            return;
        }
    };
    if obs.failed != n {
        eprintln!("MACHINERY: {} of {n} scripted set-up failures were consumed by the server", obs.failed);
        std::process::exit(2);
    }
    if !obs.alive {
        viol.push((format!("C16|stream-failed-setups|server-task-exited|{pred}"), "StreamServer::run returned before shutdown".into()));
    }
    if !obs.stopped {
        viol.push(("C16|stream-failed-setups|server-task-ignores-shutdown".into(), "StreamServer::run did not return after shutdown()".into()));
    }
    let log = env.log.lock().unwrap();
    let before = viol.len();
    let (written, _) = judge_conn("stream-failed-setups", &obs.probe, &log, "192.0.2.21:4001".parse().unwrap(), Some(pred), &mut viol);
    if written != 1 && viol.len() == before {
        viol.push((
            format!("C16|stream-failed-setups|fresh-connection-unanswered|{pred}"),
            format!("after {n} connections whose set-up future resolved to Err (max_concurrent_connections {limit}) a fresh well-behaved connection got {written} responses, server closed it: {}", obs.probe.server_closed),
        ));
    }
    // a request that never reached the service is the same event: one class
    for v in viol.iter_mut() {
        if v.0.starts_with("C16|stream-failed-setups|request-not-dispatched") {
            v.0 = format!("C16|stream-failed-setups|fresh-connection-unanswered|{pred}");
            v.1 = format!("after {n} connections whose set-up future resolved to Err (max_concurrent_connections {limit}) the query of a fresh well-behaved connection never reached the service; {written} responses, server closed it: {}", obs.probe.server_closed);
        }
    }
    let st = &col.stats;
    st.eval();
    st.count(&format!("failed-setups.limit={limit:03}.n={n:03}.probe-answers={written}"));
    st.distinct(fnv(format!("failed-setups{n}/{max_conn:?}").as_bytes()));
    st.sample(12, || json!({"part": "failed-setups", "n": n, "max_concurrent_connections": limit, "probe_answers": written}));
    if col.verbose {
        println!("failed-setups: n={n} max_concurrent_connections={limit}: fresh connection got {written} responses ({} octets), server_closed={}", obs.probe.out.len(), obs.probe.server_closed);
        println!("  dispatched: {:?}", log.dispatched.iter().map(|d| format!("{:#x}", d.0)).collect::<Vec<_>>());
    }
    drop(log);
    col.report(viol, &replay);
}

#[derive(Clone, Copy, Debug)]
struct HolderCase {
    limit: usize,
    /// Config::set_accept_connections_at_max
    at_max: bool,
    /// 0: the holders close; 1: StreamServer::reconfigure raises the limit by one
    wake: usize,
}

struct HolderObs {
    holders: Vec<ConnObs>,
    x: ConnObs,
    y: ConnObs,
    alive: bool,
    reconf_ok: bool,
}

fn quiet_conn(env: &Arc<Env>, listener: &MockListener, addr: SocketAddr, id: u16) -> (MockStream, Vec<u8>) {
    let s = MockStream::quiet(env);
    listener.connect(s.clone(), addr);
    let pm = probe_message(id);
    let mut pb = (pm.len() as u16).to_be_bytes().to_vec();
    pb.extend_from_slice(&pm);
    s.feed(&pb);
    (s, pb)
}

fn conn_obs(s: &MockStream, delivered: Vec<u8>) -> ConnObs {
    let st = s.0.st.lock().unwrap();
    ConnObs { delivered, out: st.out.clone(), client_abort: None, write_fail: st.write_fail, writes: st.writes.clone(), server_closed: st.shutdown }
}

fn holder_addr(k: usize) -> SocketAddr {
    SocketAddr::from(([203, 0, 113, k as u8 + 1], 3000 + k as u16))
}

fn stream_config(limit: usize, at_max: bool) -> stream::Config {
    let mut cc = domain::net::server::ConnectionConfig::new();
    cc.set_idle_timeout(Duration::from_secs(300));
    cc.set_response_write_timeout(Duration::from_secs(10));
    cc.set_max_queued_responses(32);
    let mut cfg = stream::Config::new();
    cfg.set_max_concurrent_connections(limit);
    cfg.set_accept_connections_at_max(at_max);
    cfg.set_connection_config(cc);
    cfg
}

/// `limit` well-behaved connections are open (each got its answer) when
/// connection X arrives. Then either the holders close or the limit is
/// raised with reconfigure(); finally a fresh connection Y arrives.
async fn drive_holders(env: Arc<Env>, hc: HolderCase) -> HolderObs {
    let listener = MockListener::new(&env);
    let cfg = stream_config(hc.limit, hc.at_max);
    let same = cfg.clone();
    assert!(same.max_concurrent_connections() == hc.limit && same.accept_connections_at_max() == hc.at_max);
    assert!(same.connection_config().clone().eq_debug(cfg.connection_config()));
    let srv = Arc::new(StreamServer::with_config(listener.clone(), VecBufSource, mk_server_service(&env), cfg));
    let s2 = srv.clone();
    let jh = tokio::spawn(async move { s2.run().await });
    let mut holders = Vec::new();
    for k in 0..hc.limit {
        holders.push(quiet_conn(&env, &listener, holder_addr(k), 0x6000 + k as u16));
        tokio::time::sleep(Duration::from_secs(1)).await;
    }
    let addr_x: SocketAddr = "192.0.2.30:4100".parse().unwrap();
    let (x, xb) = quiet_conn(&env, &listener, addr_x, 0x6100);
    tokio::time::sleep(Duration::from_secs(2)).await;
    let mut reconf_ok = true;
    if hc.wake == 0 {
        for (h, _) in &holders {
            h.close(false);
        }
    } else {
        reconf_ok = srv.reconfigure(stream_config(hc.limit + 1, hc.at_max)).is_ok();
    }
    tokio::time::sleep(Duration::from_secs(2)).await;
    let addr_y: SocketAddr = "192.0.2.31:4101".parse().unwrap();
    let (y, yb) = quiet_conn(&env, &listener, addr_y, 0x6101);
    tokio::time::sleep(Duration::from_secs(10)).await;
    let alive = !jh.is_finished();
    let _ = srv.shutdown();
    tokio::time::sleep(Duration::from_secs(1)).await;
    HolderObs {
        holders: holders.iter().map(|(h, b)| conn_obs(h, b.clone())).collect(),
        x: conn_obs(&x, xb),
        y: conn_obs(&y, yb),
        alive,
        reconf_ok,
    }
}

trait EqDebug {
    fn eq_debug(&self, other: &Self) -> bool;
}
impl<T: std::fmt::Debug> EqDebug for T {
    fn eq_debug(&self, other: &Self) -> bool {
        format!("{self:?}") == format!("{other:?}")
    }
}

fn run_holders(hc: &HolderCase, col: &Collector) {
    let env = Env::new(Chooser::default(), true);
    let _ = take_task_panics();
    let env2 = env.clone();
    let hc2 = *hc;
    let rt = new_runtime();
    let res = guard(|| rt.block_on(drive_holders(env2, hc2)));
    drop(rt);
    let panics = take_task_panics();
    let replay = json!({"part": "holders", "limit": hc.limit, "accept_at_max": hc.at_max, "wake": hc.wake});
    let pred = format!("accept_connections_at_max={}|{}", hc.at_max, if hc.wake == 0 { "after-the-open-connections-closed" } else { "after-reconfigure-raised-the-limit" });
    let mut viol: Vec<(String, String)> = Vec::new();
    for p in &panics {
        viol.push((format!("C16|stream-at-limit|panic|{}", panic_class(p)), format!("panic in the stream server: {p}")));
    }
    let obs = match res {
        Ok(o) => o,
        Err(p) => {
            if panics.is_empty() {
                viol.push((format!("C16|stream-at-limit|panic|{}", panic_class(&p)), format!("panic: {p}")));
            }
            col.report(viol, &replay);
            return;
        }
    };
    if !obs.alive {
        viol.push((format!("C16|stream-at-limit|server-task-exited|{pred}"), "StreamServer::run returned before shutdown".into()));
    }
    if !obs.reconf_ok {
        viol.push(("C16|stream-at-limit|reconfigure-rejected".into(), "StreamServer::reconfigure returned an error while the server was running".into()));
    }
    let log = env.log.lock().unwrap();
    // the connections within the limit are always served
    for (k, h) in obs.holders.iter().enumerate() {
        let before = viol.len();
        let (w, _) = judge_conn("stream-at-limit", h, &log, holder_addr(k), Some("connection-within-the-limit"), &mut viol);
        if w != 1 && viol.len() == before {
            viol.push(("C16|stream-at-limit|connection-within-the-limit-unanswered".into(), format!("connection #{k} of {} got {w} responses", hc.limit)));
        }
    }
    // X arrived while the server was full: with accept_connections_at_max it
    // may be dropped; without, it has to be served once there is room
    let mut vx: Vec<(String, String)> = Vec::new();
    let (wx, _) = judge_conn("stream-at-limit", &obs.x, &log, "192.0.2.30:4100".parse().unwrap(), Some(&pred), &mut vx);
    if wx >= 1 {
        viol.extend(vx); // whether X had to be served at all is decided below
    }
    let mut vy: Vec<(String, String)> = Vec::new();
    let (wy, _) = judge_conn("stream-at-limit", &obs.y, &log, "192.0.2.31:4101".parse().unwrap(), Some(&pred), &mut vy);
    if wy >= 1 {
        viol.extend(vy);
    }
    // What has to hold: once there is room again, somebody gets served.
    // - the open connections closed: every slot is free, the fresh
    //   connection Y must be answered (X may have been turned away while the
    //   server was full - that is what the limit is for);
    // - the limit was raised by one: exactly one slot is free, X (if the
    //   server kept it waiting) or else Y must be answered.
    let served = if hc.wake == 0 { wy == 1 } else { wx + wy >= 1 };
    if !served {
        viol.push((
            format!("C16|stream-at-limit|nobody-served-once-there-is-room-again|{pred}"),
            format!("limit {}: {} connections were open when connection X arrived (X got {wx} responses); 12 s after there was room again the fresh connection Y had {wy} responses", hc.limit, hc.limit),
        ));
    }
    if wx > 1 || wy > 1 {
        viol.push(("C16|stream-at-limit|response-duplicate-or-extra".into(), format!("{wx} responses on the connection that arrived while full")));
    }
    let st = &col.stats;
    st.eval();
    st.count(&format!("at-limit.limit={}.{pred}.x-answers={wx}.y-answers={wy}", hc.limit));
    st.distinct(fnv(format!("{hc:?}").as_bytes()));
    st.sample(6, || json!({"part": "holders", "case": replay.clone(), "x_answers": wx, "y_answers": wy}));
    if col.verbose {
        println!("holders {hc:?}: X got {wx} responses (server closed it: {}), Y got {wy}", obs.x.server_closed);
    }
    drop(log);
    col.report(viol, &replay);
}

fn holder_cases() -> Vec<HolderCase> {
    let mut v = Vec::new();
    for limit in [1usize, 2, 3] {
        for at_max in [true, false] {
            for wake in [0usize, 1] {
                v.push(HolderCase { limit, at_max, wake });
            }
        }
    }
    v
}

// ===========================================================================
// Part (i): connections whose set-up future resolves at once / later / never
// / to Err, accepted in sequence; requests on the established ones
// ===========================================================================

#[derive(Clone, Debug)]
struct SetupCase {
    /// one entry per connection, in order of arrival (1 s apart)
    modes: Vec<Setup>,
    /// max_concurrent_connections = exactly what the connections that are not
    /// refused need (false: the default of 100)
    tight: bool,
    /// 0: nothing; 1: the server starts with max_concurrent_connections = 1
    /// and StreamServer::reconfigure sets the real limit 1 s after the first
    /// connection arrived
    cmd: usize,
}

impl SetupCase {
    fn to_json(&self) -> Value {
        json!({"part": "setups", "modes": self.modes.iter().map(|m| m.name()).collect::<Vec<_>>(), "tight": self.tight, "cmd": self.cmd})
    }
    fn from_json(v: &Value) -> Option<SetupCase> {
        let modes = v["modes"].as_array()?.iter().map(|m| Setup::from_name(m.as_str()?)).collect::<Option<Vec<_>>>()?;
        Some(SetupCase { modes, tight: v["tight"].as_bool()?, cmd: v["cmd"].as_u64()? as usize })
    }
    /// slots needed: every connection whose set-up does not fail (a stalled
    /// one may or may not be counted by the server: room for it either way)
    /// plus the fresh connection at the end
    fn limit(&self) -> Option<usize> {
        if self.tight {
            Some(self.modes.iter().filter(|m| !m.fails()).count() + 1)
        } else {
            None
        }
    }
}

struct SetupsObs {
    /// per connection: what the server had written 3 s after the last one
    /// arrived (no gate opened yet), and the final observation
    conns: Vec<(Vec<u8>, ConnObs)>,
    first_req: Vec<Vec<u8>>,
    y: ConnObs,
    alive: bool,
    stopped: bool,
    reconf_ok: bool,
}

fn setup_addr(k: usize) -> SocketAddr {
    SocketAddr::from(([198, 51, 100, 60 + k as u8], 5000 + k as u16))
}

async fn drive_setups(env: Arc<Env>, case: SetupCase) -> SetupsObs {
    let listener = MockListener::new(&env);
    let mk = |limit: Option<usize>| {
        let mut cfg = stream::Config::new();
        if let Some(m) = limit {
            cfg.set_max_concurrent_connections(m);
        }
        cfg
    };
    let initial = if case.cmd == 1 { Some(1) } else { case.limit() };
    let srv = Arc::new(StreamServer::with_config(listener.clone(), VecBufSource, mk_server_service(&env), mk(initial)));
    let s2 = srv.clone();
    let jh = tokio::spawn(async move { s2.run().await });
    let mut conns: Vec<(MockStream, Gate, Vec<u8>)> = Vec::new();
    let mut first_req = Vec::new();
    let mut reconf_ok = true;
    for (k, m) in case.modes.iter().enumerate() {
        let s = MockStream::quiet(&env);
        let gate = listener.connect_with(s.clone(), setup_addr(k), *m);
        // the peer's first query is on the wire as soon as it connected
        let rb = frame_of(&probe_message(0x5100 + k as u16));
        s.feed(&rb);
        first_req.push(rb.clone());
        conns.push((s, gate, rb));
        tokio::time::sleep(Duration::from_secs(1)).await;
        if k == 0 && case.cmd == 1 {
            reconf_ok = srv.reconfigure(mk(case.limit())).is_ok();
            tokio::time::sleep(Duration::from_secs(1)).await;
        }
    }
    tokio::time::sleep(Duration::from_secs(3)).await;
    let early: Vec<Vec<u8>> = conns.iter().map(|c| c.0 .0.st.lock().unwrap().out.clone()).collect();
    // the later environment event: the slow peers finish (or give up)
    for c in &conns {
        c.1.open();
    }
    tokio::time::sleep(Duration::from_secs(3)).await;
    // every peer sends a second query (only the established ones are heard)
    for (k, c) in conns.iter_mut().enumerate() {
        let rb = frame_of(&probe_message(0x5200 + k as u16));
        c.0.feed(&rb);
        c.2.extend_from_slice(&rb);
    }
    tokio::time::sleep(Duration::from_secs(3)).await;
    // a fresh well-behaved connection while the stalled ones still stall
    let addr_y: SocketAddr = "192.0.2.41:4201".parse().unwrap();
    let (y, yb) = quiet_conn(&env, &listener, addr_y, 0x52FF);
    tokio::time::sleep(Duration::from_secs(5)).await;
    let alive = !jh.is_finished();
    let _ = srv.shutdown();
    tokio::time::sleep(Duration::from_secs(1)).await;
    let stopped = jh.is_finished();
    SetupsObs {
        conns: conns.iter().zip(early).map(|(c, e)| (e, conn_obs(&c.0, c.2.clone()))).collect(),
        first_req,
        y: conn_obs(&y, yb),
        alive,
        stopped,
        reconf_ok,
    }
}

fn run_setups(case: &SetupCase, col: &Collector) {
    let env = Env::new(Chooser::default(), true);
    let _ = take_task_panics();
    let env2 = env.clone();
    let case2 = case.clone();
    let rt = new_runtime();
    let res = guard(|| rt.block_on(drive_setups(env2, case2)));
    drop(rt);
    let panics = take_task_panics();
    let replay = case.to_json();
    let mut viol: Vec<(String, String)> = Vec::new();
    for p in &panics {
        viol.push((format!("C16|stream-setup|panic|{}", panic_class(p)), format!("panic in the stream server: {p}")));
    }
    let obs = match res {
        Ok(o) => o,
        Err(p) => {
            if panics.is_empty() {
                viol.push((format!("C16|stream-setup|panic|{}", panic_class(&p)), format!("panic: {p}")));
            }
            col.report(viol, &replay);
            return;
        }
    };
    // what the other peers were doing, as a class
    let others = |k: usize, upto: usize| -> &'static str {
        let earlier = &case.modes[..k.min(case.modes.len())];
        let _ = upto;
        if earlier.iter().any(|m| *m == Setup::Never) {
            "an-earlier-connection's-set-up-never-finishes"
        } else if earlier.iter().any(|m| m.lingers()) {
            "an-earlier-connection's-set-up-was-still-pending"
        } else if earlier.iter().any(|m| m.fails()) {
            "an-earlier-connection's-set-up-failed"
        } else {
            "no-earlier-set-up-pending-or-failed"
        }
    };
    let cmd_pred = if case.cmd == 1 { "limit-raised-by-reconfigure-after-the-first-connection" } else if case.tight { "limit=connections-that-need-a-slot" } else { "default-limit" };
    if !obs.alive {
        viol.push((format!("C16|stream-setup|server-task-exited|{}", others(case.modes.len(), 0)), "StreamServer::run returned before shutdown".into()));
    }
    if !obs.stopped {
        let pending = if case.modes.iter().any(|m| *m == Setup::Never) { "while-a-set-up-never-finishes" } else { "no-set-up-pending" };
        viol.push((format!("C16|stream-setup|server-task-ignores-shutdown|{pending}"), "StreamServer::run did not return within 1 s after shutdown()".into()));
    }
    if !obs.reconf_ok {
        viol.push(("C16|stream-setup|reconfigure-rejected".into(), "StreamServer::reconfigure returned an error while the server was running".into()));
    }
    let log = env.log.lock().unwrap();
    // `expected` whole responses on a connection, judged with the shared
    // per-connection oracle (ID, question, framing, exactly once)
    let mut demand = |what: &str, own: &str, pred: &str, conn: &ConnObs, addr: SocketAddr, expected: usize, viol: &mut Vec<(String, String)>| -> usize {
        let before = viol.len();
        let (w, _) = judge_conn("stream-setup", conn, &log, addr, Some(pred), viol);
        let sig = format!("C16|stream-setup|{what}|{own}|{pred}|{cmd_pred}");
        let text = format!("connections with set-up futures {:?} (1 s apart), limit {:?}, cmd {}: {what}: {w} whole responses to {expected} queries", case.modes.iter().map(|m| m.name()).collect::<Vec<_>>(), case.limit(), case.cmd);
        if w != expected && viol.len() == before {
            viol.push((sig.clone(), text.clone()));
        }
        // a query that never reached the service is the same event
        for v in viol.iter_mut().skip(before) {
            if v.0.starts_with("C16|stream-setup|request-not-dispatched") {
                v.0 = sig.clone();
                v.1 = text.clone();
            }
        }
        w
    };
    let mut answered = Vec::new();
    for (k, (early, fin)) in obs.conns.iter().enumerate() {
        let m = case.modes[k];
        let own = match m {
            Setup::AtOnce => "own-set-up-at-once",
            Setup::AfterTurns => "own-set-up-after-3-turns",
            Setup::AfterEvent => "own-set-up-after-a-later-event",
            _ => "own-set-up-not-completed",
        };
        if m.establishes_unaided() {
            // answered while the other peers still keep the server waiting
            let e = ConnObs { delivered: obs.first_req[k].clone(), out: early.clone(), client_abort: None, write_fail: false, writes: Vec::new(), server_closed: false };
            demand("established-connection-unanswered-within-3s", own, others(k, 0), &e, setup_addr(k), 1, &mut viol);
        }
        if m.establishes() {
            if m == Setup::AfterEvent && !early.is_empty() {
                viol.push(("C16|stream-setup|octets-written-before-the-set-up-completed".into(), format!("{} octets", early.len())));
            }
            let w = demand("established-connection-unanswered", own, others(k, 0), fin, setup_addr(k), 2, &mut viol);
            answered.push(w);
        } else {
            if !fin.out.is_empty() {
                viol.push(("C16|stream-setup|octets-written-to-a-connection-that-was-never-set-up".into(), format!("{} octets on connection #{k} ({})", fin.out.len(), m.name())));
            }
            answered.push(0);
        }
    }
    let wy = demand("fresh-connection-unanswered", "own-set-up-at-once", others(case.modes.len(), 0), &obs.y, "192.0.2.41:4201".parse().unwrap(), 1, &mut viol);
    let st = &col.stats;
    st.eval();
    for m in &case.modes {
        st.count(&format!("setups.mode.{}", m.name()));
    }
    st.count(&format!("setups.connections={}.{cmd_pred}", case.modes.len()));
    st.count(&format!("setups.fresh-connection-answers={wy}"));
    st.count(&format!("setups.responses-on-established-connections={}", answered.iter().sum::<usize>()));
    if case.modes.iter().any(|m| *m != Setup::AtOnce) {
        st.distinct(fnv(format!("{case:?}").as_bytes()));
    }
    st.sample(8, || json!({"part": "setups", "case": replay.clone(), "responses_per_connection": answered.clone(), "fresh_connection_answers": wy}));
    if col.verbose {
        println!("setups {case:?}: responses per connection {answered:?}, fresh connection {wy}, alive {} stopped {}", obs.alive, obs.stopped);
        for (k, (early, fin)) in obs.conns.iter().enumerate() {
            println!("  #{k} {}: {} octets within 3 s, {} in the end, server closed it: {}", case.modes[k].name(), early.len(), fin.out.len(), fin.server_closed);
        }
        println!("  dispatched: {:?}", log.dispatched.iter().map(|d| format!("{:#x}", d.0)).collect::<Vec<_>>());
    }
    drop(log);
    col.report(viol, &replay);
}

/// Every sequence of 1..=3 set-up behaviours; quick: the limit / reconfigure
/// dimensions only for sequences of up to two.
fn setup_cases(quick: bool) -> Vec<SetupCase> {
    let mut v = Vec::new();
    for n in 1..=3usize {
        let total = Setup::ALL.len().pow(n as u32);
        for code in 0..total {
            let mut c = code;
            let mut modes = Vec::new();
            for _ in 0..n {
                modes.push(Setup::ALL[c % Setup::ALL.len()]);
                c /= Setup::ALL.len();
            }
            for tight in [false, true] {
                for cmd in [0usize, 1] {
                    if quick && n == 3 && (tight || cmd == 1) {
                        continue;
                    }
                    v.push(SetupCase { modes: modes.clone(), tight, cmd });
                }
            }
        }
    }
    v
}

/// (n, configured max_concurrent_connections) pairs of part (d).
fn failed_setup_cases(quick: bool) -> Vec<(usize, Option<usize>)> {
    let mut v = Vec::new();
    for limit in [1usize, 2, 3] {
        for n in 0..=(limit + if quick { 2 } else { 5 }) {
            v.push((n, Some(limit)));
        }
    }
    // default configuration (100)
    let ns: Vec<usize> = if quick { vec![1, 99, 100, 101] } else { (1..=130).collect() };
    for n in ns {
        v.push((n, None));
    }
    v
}

// ===========================================================================
// Part (e): DgramServer::reconfigure changes the response size limit
// ===========================================================================

#[derive(Clone, Copy, Debug)]
struct ReconfCase {
    l1: Option<u16>,
    l2: Option<u16>,
    size: usize,
    adv: u16,
}

fn dgram_config(limit: Option<u16>) -> dgram::Config {
    let mut c = dgram::Config::new();
    c.set_write_timeout(Duration::from_secs(2));
    c.set_max_response_size(limit);
    c
}

/// Start with limit l1, serve a request, reconfigure to l2, serve a request,
/// reconfigure back to l1, serve a request. The limit that applies to a
/// request is the one configured when it is received ("any change to this
/// setting will only affect requests received after the setting is changed",
/// dgram::Config::set_max_response_size); every reconfigure() is followed by
/// one second of virtual time before the next datagram arrives.
fn run_reconfigure(rc: &ReconfCase, col: &Collector) {
    let env = Env::new(Chooser::default(), true);
    let _ = take_task_panics();
    let ac = ACase { transport: Transport::Udp(rc.l1), edns: EdnsReq::Size(rc.adv), size: SizeSpec::Abs(rc.size), resp_opt: 0, qlong: false, layout: 1, tail: 0, deny: false, prefetch: false, aware: false };
    let req = ac.request();
    let spec = ASvcSpec {
        size: ac.size,
        resp_opt: 0,
        layout: 1,
        tail: 0,
        aware: false,
        svc_dropped: Arc::new(AtomicBool::new(false)),
        out: Arc::new(Mutex::new(None)),
        unconstructible: Arc::new(AtomicBool::new(false)),
    };
    let spec2 = spec.clone();
    let env2 = env.clone();
    let req2 = req.clone();
    let rc2 = *rc;
    let rt = new_runtime();
    let res = guard(|| {
        rt.block_on(async move {
            let sock = MockSock::new(&env2);
            let svc = mk_stack(service_fn::<Vec<u8>, Vec<u8>, _, (), _>(a_handler, spec2.clone()));
            let srv = Arc::new(DgramServer::with_config(sock.clone(), VecBufSource, svc, dgram_config(rc2.l1)));
            let s2 = srv.clone();
            let jh = tokio::spawn(async move { s2.run().await });
            let limits = [rc2.l1, rc2.l2, rc2.l1];
            let mut svc_bytes: Vec<Option<Vec<u8>>> = Vec::new();
            let mut reconf_ok = true;
            for (i, l) in limits.iter().enumerate() {
                if i > 0 {
                    reconf_ok &= srv.reconfigure(dgram_config(*l)).is_ok();
                    tokio::time::sleep(Duration::from_secs(1)).await;
                }
                *spec2.out.lock().unwrap() = None;
                sock.deliver(req2.clone(), dgram_addr(i));
                tokio::time::sleep(Duration::from_secs(1)).await;
                svc_bytes.push(spec2.out.lock().unwrap().clone());
            }
            let alive = !jh.is_finished();
            let _ = srv.shutdown();
            tokio::time::sleep(Duration::from_secs(1)).await;
            let sends = sock.0.st.lock().unwrap().sends.clone();
            (sends, svc_bytes, alive, reconf_ok)
        })
    });
    drop(rt);
    let panics = take_task_panics();
    let replay = json!({"part": "reconfigure", "l1": rc.l1, "l2": rc.l2, "size": rc.size, "adv": rc.adv});
    let mut viol: Vec<(String, String)> = Vec::new();
    for p in &panics {
        viol.push((format!("C16|dgram-reconfigure|panic|{}", panic_class(p)), format!("panic in the datagram server: {p}")));
    }
    let (sends, svc_bytes, alive, reconf_ok) = match res {
        Ok(x) => x,
        Err(p) => {
            if panics.is_empty() {
                viol.push((format!("C16|dgram-reconfigure|panic|{}", panic_class(&p)), format!("panic: {p}")));
            }
            col.report(viol, &replay);
            return;
        }
    };
    if spec.unconstructible.load(Ordering::SeqCst) {
        eprintln!("MACHINERY: reconfigure case {rc:?} asks for a size that cannot be built");
        std::process::exit(2);
    }
    if !alive {
        viol.push(("C16|dgram-reconfigure|server-task-exited".into(), "DgramServer::run returned after reconfigure()".into()));
    }
    if !reconf_ok {
        viol.push(("C16|dgram-reconfigure|reconfigure-rejected".into(), "DgramServer::reconfigure returned an error while the server was running".into()));
    }
    let rank = |l: Option<u16>| l.map(|x| x as u32).unwrap_or(u32::MAX);
    let limits = [rc.l1, rc.l2, rc.l1];
    let st = &col.stats;
    st.eval();
    for i in 0..3 {
        let phase = if i == 0 {
            "initial-limit"
        } else if rank(limits[i]) < rank(limits[i - 1]) {
            "after-limit-lowered"
        } else {
            "after-limit-raised"
        };
        let observed: Vec<&SendRec> = sends.iter().filter(|s| s.dest == dgram_addr(i)).collect();
        if observed.len() != 1 {
            viol.push((format!("C16|dgram-reconfigure|{phase}|response-count"), format!("{} datagrams sent for request #{i}", observed.len())));
            continue;
        }
        let case_i = ACase { transport: Transport::Udp(limits[i]), ..ac.clone() };
        let out = AOut { req: req.clone(), svc_bytes: svc_bytes[i].clone(), unconstructible: false, items: vec![Ok(Some(observed[0].data.clone()))], stream_slices: Vec::new(), not_ready: false, svc_dropped: false, size_hint: None };
        let (v, label, _) = judge_a(&case_i, &out);
        st.count(&format!("reconfigure.{phase}.{label}"));
        for (sig, what) in v {
            viol.push((
                sig.replacen("C16|a|udp", &format!("C16|dgram-reconfigure|{phase}"), 1),
                format!("request #{i} received while the configured limit was {:?} (limits over time {:?}): {what}", limits[i], limits),
            ));
        }
        if col.verbose {
            println!("  request #{i}: limit at receipt {:?}, service {} octets, sent {} octets, header {}", limits[i], svc_bytes[i].as_ref().map(|b| b.len()).unwrap_or(0), observed[0].data.len(), hex(&observed[0].data[..12.min(observed[0].data.len())]));
        }
    }
    st.distinct(fnv(format!("{rc:?}").as_bytes()));
    st.sample(4, || json!({"part": "reconfigure", "case": replay.clone(), "sent_octets": sends.iter().map(|s| s.data.len()).collect::<Vec<_>>()}));
    col.report(viol, &replay);
}

fn reconfigure_cases(quick: bool) -> Vec<ReconfCase> {
    let limits = [Some(512u16), Some(1232), Some(4096), None];
    // service sizes s with s + 11 (the added OPT) at and just above each limit
    let mut sizes: Vec<usize> = vec![400, 501, 502, 1221, 1222, 2000, 4085, 4086];
    if !quick {
        sizes.extend([500, 503, 800, 1220, 1223, 3000, 4084, 4087]);
        sizes.sort();
    }
    let mut v = Vec::new();
    for l1 in limits {
        for l2 in limits {
            if l1 == l2 {
                continue;
            }
            for &size in &sizes {
                for adv in [1232u16, 4096] {
                    v.push(ReconfCase { l1, l2, size, adv });
                }
            }
        }
    }
    v
}

// ===========================================================================
// Part (h): service feedback x response placement x bounded response queue
// ===========================================================================

/// How the client of the connection reads: `None` = promptly; `Some((f, x))`
/// = it reads f whole frames and x octets of the next one, then nothing until
/// the driver lets it go on (after the server had every chance to run).
const READERS: [(&str, Option<(usize, usize)>); 6] = [
    ("reads-promptly", None),
    ("stalls-before-the-first-octet", Some((0, 0))),
    ("stalls-after-the-first-frame", Some((1, 0))),
    ("stalls-inside-the-first-length-prefix", Some((0, 1))),
    ("stalls-3-octets-into-the-second-frame", Some((1, 3))),
    ("stalls-after-two-frames", Some((2, 0))),
];

const FILLERS: [&str; 3] = ["single", "stream10", "transaction(begin,3,end)"];

/// scheduler turns the driver lets pass before a stalled reader reads again
const FB_YIELDS: usize = 100;
const FB_FOLLOWUP_ID: u16 = 0x3F00;

#[derive(Clone, Debug)]
struct FbCase {
    /// true: one datagram to a DgramServer (n = 1, no queue, no reader)
    dgram: bool,
    /// pipelined requests, all in one segment
    n: usize,
    /// which of them gets the behaviour under test
    pos: usize,
    /// behaviour of the others (index into FILLERS)
    filler: usize,
    /// responses in the subject's stream
    k: usize,
    /// (slot, feedback): slot 2j = a feedback-only item before response j
    /// (2k: after the last response), slot 2i+1 = attached to response i
    events: Vec<(usize, Fb)>,
    /// ConnectionConfig::set_max_queued_responses (None: the default config)
    cap: Option<usize>,
    reader: usize,
    /// the subject's stream yields to the scheduler before every item
    yields: bool,
}

type FbScript = Vec<(bool, Option<Fb>)>;

impl FbCase {
    fn to_json(&self) -> Value {
        json!({
            "part": "feedback", "transport": if self.dgram { "dgram" } else { "stream" },
            "n": self.n, "pos": self.pos, "filler": FILLERS[self.filler], "filler_index": self.filler, "k": self.k,
            "events": self.events.iter().map(|(s, f)| json!([s, f.name()])).collect::<Vec<_>>(),
            "items": self.subject_script().iter().map(|(r, f)| format!("{}{}", if *r { "response" } else { "feedback-only" }, f.map(|f| format!("+{}", f.name())).unwrap_or_default())).collect::<Vec<_>>(),
            "max_queued_responses": self.cap, "reader": READERS[self.reader].0, "reader_index": self.reader, "yields": self.yields,
        })
    }
    fn from_json(v: &Value) -> Option<FbCase> {
        let mut events = Vec::new();
        for e in v["events"].as_array()? {
            events.push((e[0].as_u64()? as usize, Fb::from_name(e[1].as_str()?)?));
        }
        Some(FbCase {
            dgram: v["transport"].as_str()? == "dgram",
            n: v["n"].as_u64()? as usize,
            pos: v["pos"].as_u64()? as usize,
            filler: v["filler_index"].as_u64()? as usize,
            k: v["k"].as_u64()? as usize,
            events,
            cap: v["max_queued_responses"].as_u64().map(|x| x as usize),
            reader: v["reader_index"].as_u64()? as usize,
            yields: v["yields"].as_bool()?,
        })
    }
    fn subject_script(&self) -> FbScript {
        let mut v = Vec::new();
        for slot in 0..=2 * self.k {
            let fb = self.events.iter().find(|e| e.0 == slot).map(|e| e.1);
            if slot % 2 == 1 {
                v.push((true, fb));
            } else if fb.is_some() {
                v.push((false, fb));
            }
        }
        v
    }
    fn filler_script(&self) -> FbScript {
        match self.filler {
            0 => vec![(true, None)],
            1 => vec![(true, None); 10],
            _ => vec![(false, Some(Fb::Begin)), (true, None), (true, None), (true, Some(Fb::End))],
        }
    }
    fn req_id(slot: usize) -> u16 {
        0x3000 + slot as u16
    }
    fn request(id: u16) -> Vec<u8> {
        let mut m = hdr(id, F_RD, [1, 0, 0, 0]);
        let l = format!("f{:x}", id & 0xFF);
        m.extend_from_slice(&question(&name_wire(&[l.as_bytes(), b"example"]), 1));
        m
    }
    fn service(&self) -> FbSvc {
        let mut table = BTreeMap::new();
        let mut yielding = BTreeSet::new();
        for slot in 0..self.n {
            table.insert(FbCase::req_id(slot), if slot == self.pos { self.subject_script() } else { self.filler_script() });
        }
        if self.yields {
            yielding.insert(FbCase::req_id(self.pos));
        }
        FbSvc { table: Arc::new(table), yielding: Arc::new(yielding) }
    }
}

/// Plays a scripted item sequence per request ID; any other request gets one
/// plain response.
#[derive(Clone)]
struct FbSvc {
    table: Arc<BTreeMap<u16, FbScript>>,
    yielding: Arc<BTreeSet<u16>>,
}

impl Service<Vec<u8>, ()> for FbSvc {
    type Target = Vec<u8>;
    type Stream = BoxStream;
    type Future = Pin<Box<dyn Future<Output = Self::Stream> + Send>>;

    fn call(&self, request: Request<Vec<u8>, ()>) -> Self::Future {
        let id = request.message().header().id();
        let script = self.table.get(&id).cloned().unwrap_or_else(|| vec![(true, None)]);
        let mut items: VecDeque<ServiceResult<Vec<u8>>> = VecDeque::new();
        let mut idx = 0u8;
        for (has_resp, fb) in script {
            let fb = fb.map(Fb::to_feedback);
            items.push_back(if has_resp {
                let it = mk_item(&request, idx);
                idx += 1;
                match fb {
                    Some(f) => it.map(|cr| cr.with_feedback(f)),
                    None => it,
                }
            } else {
                Ok(CallResult::feedback_only(fb.expect("a feedback-only item has feedback")))
            });
        }
        let y = self.yielding.contains(&id);
        Box::pin(async move {
            let st: BoxStream = Box::pin(futures_util::stream::unfold(items, move |mut items| async move {
                let it = items.pop_front()?;
                if y {
                    tokio::task::yield_now().await;
                }
                Some((it, items))
            }));
            st
        })
    }
}

struct FbObs {
    out: Vec<u8>,
    writes: usize,
    server_closed: bool,
    alive: bool,
    stopped: bool,
    /// virtual time that passed while the driver only yielded (must be none)
    clock_moved: bool,
    sends: Vec<SendRec>,
}

fn fb_addr() -> SocketAddr {
    "192.0.2.40:4400".parse().unwrap()
}

fn frame_of(m: &[u8]) -> Vec<u8> {
    let mut v = (m.len() as u16).to_be_bytes().to_vec();
    v.extend_from_slice(m);
    v
}

async fn drive_feedback(env: Arc<Env>, case: FbCase) -> FbObs {
    let svc = Recorder { inner: mk_stack(case.service()), env: env.clone() };
    if case.dgram {
        let sock = MockSock::new(&env);
        let srv = Arc::new(DgramServer::new(sock.clone(), VecBufSource, svc));
        let s2 = srv.clone();
        let jh = tokio::spawn(async move { s2.run().await });
        sock.deliver(FbCase::request(FbCase::req_id(0)), fb_addr());
        tokio::time::sleep(Duration::from_secs(2)).await;
        sock.deliver(FbCase::request(FB_FOLLOWUP_ID), fb_addr());
        tokio::time::sleep(Duration::from_secs(2)).await;
        let alive = !jh.is_finished();
        let _ = srv.shutdown();
        tokio::time::sleep(Duration::from_secs(1)).await;
        let sends = sock.0.st.lock().unwrap().sends.clone();
        return FbObs { out: Vec::new(), writes: 0, server_closed: false, alive, stopped: jh.is_finished(), clock_moved: false, sends };
    }
    let listener = MockListener::new(&env);
    let mut cfg = stream::Config::new();
    if let Some(c) = case.cap {
        let mut cc = domain::net::server::ConnectionConfig::new();
        cc.set_max_queued_responses(c);
        cfg.set_connection_config(cc);
    }
    let srv = Arc::new(StreamServer::with_config(listener.clone(), VecBufSource, Arc::new(svc), cfg));
    let s2 = srv.clone();
    let jh = tokio::spawn(async move { s2.run().await });
    let a = MockStream::tracked(&env, READERS[case.reader].1);
    listener.connect(a.clone(), fb_addr());
    let mut seg = Vec::new();
    for slot in 0..case.n {
        seg.extend_from_slice(&frame_of(&FbCase::request(FbCase::req_id(slot))));
    }
    a.feed(&seg);
    // The stall of the reader ends with an event, not at a time: a server
    // that waits for room in its queue by yielding keeps the runtime busy,
    // so the paused clock would never reach a deadline.
    let t0 = tokio::time::Instant::now();
    for _ in 0..FB_YIELDS {
        tokio::task::yield_now().await;
    }
    let clock_moved = tokio::time::Instant::now() != t0;
    a.release();
    tokio::time::sleep(Duration::from_secs(1)).await;
    a.feed(&frame_of(&FbCase::request(FB_FOLLOWUP_ID)));
    tokio::time::sleep(Duration::from_secs(2)).await;
    a.close(false);
    tokio::time::sleep(Duration::from_secs(1)).await;
    let alive = !jh.is_finished();
    let _ = srv.shutdown();
    tokio::time::sleep(Duration::from_secs(1)).await;
    let st = a.0.st.lock().unwrap();
    FbObs { out: st.out.clone(), writes: st.writes.len(), server_closed: st.shutdown, alive, stopped: jh.is_finished(), clock_moved, sends: Vec::new() }
}

/// The response of a produced item with what the oracle needs to know.
struct FbProduced {
    id: u16,
    bytes: Vec<u8>,
    /// produced at or after the item carrying BeginTransaction and not after
    /// the item carrying EndTransaction of its request
    in_txn: bool,
    begins: bool,
    ends: bool,
    out_octets: u64,
    blocked: bool,
    written_at: Option<usize>,
}

/// The one defect class already on record for this area (known finding:
/// "stream Connection drops a response when the response queue is full and
/// the request is not in a transaction"). Part (h) meets the same defect with
/// smaller queues; it is one defect, so it is reported as one class.
const SIG_QUEUE_FULL_OUTSIDE_TXN: &str = "C16|stream-depth|response-missing|pipelined-requests>max_queued_responses(10)";

fn run_feedback(case: &FbCase, col: &Collector) {
    let env = Env::new(Chooser::default(), true);
    let _ = take_task_panics();
    let env2 = env.clone();
    let case2 = case.clone();
    let rt = new_runtime();
    let res = guard(|| rt.block_on(drive_feedback(env2, case2)));
    drop(rt);
    let panics = take_task_panics();
    let replay = case.to_json();
    let comp = if case.dgram { "dgram-feedback" } else { "stream-feedback" };
    let mut viol: Vec<(String, String)> = Vec::new();
    for p in &panics {
        viol.push((format!("C16|{comp}|panic|{}", panic_class(p)), format!("panic in the server: {p}")));
    }
    let obs = match res {
        Ok(o) => o,
        Err(p) => {
            if panics.is_empty() {
                viol.push((format!("C16|{comp}|panic|{}", panic_class(&p)), format!("panic: {p}")));
            }
            col.report(viol, &replay);
            return;
        }
    };
    if obs.clock_moved {
        eprintln!("MACHINERY: virtual time moved while the driver of part (h) only yielded ({replay})");
        std::process::exit(2);
    }
    if !obs.alive {
        viol.push((format!("C16|{comp}|server-task-exited"), "the server's run() returned before shutdown".into()));
    }
    if !obs.stopped {
        viol.push((format!("C16|{comp}|server-task-ignores-shutdown"), "the server's run() did not return after shutdown()".into()));
    }
    let log = env.log.lock().unwrap();
    let st = &col.stats;
    st.eval();
    st.distinct(fnv(replay.to_string().as_bytes()));
    let mut counts: BTreeMap<String, u64> = BTreeMap::new();
    let mut bump = |k: String, n: u64| *counts.entry(k).or_insert(0) += n;

    // ---- what the service stack handed to the transport -------------------
    let addr = fb_addr();
    let mut ids: Vec<u16> = (0..case.n).map(FbCase::req_id).collect();
    ids.push(FB_FOLLOWUP_ID);
    let mut produced: Vec<FbProduced> = Vec::new();
    let mut in_txn: BTreeMap<u16, bool> = BTreeMap::new();
    for it in log.items.iter().filter(|i| i.addr == addr) {
        let t = in_txn.entry(it.id).or_insert(false);
        if it.fb == Some(Fb::Begin) {
            *t = true;
        }
        if let Some(b) = &it.resp {
            produced.push(FbProduced { id: it.id, bytes: b.clone(), in_txn: *t, begins: it.fb == Some(Fb::Begin), ends: *t && it.fb == Some(Fb::End), out_octets: it.out_octets, blocked: it.blocked, written_at: None });
        }
        if it.fb == Some(Fb::End) {
            *t = false;
        }
        if it.fb.is_some() {
            bump(format!("feedback.{comp}.items.{}.{}", it.fb.unwrap().name(), if it.resp.is_some() { "attached-to-a-response" } else { "feedback-only" }), 1);
        }
    }
    for id in &ids {
        if !log.dispatched.iter().any(|d| d.0 == *id && d.1 == addr) {
            let which = if *id == FB_FOLLOWUP_ID { "later-request-on-the-same-connection" } else { "pipelined-request" };
            viol.push((format!("C16|{comp}|request-not-dispatched|{which}"), format!("the well-formed query {id:#x} never reached the service")));
        }
    }

    // ---- what was sent ---------------------------------------------------
    let msgs: Vec<Vec<u8>> = if case.dgram {
        for s in &obs.sends {
            if s.dest != addr {
                viol.push((format!("C16|{comp}|send|unknown-destination"), format!("datagram sent to {}", s.dest)));
            }
        }
        obs.sends.iter().map(|s| s.data.clone()).collect()
    } else {
        let (msgs, leftover) = deframe(&obs.out);
        if leftover != 0 {
            viol.push((format!("C16|{comp}|framing|partial-frame-at-end"), format!("{leftover} octets written that do not form a length-prefixed message (no write ever failed)")));
        }
        msgs
    };
    let mut ends: Vec<u64> = Vec::new();
    let mut p = 0u64;
    for m in &msgs {
        p += 2 + m.len() as u64;
        ends.push(p);
    }
    for (fi, m) in msgs.iter().enumerate() {
        if m.len() < 12 {
            viol.push((format!("C16|{comp}|framing|message-shorter-than-header"), format!("a message of {} octets was sent", m.len())));
            continue;
        }
        let id = u16::from_be_bytes([m[0], m[1]]);
        if !ids.contains(&id) {
            viol.push((format!("C16|{comp}|response|unknown-id"), format!("a message with id {id:#x} was sent but no such request was received")));
            continue;
        }
        check_response_msg(comp, &ReqInfo::new(FbCase::request(id)), m, &mut viol);
        match produced.iter_mut().find(|pr| pr.bytes == *m) {
            None => viol.push((format!("C16|{comp}|response-altered-or-invented"), format!("{} was sent for request {id:#x}, the service produced no such response", hex(m)))),
            Some(pr) if pr.written_at.is_some() => viol.push((format!("C16|{comp}|response-duplicate"), format!("response {} of request {id:#x} was sent twice", hex(m)))),
            Some(pr) => pr.written_at = Some(fi),
        }
    }
    // per-request order
    for id in &ids {
        let at: Vec<usize> = produced.iter().filter(|pr| pr.id == *id).filter_map(|pr| pr.written_at).collect();
        if at.windows(2).any(|w| w[0] > w[1]) {
            viol.push((format!("C16|{comp}|response-reordered"), format!("the responses to request {id:#x} were sent in the order {at:?} of the order they were produced in")));
        }
    }
    // exactly once: nothing the service produced may be missing
    let cap = case.cap.unwrap_or(10);
    let mut dropped_known = 0u64;
    for j in 0..produced.len() {
        let pr = &produced[j];
        // responses handed over earlier that the peer had not got completely
        // when this one was produced, minus the one the writer was busy with:
        // that many sat in the connection's queue
        let waiting = produced[..j].iter().filter(|q| matches!(q.written_at, Some(fi) if ends[fi] > pr.out_octets)).count();
        let queued = waiting.saturating_sub(pr.blocked as usize);
        let full = !case.dgram && queued >= cap;
        if pr.in_txn {
            bump(format!("feedback.{comp}.responses-inside-a-transaction"), 1);
            if full {
                bump(format!("feedback.{comp}.responses-inside-a-transaction.produced-while-the-queue-was-full"), 1);
                if pr.begins {
                    bump(format!("feedback.{comp}.responses-carrying-BeginTransaction.produced-while-the-queue-was-full"), 1);
                }
                if pr.ends {
                    bump(format!("feedback.{comp}.responses-carrying-EndTransaction.produced-while-the-queue-was-full"), 1);
                }
            }
        } else if full {
            bump(format!("feedback.{comp}.responses-outside-a-transaction.produced-while-the-queue-was-full"), 1);
        }
        if pr.written_at.is_some() {
            continue;
        }
        let what = format!(
            "response {} of request {:#x} was produced by the service but never sent ({} of the connection's {} queue places were taken when it was produced; {})",
            hex(&pr.bytes), pr.id, queued, cap, READERS[case.reader].0
        );
        if pr.id == FB_FOLLOWUP_ID {
            viol.push((format!("C16|{comp}|response-missing|later-request-on-the-same-connection"), what));
        } else if pr.in_txn {
            let place = if pr.begins {
                "the-response-that-carries-BeginTransaction"
            } else if pr.ends {
                "the-response-that-carries-EndTransaction"
            } else {
                "a-response-between-begin-and-end"
            };
            viol.push((format!("C16|{comp}|response-missing|inside-a-transaction|{place}|queue-{}", if full { "full" } else { "not-full" }), what));
        } else if full {
            dropped_known += 1;
            viol.push((SIG_QUEUE_FULL_OUTSIDE_TXN.to_string(), what));
        } else {
            viol.push((format!("C16|{comp}|response-missing|outside-a-transaction|queue-not-full"), what));
        }
    }
    bump(format!("feedback.{comp}.executions.max_queued_responses={}.{}", case.cap.map(|c| c.to_string()).unwrap_or("default".into()), READERS[case.reader].0), 1);
    bump(format!("feedback.{comp}.responses-produced"), produced.len() as u64);
    bump(format!("feedback.{comp}.responses-sent"), msgs.len() as u64);
    if dropped_known > 0 {
        bump(format!("feedback.{comp}.executions-with-a-drop-of-the-known-class(outside-a-transaction,queue-full)"), 1);
    }
    st.merge_counts(&counts);
    st.sample(if case.dgram { 2 } else { 6 }, || json!({"part": comp, "case": replay.clone(), "produced": produced.len(), "sent": msgs.len(), "write_calls": obs.writes}));
    if col.verbose {
        println!("{comp} case {replay}");
        println!("  written {} octets in {} messages, server closed the connection: {}", obs.out.len(), msgs.len(), obs.server_closed);
        for it in log.items.iter().filter(|i| i.addr == addr) {
            println!("  item of {:#x}: {} feedback {:?}; peer had {} octets, writer blocked: {}", it.id, it.resp.as_ref().map(|b| format!("response {}", hex(b))).unwrap_or("no response".into()), it.fb.map(|f| f.name()), it.out_octets, it.blocked);
        }
        for m in &msgs {
            println!("  sent: {}", hex(m));
        }
    }
    drop(log);
    col.report(viol, &replay);
}

fn feedback_cases(quick: bool) -> Vec<FbCase> {
    // behaviours of the subject: k responses, up to two feedbacks, each on
    // its own item
    let mut behaviours: Vec<(usize, Vec<(usize, Fb)>)> = Vec::new();
    for k in [1usize, 3] {
        behaviours.push((k, Vec::new()));
        for s1 in 0..=2 * k {
            for f1 in Fb::ALL {
                behaviours.push((k, vec![(s1, f1)]));
                for s2 in s1 + 1..=2 * k {
                    for f2 in Fb::ALL {
                        behaviours.push((k, vec![(s1, f1), (s2, f2)]));
                    }
                }
            }
        }
    }
    let mut layouts: Vec<(usize, usize, usize)> = vec![(1, 0, 0)];
    let fillers = if quick { 2 } else { 3 };
    for n in 2..=3usize {
        for pos in 0..n {
            for filler in 0..fillers {
                layouts.push((n, pos, filler));
            }
        }
    }
    let readers = if quick { 3 } else { READERS.len() };
    let mut v = Vec::new();
    for (k, events) in &behaviours {
        for &(n, pos, filler) in &layouts {
            for cap in [Some(1usize), Some(2), None] {
                for reader in 0..readers {
                    for yields in [false, true] {
                        if yields && quick {
                            continue;
                        }
                        v.push(FbCase { dgram: false, n, pos, filler, k: *k, events: events.clone(), cap, reader, yields });
                    }
                }
            }
        }
        for yields in [false, true] {
            v.push(FbCase { dgram: true, n: 1, pos: 0, filler: 0, k: *k, events: events.clone(), cap: None, reader: 0, yields });
        }
    }
    v
}

// ===========================================================================
// main
// ===========================================================================

fn main() {
    let ctx = Ctx::new("C16", "model_checking");
    install_task_panic_hook();
    let quick = ctx.quick();
    let col = Collector { ctx: ctx.clone(), stats: Stats::new(), verbose: ctx.replay.is_some() };
    let wd = Watchdog::start(ctx.clone(), Duration::from_secs(120), |d| format!("C16|hang|{}", d["part"].as_str().unwrap_or("?")));

    // ---- replay -------------------------------------------------------------
    if let Some(path) = ctx.replay.clone() {
        let text = std::fs::read_to_string(&path).expect("replay file");
        let v: Value = serde_json::from_str(&text).expect("replay json");
        let case = &v["case"];
        match case["part"].as_str() {
            Some("a") => {
                let c = ACase::from_json(case).expect("case");
                println!("replaying part (a) case {c:?}");
                println!("  request: {}", hex(&c.request()));
                match run_a(&c) {
                    Err(p) => {
                        println!("  panic: {p}");
                        ctx.violation(&format!("C16|a|panic|{}", panic_class(&p)), &p, c.to_json());
                    }
                    Ok(out) => {
                        println!("  service response: {:?} octets", out.svc_bytes.as_ref().map(|b| b.len()));
                        for it in &out.items {
                            match it {
                                Ok(Some(b)) => println!("  final response: {} octets, header {}", b.len(), hex(&b[..12.min(b.len())])),
                                other => println!("  item: {other:?}"),
                            }
                        }
                        let (viol, label, _) = judge_a(&c, &out);
                        println!("  outcome: {label}");
                        col.report(viol, &c.to_json());
                    }
                }
            }
            Some("dgram") => {
                let choices: Vec<u32> = case["choices"].as_array().unwrap().iter().map(|x| x.as_u64().unwrap() as u32).collect();
                let mut ch = Chooser::from_choices(&choices);
                run_dgram(&mut ch, &col);
            }
            Some("stream") => {
                let choices: Vec<u32> = case["choices"].as_array().unwrap().iter().map(|x| x.as_u64().unwrap() as u32).collect();
                let mut ch = Chooser::from_choices(&choices);
                run_stream(&mut ch, &col, None, None);
            }
            Some("depth") => {
                let mut ch = Chooser::default();
                run_stream(&mut ch, &col, Some(case["n"].as_u64().unwrap() as usize), None);
            }
            Some("transaction") => {
                let mut ch = Chooser::default();
                run_stream_txn(&mut ch, &col, None, None, Some(case["n"].as_u64().unwrap() as usize));
            }
            Some("holders") => {
                let hc = HolderCase { limit: case["limit"].as_u64().unwrap() as usize, at_max: case["accept_at_max"].as_bool().unwrap(), wake: case["wake"].as_u64().unwrap() as usize };
                run_holders(&hc, &col);
            }
            Some("write-cut") => {
                let mut ch = Chooser::default();
                run_stream(&mut ch, &col, None, Some((case["cut"].as_u64().unwrap() as usize, case["mode"].as_u64().unwrap() as usize)));
            }
            Some("reconfigure") => {
                let l = |k: &str| case[k].as_u64().map(|x| x as u16);
                let rc = ReconfCase { l1: l("l1"), l2: l("l2"), size: case["size"].as_u64().unwrap() as usize, adv: case["adv"].as_u64().unwrap() as u16 };
                println!("replaying reconfigure case {rc:?}");
                run_reconfigure(&rc, &col);
            }
            Some("feedback") => {
                let c = FbCase::from_json(case).expect("case");
                run_feedback(&c, &col);
            }
            Some("setups") => {
                let c = SetupCase::from_json(case).expect("case");
                run_setups(&c, &col);
            }
            Some("failed-setups") => {
                run_failed_setups(case["n"].as_u64().unwrap() as usize, case["max_concurrent_connections"].as_u64().map(|x| x as usize), &col);
            }
            _ => {
                eprintln!("MACHINERY: unknown replay case");
                std::process::exit(2);
            }
        }
        ctx.finish(json!({"states": 1, "transitions": 1, "traces_validated_against_impl": 1, "evaluations": 1, "distinct_nontrivial": 1, "rule": "replay of a single case", "samples": [], "exhaustive": false}), &["replay"]);
    }

    // ---- part (a) -----------------------------------------------------------
    let cases = a_cases(quick);
    let a_total = cases.len() as u64;
    let a_stats = Stats::new();
    let a_skipped = AtomicU64::new(0);
    cases.par_iter().for_each(|c| {
        wd.enter(|| c.to_json());
        let r = run_a(c);
        wd.leave();
        a_stats.eval();
        match r {
            Err(p) => {
                ctx.violation(&format!("C16|a|panic|{}", panic_class(&p)), &format!("panic in the middleware stack: {p}"), c.to_json());
                a_stats.count("a.outcome.panic");
            }
            Ok(out) => {
                if out.unconstructible {
                    // the requested size cannot be met with whole records; the
                    // service then answered with the minimal response, which
                    // duplicates the `Min` case: not evaluated.
                    a_skipped.fetch_add(1, Ordering::Relaxed);
                    a_stats.count("a.outcome.size-not-constructible(skipped)");
                    return;
                }
                let (viol, label, nontrivial) = judge_a(c, &out);
                a_stats.count(&format!("a.outcome.{label}"));
                a_stats.count(&format!("a.edns.{}", c.edns.label()));
                if nontrivial {
                    a_stats.distinct(fnv(c.to_json().to_string().as_bytes()));
                }
                if !viol.is_empty() {
                    a_stats.count("a.cases-with-violation");
                }
                if let (Some(Ok(Some(fin))), true) = (out.items.first(), nontrivial) {
                    a_stats.sample(4, || json!({"case": c.to_json(), "service_octets": out.svc_bytes.as_ref().map(|b| b.len()), "final_octets": fin.len(), "outcome": label}));
                }
                col.report(viol, &c.to_json());
            }
        }
    });

    // ---- part (b) -----------------------------------------------------------
    let bound = if quick { 3 } else { 4 };
    let cap = 5_000_000u64;
    let (dg, dg_capped) = explore(bound, cap, |ch| {
        wd.enter(|| json!({"part": "dgram", "choices": ch.choices()}));
        run_dgram(ch, &col);
        wd.leave();
    });
    let (sx, sx_capped) = explore(bound, cap, |ch| {
        wd.enter(|| json!({"part": "stream", "choices": ch.choices()}));
        run_stream(ch, &col, None, None);
        wd.leave();
    });

    // ---- part (c): pipeline depth -------------------------------------------
    let max_depth = if quick { 16 } else { 64 };
    // sequential, so that the smallest failing depth is the recorded replay
    for n in 1..=max_depth {
        wd.enter(|| json!({"part": "depth", "n": n}));
        let mut ch = Chooser::default();
        run_stream(&mut ch, &col, Some(n), None);
        wd.leave();
    }

    // ---- part (f): a write fault at every octet of the response stream -------
    // three pipelined queries; the total the server writes without a fault
    let wc_total: usize = {
        let col0 = Collector { ctx: ctx.clone(), stats: Stats::new(), verbose: false };
        let mut ch = Chooser::default();
        run_stream(&mut ch, &col0, None, Some((usize::MAX, 0)));
        WRITE_CUT_TOTAL.load(Ordering::SeqCst) as usize
    };
    let wc_cases: Vec<(usize, usize)> = (0..=wc_total).flat_map(|at| (0..CUT_MODES.len()).map(move |m| (at, m))).collect();
    wc_cases.par_iter().for_each(|(at, m)| {
        wd.enter(|| json!({"part": "write-cut", "cut": at, "mode": m}));
        let mut ch = Chooser::default();
        run_stream(&mut ch, &col, None, Some((*at, *m)));
        wd.leave();
    });

    // ---- part (d): failed connection set-ups, then a fresh connection --------
    let fs_cases = failed_setup_cases(quick);
    // sequential and ascending, so that the smallest failing n is the replay
    for (n, limit) in &fs_cases {
        wd.enter(|| json!({"part": "failed-setups", "n": n}));
        run_failed_setups(*n, *limit, &col);
        wd.leave();
    }

    // ---- part (e): reconfigure of the datagram response size limit -----------
    let rc_cases = reconfigure_cases(quick);
    rc_cases.par_iter().for_each(|rc| {
        wd.enter(|| json!({"part": "reconfigure"}));
        run_reconfigure(rc, &col);
        wd.leave();
    });

    // ---- part (i): set-up futures that resolve at once / later / never / to Err --
    let su_cases = setup_cases(quick);
    su_cases.par_iter().for_each(|c| {
        wd.enter(|| c.to_json());
        run_setups(c, &col);
        wd.leave();
    });

    let h_cases = holder_cases();
    for hc in &h_cases {
        wd.enter(|| json!({"part": "holders"}));
        run_holders(hc, &col);
        wd.leave();
    }

    // ---- part (g): streams of n responses inside a transaction ---------------
    let max_txn = if quick { 24 } else { 64 };
    (1..=max_txn).into_par_iter().for_each(|n| {
        wd.enter(|| json!({"part": "transaction", "n": n}));
        let mut ch = Chooser::default();
        run_stream_txn(&mut ch, &col, None, None, Some(n));
        wd.leave();
    });

    // ---- part (h): feedback placement x queue capacity x reader ---------------
    let fb_cases = feedback_cases(quick);
    fb_cases.par_iter().for_each(|c| {
        wd.enter(|| c.to_json());
        run_feedback(c, &col);
        wd.leave();
    });

    let b_execs = su_cases.len() as u64 + fb_cases.len() as u64 + h_cases.len() as u64 + max_txn as u64 + dg.executions + sx.executions + max_depth as u64 + fs_cases.len() as u64 + rc_cases.len() as u64 + wc_cases.len() as u64;
    let evaluations = a_stats.evals() + b_execs;
    let distinct = a_stats.distinct_count() + col.stats.distinct_count();
    let mut samples = a_stats.samples();
    samples.extend(col.stats.samples());
    let exhaustive = !dg_capped && !sx_capped;
    ctx.finish(
        json!({
            "states": a_total + dg.choice_points + sx.choice_points + b_execs,
            "transitions": a_total + dg.choice_points + sx.choice_points,
            "traces_validated_against_impl": a_stats.evals() + b_execs,
            "evaluations": evaluations,
            "distinct_nontrivial": distinct,
            "rule": "(a) a case is non-trivial when the middleware changed the service's response, truncated it, or it exceeds the bound; (b) an execution is non-trivial when it has >= 1 non-default choice; (c) every depth; (d) every (n, limit) pair; (e) every (l1, l2, size, advertised) tuple; (f) every (cut, mode) pair; (h) every (layout, behaviour, queue capacity, reader) tuple; (i) every (set-up sequence, limit, command) tuple with a set-up that is not immediate; distinct by hash of the case / choice vector",
            "exhaustive": exhaustive,
            "samples": samples,
            "part_a": {
                "cases": a_total,
                "evaluated": a_stats.evals() - a_skipped.load(Ordering::Relaxed),
                "size_not_constructible_skipped": a_skipped.load(Ordering::Relaxed),
                "histogram": a_stats.counters_json(),
            },
            "part_b": {
                "deviation_bound": bound,
                "dgram": {"executions": dg.executions, "per_deviation_count": dg.per_bound, "choice_points": dg.choice_points, "max_trace": dg.max_trace, "capped": dg_capped},
                "stream": {"executions": sx.executions, "per_deviation_count": sx.per_bound, "choice_points": sx.choice_points, "max_trace": sx.max_trace, "capped": sx_capped},
                "pipeline_depths": max_depth,
                "at_limit_cases": h_cases.len(),
                "transaction_stream_lengths": max_txn,
                "feedback_cases": fb_cases.len(),
                "feedback_cases_dgram": fb_cases.iter().filter(|c| c.dgram).count(),
                "write_cut_cases": wc_cases.len(),
                "write_cut_stream_octets": wc_total,
                "reconfigure_cases": rc_cases.len(),
                "setup_future_cases": su_cases.len(),
                "failed_setup_cases": fs_cases.iter().map(|(n, l)| json!([n, l])).collect::<Vec<_>>(),
                "histogram": col.stats.counters_json(),
            },
        }),
        &[
            "every tokio::select! in dgram.rs, stream.rs and connection.rs is `biased;`, and each case runs on its own current-thread runtime with a paused clock, so task scheduling is deterministic without tokio_unstable/rng_seed; the only nondeterminism left is what the mocks answer, which is enumerated",
            "schedules covered are those of a single-threaded executor (FIFO run queue) combined with the enumerated arrival gaps, service delays and I/O readiness answers; preemption between arbitrary instructions on a multi-threaded runtime is not explored",
            "part (b) bounds: 3 request slots, one connection plus one concurrent and one later well-behaved connection, <= 3 (quick) / <= 4 (thorough) non-default choices among request kind, segmentation, service behaviour, client abort and every socket/stream answer (incl. poll_accept error and the accepted connection's set-up future resolving to Err)",
            "part (f): three pipelined queries on one connection (all three responses queued before the first is written); for EVERY octet position of the response stream the client accepts exactly that many octets and then {stops reading for 31 s (> response_write_timeout 30 s) and reads again, stops for 5 s and reads again, stops for ever, fails the write}; what the client received must be whole well-formed frames of produced responses, optionally followed by the clean head of one more frame and nothing after it; a stall shorter than the write timeout excuses nothing",
            "part (a) TCP: for every response the stack yields, StreamTarget::as_stream_slice() must be the two-octet length of the message followed by exactly the message; the service dimension includes Ok(mk_error_response()) and a last builder step that is a rolled-back failed push; part (b) services include both as behaviours, pipelined with the other requests",
            "cookies: server cookies in requests are made with the library's RFC 9018 routine (input crafting only); what is checked on cookie responses is what is checked on all: one well-formed response, ID and question echoed, within the UDP bound, TC rules; a TC bit on a response the middleware makes itself (deny list) is accepted as a deliberate retry-over-TCP signal",
            "limit-aware service: computes its push limit as (512 without OPT | negotiated hint | 65535 on TCP) - Request::num_reserved_bytes(); the middleware must then not have to truncate again, and the TC the service set must survive",
            "part (b) also chooses how the stack was assembled (MandatoryMiddlewareSvc::new / ::relaxed / cookies.enable(false)) and two more service behaviours (transaction bracket around 3 responses; Reconfigure{idle_timeout 60 s} feedback); the stream server gets the service behind an Arc (impl Service for Deref), the datagram server by value; both are built with ::new() in the exploration and with_config() in the sweeps",
            "part (d) at-limit scenario: X arriving while the server is full may be turned away (that is what the limit is for); demanded is only that once all open connections closed a fresh connection is answered, and that after reconfigure() raised the limit by one X or a fresh connection is answered; limits 1..3, accept_connections_at_max on/off, connection config set through every setter (idle 300 s, write timeout 10 s, queue 32)",
            "part (g): inside a transaction every response of the stream must arrive, also when there are more than max_queued_responses",
            "part (h): 1..3 queries pipelined in one segment on one connection; one of them (every position) is answered with k in {1,3} responses and up to two ServiceFeedback items {BeginTransaction, EndTransaction, Reconfigure(idle 5 s)} each placed on any of the 2k+1 slots {feedback-only item before response j / after the last, attached to response i with CallResult::with_feedback}; the other queries get {one response, a stream of 10 responses, (thorough) a bracketed transaction of 3}; max_queued_responses in {1, 2, default}; the client {reads promptly, reads f frames + x octets and then nothing until the driver has yielded 100 scheduler turns} (quick 3, thorough 6 stall points; thorough also a service stream that yields before every item); afterwards one more query on the same connection. Demanded: every message sent is a response the outermost service stream produced, none twice, per request in production order, whole frames only, the later query answered. A response that was produced but never sent is a violation; its class names where it stood (carrying BeginTransaction / carrying EndTransaction / between them / outside a transaction) and whether the connection's queue was full when it was produced. Queue occupancy is computed from observations only (responses handed over earlier whose frame the peer had not completely got, minus the one the blocked writer holds). A transaction is what ServiceFeedback documents: from the item carrying BeginTransaction up to and including the item carrying EndTransaction",
            "part (h): a response outside a transaction that is lost while the queue is full is the defect already on record (known finding: Connection drops a response when the queue is full and the request is not in a transaction) and is reported under that finding's signature; with a spinning in-transaction sender in another request the occupancy may be over-counted by that sender's response, which can only move a loss outside a transaction from the unexplained class to the known one",
            "part (h) datagram: the same behaviours through DgramServer (shared ServiceInvoker): every response produced is sent exactly once, in order",
            "part (e): DgramServer with limit l1 serves a request, reconfigure(l2), 1 s, a request, reconfigure(l1), 1 s, a request; l1 != l2 in {512,1232,4096,none}, EDNS 1232/4096, service sizes around every limit; the limit demanded for a request is the one configured when it is received, which is all that dgram::Config::set_max_response_size promises for reconfigure",
            "part (d): n connections whose AsyncAccept::Future resolves to Err arrive one at a time (100 ms apart), then one fresh well-behaved connection; max_concurrent_connections in {1,2,3} with n = 0..=limit+2 (quick) / limit+5 (thorough), and the default 100 with n in {1,99,100,101} (quick) / 1..=130 (thorough); a connection whose set-up failed holds no slot of the connection limit",
            "part (i): 1..=3 connections arrive 1 s apart, each with its first query already on the wire; the AsyncAccept::Future of each is one of {ready at once, Pending for 3 scheduler turns, Pending until a later event of the driver then the stream, never ready (peer stalls), Err at once, Pending until the event then Err}; x max_concurrent_connections {default 100, exactly the connections whose set-up does not fail + 1} x {no command, server started with limit 1 and reconfigure() to the real limit 1 s after the first connection} (quick: the last two dimensions only for up to two connections). 3 s after the last arrival - before the driver's event - every connection whose set-up completes unaided must have its whole, correct answer whatever the other set-ups do; after the event every established connection gets a second query and must end with exactly two answers; a fresh connection must then be answered while stalled set-ups still stall; nothing is ever written to a stream whose set-up did not complete; run() must not return before and must return within 1 s after shutdown(), also with a set-up pending for ever; a failed set-up must not keep a slot (tight limit). The exploration of part (b) also answers tcp-accept with a set-up future that is Pending for 3 turns or for ever",
            "a complete frame shorter than a DNS header, a client EOF/reset, or an environment write failure on a connection excuses missing responses on THAT connection (closing such a connection is permitted, RFC 7766 6.2.4); other connections and earlier written responses are still checked",
            "a FORMERR response with an empty question section is accepted as echoing the question (the server declares it could not parse the request)",
            "UDP bound: min(max(advertised,512), configured limit), 512 when the request carries no (or more than one) OPT; the configured limit is what DgramServer passes as UdpTransportContext hint (dgram.rs process_received_message)",
            "part (a) sizes that cannot be met with whole records (0 < size - minimal < 11) are skipped and counted",
        ],
    );
}
