//! C06 — records written in presentation format read back equal.
//!
//! Exhaustive enumeration (no sampling) of four finite spaces; every element
//! is one record that is (1) written by the real formatter
//! (`Record::display_zonefile(kind)` for the three display kinds; plain
//! `Display` is run too, but only informationally because it is not
//! documented to be zone-file syntax), (2) terminated by a newline (and,
//! on the `origin` axis, preceded by a `$ORIGIN` line), (3) read by the real
//! `zonefile::inplace::Zonefile` and (4) compared with the original.
//!
//! * `values`   — every zone-file record-data value of the shared generator
//!   `mc::rgen` for the tier (full per-field boundary products, built through
//!   the library constructors, with an independent reference wire RDATA)
//!   x 3 kinds x 2 envelopes (short owner/IN/3600; 255-octet owner/CH/2^31-1).
//! * `envelope` — every compact value of every type x every owner of the
//!   owner menu (root, 255-octet name, wildcard, mixed case, and one-label
//!   probes holding each hostile octet alone/start/middle/end/doubled/63x)
//!   x classes x TTLs x kinds x {no origin, $ORIGIN}.
//! * `fields`   — for every textual field of every type (all embedded domain
//!   names, all character strings, CAA value, SVCB alpn ids / dohpath /
//!   unknown keys): every single octet 0..=255 alone and in the middle, every
//!   hostile octet additionally at start / end / doubled / at full field
//!   length, named hostile combinations, and (thorough) every string up to
//!   length 3 over the hostile alphabet; x kinds x origin.
//! * `binary`   — every binary field (Base16/32/64 renderings, generic
//!   RFC 3597 data) with every length 0..=8, 11, 12, 20, 32, 33 (thorough:
//!   0..=70, 254..=257, 1000) x three fill patterns.
//! * `codes`    — every record type number 0..=65535 that is a data type,
//!   through the RFC 3597 generic form; every class number; every SVCB
//!   parameter key number (quick: a stated subset); TTL digit boundaries.
//! * `tokens`   — the class / TTL / type tokens between owner and data and
//!   the reader's dispatch on them: every class that has a mnemonic (IN, CH,
//!   HS, NONE, ANY and whatever else the library prints as one) and the
//!   numeric neighbours of each (CLASS0, 2, 5, 253, 256, 65535, ...) x every
//!   data type that has a mnemonic (generic data) + TYPEnnn types whose
//!   number is a class / TTL number + typed A / NS / TXT x TTLs that are also
//!   class / type numbers x the four display kinds and, assembled by the
//!   harness from the library's token writers (`ZonefileFmt` and `Display`,
//!   blank and tab separated), the other RFC 1035 layouts: class before TTL,
//!   TTL omitted (`$TTL` line), class omitted (reader's default class), both.
//! * `readers`  — every compact value x 3 envelopes x 3 kinds x origin x the
//!   11 ways of constructing / configuring / driving the reader
//!   (`From<&[u8]>`, `From<&str>`, `load`, `new`+`reserve`+
//!   `extend_from_slice` in chunks, `default`+`BufMut::put_slice`,
//!   `with_capacity`, `allow_invalid`, `set_origin`, `set_default_class`
//!   same / other+allow_invalid, the `Iterator` interface); and the same
//!   record over the `Bytes` octets type must be written as the same text.
//! * `pieces`   — the field-level presentation writers/readers the record
//!   formatter does not use: `CharStr::display_unquoted` inside
//!   hand-assembled TXT / HINFO / NAPTR lines read by the zone-file reader;
//!   `CharStr: FromStr` over `Display` and the unquoted form; `OwnedLabel:
//!   FromStr` / `from_chars` / `Display` over `Label: Display`; `FromStr` of
//!   the nine single-name record data types over their zone-file form (all
//!   over the same payload menu, exact octets expected); TXT values built
//!   with `TxtBuilder::new_bytes` + `append_u8` at the 255-octet boundaries.
//!
//! Oracle (independent of the library's own helpers): exactly one entry, a
//! record, whose owner octets, class, TTL and type are the original ones and
//! whose data is equal BOTH by the library's `==` and octet-for-octet as
//! uncompressed wire RDATA against the reference encoding written by the
//! harness / by `rgen` from the RFC layouts; and then end of file.
//!
//! Signatures: a failure explained by one of the known root causes (decided
//! by `root_cause` from the probe's focus and the reference RDATA only) gets
//! that cause's single signature, independent of type / field / kind. Any
//! other failure gets `C06|type|field-or-owner|octet class|display kind`;
//! the `values` sweep, which has no field/octet focus, uses the outcome
//! (reader message) in place of the octet class; panics are always set apart.
//! Combinations of hostile octets are attributed to the first octet whose
//! class already fails alone for the same field and kind.

use domain::base::iana::{Class, Rtype};
use domain::base::name::{FlattenInto, Name, ParsedName, ToName};
use domain::base::rdata::{ComposeRecordData, ParseRecordData, RecordData};
use domain::base::zonefile_fmt::{DisplayKind, ZonefileFmt};
use domain::base::{Record, Ttl};
use domain::rdata::ZoneRecordData;
use domain::zonefile::inplace::{Entry, Zonefile};
use mc::rgen::{self, Event, Nm, Tier as GTier, ZRd};
use mc::wire::to_wire;
use mc::*;
use octseq::Parser;
use rayon::prelude::*;
use serde_json::{json, Value as J};
use std::collections::{BTreeMap, BTreeSet};
use std::fmt::Write as _;
use std::sync::Mutex;

// ===================================================================
// The single case: format, read, compare
// ===================================================================

const KINDS: [&str; 4] = ["simple", "tabbed", "multiline", "plain-display"];
/// Kinds the property covers (plain `Display` is informational).
const GATED_KINDS: usize = 3;
const ORIGIN_LINE: &str = "$ORIGIN o.example.\n";

type Rec = Record<Nm, ZRd>;

fn format_record(rec: &Rec, kind: usize) -> Result<String, ()> {
    let mut s = String::new();
    let r = match kind {
        0 => write!(s, "{}", rec.display_zonefile(DisplayKind::Simple)),
        1 => write!(s, "{}", rec.display_zonefile(DisplayKind::Tabbed)),
        2 => write!(s, "{}", rec.display_zonefile(DisplayKind::Multiline)),
        _ => write!(s, "{}", rec),
    };
    r.map(|_| s).map_err(|_| ())
}

/// What the reader delivered for the first entry.
struct Got {
    owner: Vec<u8>,
    class: u16,
    ttl: u32,
    rtype: u16,
    eq: bool,
    wire: Option<Vec<u8>>,
}

enum First {
    Record(Got),
    Include,
    Eof,
    Err(String),
}

enum Second {
    Eof,
    Entry,
    Err(String),
}

/// The ways of constructing / configuring / driving the reader. Variant 0
/// is the plain one used by all sweeps; the `readers` sweep runs all.
const READERS: [&str; 11] = [
    "from-slice",
    "from-str",
    "load",
    "new+reserve+extend_from_slice(7-octet chunks)",
    "default+BufMut::put_slice(5-octet chunks)",
    "with_capacity(0)+extend_from_slice",
    "allow_invalid",
    "set_origin",
    "set_default_class(same)",
    "allow_invalid+set_default_class(other)",
    "Iterator::next",
];

fn make_reader(variant: usize, bytes: &[u8], rec: &Rec) -> Zonefile {
    use bytes::BufMut;
    match variant {
        1 => Zonefile::from(std::str::from_utf8(bytes).expect("formatter output is a String")),
        2 => {
            let mut rd = bytes;
            Zonefile::load(&mut rd).expect("reading from a slice cannot fail")
        }
        3 => {
            let mut z = Zonefile::new();
            for c in bytes.chunks(7) {
                z.reserve(c.len());
                z.extend_from_slice(c);
            }
            z
        }
        4 => {
            let mut z = Zonefile::default();
            for c in bytes.chunks(5) {
                if z.remaining_mut() >= c.len() {
                    z.put_slice(c);
                }
            }
            z
        }
        5 => {
            let mut z = Zonefile::with_capacity(0);
            z.extend_from_slice(bytes);
            z
        }
        6 => Zonefile::from(bytes).allow_invalid(),
        7 => {
            let mut z = Zonefile::from(bytes);
            z.set_origin(Name::<bytes::Bytes>::from_octets(bytes::Bytes::from_static(b"\x01o\x07example\x00")).expect("origin"));
            z
        }
        8 => {
            let mut z = Zonefile::from(bytes);
            z.set_default_class(rec.class());
            z
        }
        9 => {
            let mut z = Zonefile::from(bytes).allow_invalid();
            z.set_default_class(if rec.class() == Class::IN { Class::CH } else { Class::IN });
            z
        }
        _ => Zonefile::from(bytes),
    }
}

fn summarize(r: &domain::zonefile::inplace::ScannedRecord, orig: &ZRd) -> Got {
    let mut owner = Vec::new();
    let _ = r.owner().compose(&mut owner);
    let mut wire = Vec::new();
    let wire = r.data().compose_rdata(&mut wire).ok().map(|_| wire);
    Got {
        owner,
        class: r.class().to_int(),
        ttl: r.ttl().as_secs(),
        rtype: r.data().rtype().to_int(),
        eq: r.data() == orig && orig == r.data(),
        wire,
    }
}

fn read_back(variant: usize, bytes: &[u8], rec: &Rec) -> (First, Option<Second>) {
    let orig = rec.data();
    let mut z = make_reader(variant, bytes, rec);
    if variant == 10 {
        // the iterator interface: at most three items are looked at
        let mut it = z.by_ref().take(3);
        let first = match it.next() {
            Some(Ok(Entry::Record(r))) => First::Record(summarize(&r, orig)),
            Some(Ok(Entry::Include { .. })) => First::Include,
            None => First::Eof,
            Some(Err(e)) => First::Err(e.to_string()),
        };
        if matches!(first, First::Err(_) | First::Eof) {
            return (first, None);
        }
        let second = match it.next() {
            None => Second::Eof,
            Some(Ok(_)) => Second::Entry,
            Some(Err(e)) => Second::Err(e.to_string()),
        };
        return (first, Some(second));
    }
    let first = match z.next_entry() {
        Ok(Some(Entry::Record(r))) => First::Record(summarize(&r, orig)),
        Ok(Some(Entry::Include { .. })) => First::Include,
        Ok(None) => First::Eof,
        Err(e) => First::Err(e.to_string()),
    };
    if matches!(first, First::Err(_) | First::Eof) {
        // the reader documents that it must not be used after an error
        return (first, None);
    }
    let second = match z.next_entry() {
        Ok(None) => Second::Eof,
        Ok(Some(_)) => Second::Entry,
        Err(e) => Second::Err(e.to_string()),
    };
    (first, Some(second))
}

/// "12:3: message: context" -> "message: context" with numbers blanked.
fn norm_err(s: &str) -> String {
    let mut rest = s;
    for _ in 0..2 {
        if let Some((a, b)) = rest.split_once(':') {
            if a.trim().chars().all(|c| c.is_ascii_digit()) && !a.trim().is_empty() {
                rest = b;
            }
        }
    }
    blank_digits(rest.trim())
}

fn blank_digits(s: &str) -> String {
    let mut out = String::new();
    let mut in_num = false;
    for ch in s.chars() {
        if ch.is_ascii_digit() {
            if !in_num {
                out.push('#');
                in_num = true;
            }
        } else {
            in_num = false;
            out.push(ch);
        }
    }
    out.chars().take(90).collect()
}

/// Result of one case.
struct Eval {
    text: Option<String>,
    /// (coarse outcome class, detail class for the signature of panics and
    /// of the value sweep, human-readable description)
    fail: Option<(&'static str, String, String)>,
}

fn first_diff(a: &[u8], b: &[u8]) -> String {
    let n = a.iter().zip(b.iter()).take_while(|(x, y)| x == y).count();
    let show = |s: &[u8]| hex(&s[n.min(s.len())..(n + 12).min(s.len())]);
    format!("lengths {} vs {}, first difference at octet {}: read {}.. reference {}..", a.len(), b.len(), n, show(a), show(b))
}

fn eval(rec: &Rec, refwire: &[u8], kind: usize, origin: bool) -> Eval {
    eval_ex(rec, refwire, kind, origin, 0, None)
}

/// `reader`: index into `READERS`; `text`: record text assembled by the
/// harness from the library's piece writers instead of the record formatter.
fn eval_ex(rec: &Rec, refwire: &[u8], kind: usize, origin: bool, reader: usize, text: Option<&str>) -> Eval {
    let text = match text {
        Some(t) => t.to_string(),
        None => match guard(|| format_record(rec, kind)) {
            Ok(Ok(t)) => t,
            Ok(Err(())) => {
                return Eval { text: None, fail: Some(("writer-error", String::new(), "the formatter returned fmt::Error".into())) }
            }
            Err(p) => {
                return Eval {
                    text: None,
                    fail: Some(("writer-panic", blank_digits(&panic_class(&p)), format!("the formatter panicked: {p}"))),
                }
            }
        },
    };
    let mut bytes = Vec::with_capacity(text.len() + 24);
    if origin {
        bytes.extend_from_slice(ORIGIN_LINE.as_bytes());
    }
    bytes.extend_from_slice(text.as_bytes());
    bytes.push(b'\n');
    let fail = match guard(|| read_back(reader, &bytes, rec)) {
        Err(p) => Some(("reader-panic", blank_digits(&panic_class(&p)), format!("the reader panicked: {p}"))),
        Ok((first, second)) => judge(rec, refwire, first, second),
    };
    Eval { text: Some(text), fail }
}

fn judge(rec: &Rec, refwire: &[u8], first: First, second: Option<Second>) -> Option<(&'static str, String, String)> {
    let got = match first {
        First::Err(e) => return Some(("reader-error", norm_err(&e), format!("the reader rejects the text: {e}"))),
        First::Eof => return Some(("no-entry", String::new(), "the reader found no entry in the text".into())),
        First::Include => return Some(("not-a-record", String::new(), "the reader returned an $INCLUDE entry".into())),
        First::Record(g) => g,
    };
    if got.owner != rec.owner().as_slice() {
        return Some(("wrong-owner", String::new(), format!("owner read back as {} instead of {}", hex(&got.owner), hex(rec.owner().as_slice()))));
    }
    if got.class != rec.class().to_int() {
        return Some(("wrong-class", String::new(), format!("class read back as {} instead of {}", got.class, rec.class().to_int())));
    }
    if got.ttl != rec.ttl().as_secs() {
        return Some(("wrong-ttl", String::new(), format!("TTL read back as {} instead of {}", got.ttl, rec.ttl().as_secs())));
    }
    if got.rtype != rec.data().rtype().to_int() {
        return Some(("wrong-rtype", String::new(), format!("type read back as {} instead of {}", got.rtype, rec.data().rtype().to_int())));
    }
    match &got.wire {
        None => return Some(("data-uncomposable", String::new(), "the record data read back cannot be composed".into())),
        Some(w) => {
            if !got.eq {
                return Some(("data-not-equal", String::new(), format!("record data read back is not == the original; wire: {}", first_diff(w, refwire))));
            }
            if w != refwire {
                return Some((
                    "data-equal-but-octets-differ",
                    String::new(),
                    format!("record data read back is == the original but its wire RDATA differs: {}", first_diff(w, refwire)),
                ));
            }
        }
    }
    match second {
        Some(Second::Eof) | None => None,
        Some(Second::Entry) => Some(("extra-entry", String::new(), "a second entry follows the record".into())),
        Some(Second::Err(e)) => Some(("error-after-record", norm_err(&e), format!("an error follows the record: {e}"))),
    }
}

// ===================================================================
// Root causes (one signature each)
// ===================================================================

/// Octet classes the label writer is known not to escape although the
/// reader (RFC 1035 section 5.1) gives them a special meaning.
const LABEL_SPECIAL: [&str; 6] = ["dquote", "semicolon", "lparen", "rparen", "dollar", "at"];

/// Splits SVCB/HTTPS reference RDATA into its parameters.
fn svcb_params(wire: &[u8]) -> Option<Vec<(u16, &[u8])>> {
    let mut p = 2usize;
    loop {
        let l = *wire.get(p)? as usize;
        p += 1;
        if l == 0 {
            break;
        }
        p += l;
    }
    let mut out = Vec::new();
    while p < wire.len() {
        let key = u16::from_be_bytes([*wire.get(p)?, *wire.get(p + 1)?]);
        let len = u16::from_be_bytes([*wire.get(p + 2)?, *wire.get(p + 3)?]) as usize;
        let v = wire.get(p + 4..p + 4 + len)?;
        out.push((key, v));
        p += 4 + len;
    }
    Some(out)
}

/// The known root cause that explains a failing case, decided from the
/// probe's focus and from the reference RDATA alone (never from the
/// library's output). `None`: not one of the known causes.
fn root_cause(focus: &Focus, is_name: bool, rec: &Rec, wire: &[u8], coarse: &str) -> Option<String> {
    if is_name && LABEL_SPECIAL.contains(&focus.oct.as_str()) {
        return Some(format!("name-field|label-writer-does-not-escape|{}", focus.oct));
    }
    // the record-data causes below cannot explain a wrong owner, class, TTL
    // or type
    if coarse.starts_with("wrong-") {
        return None;
    }
    match rec.data().rtype().to_int() {
        64 | 65 => {
            let ps = svcb_params(wire)?;
            let get = |k: u16| ps.iter().find(|(key, _)| *key == k).map(|(_, v)| *v);
            let mut alpn_ids: Vec<&[u8]> = Vec::new();
            // the list-valued parameters all print nothing when empty
            if [0u16, 1, 4, 6, 9].iter().any(|k| get(*k).map(|v| v.is_empty()).unwrap_or(false)) {
                return Some("SVCB|empty-value-list|writer-prints-nothing(no-presentation-form)".into());
            }
            if let Some(mut v) = get(1) {
                while !v.is_empty() {
                    let l = v[0] as usize;
                    if v.len() < 1 + l {
                        break;
                    }
                    alpn_ids.push(&v[1..1 + l]);
                    v = &v[1 + l..];
                }
            }
            if alpn_ids.iter().any(|i| i.is_empty()) {
                return Some("SVCB|alpn|empty-id-has-no-presentation-form".into());
            }
            if alpn_ids.iter().any(|i| i.iter().any(|b| *b == b',' || *b == b'\\')) {
                return Some("SVCB|alpn|comma-or-backslash-in-id-needs-escapes-the-reader-refuses".into());
            }
            if let Some(m) = get(0) {
                if m.chunks(2).any(|k| k.len() == 2 && get(u16::from_be_bytes([k[0], k[1]])).is_none()) {
                    return Some("SVCB|mandatory|lists-a-key-that-is-absent(reader-rejects-per-RFC-9460)".into());
                }
            }
            if get(5).map(|v| v.is_empty()).unwrap_or(false) {
                return Some("SVCB|ech|empty-value-has-no-presentation-form".into());
            }
            let special = |b: &u8| !(0x21..=0x7E).contains(b) || matches!(*b, b'"' | b'(' | b')' | b';');
            if alpn_ids.iter().any(|i| i.iter().any(special)) {
                return Some("SVCB|alpn|writer-does-not-escape".into());
            }
            if get(7).map(|v| std::str::from_utf8(v).is_err()).unwrap_or(false) {
                return Some("SVCB|dohpath|value-is-not-UTF-8(reader-rejects-per-RFC-9461)".into());
            }
            if get(7).map(|v| v.iter().any(|b| special(b) || *b == b'\\')).unwrap_or(false) {
                return Some("SVCB|dohpath|writer-does-not-escape".into());
            }
            if ps.iter().any(|(k, v)| *k >= 10 && v.iter().any(|b| *b == b'(' || *b == b')')) {
                return Some("SVCB|unknown-param|writer-does-not-escape-parentheses".into());
            }
            if get(2).is_some() {
                return Some("SVCB|no-default-alpn|writer-spells-it-nodefaultalpn".into());
            }
            if ps.iter().any(|(k, _)| *k >= 10 && k.to_string().contains('9')) {
                return Some("SVCB|param-key|reader-key-charset-excludes-9-and-z".into());
            }
            None
        }
        45 => {
            let (gt, alg) = (*wire.get(1)?, *wire.get(2)?);
            let gwlen = match gt {
                0 => 0,
                1 => 4,
                2 => 16,
                3 => {
                    let mut p = 3usize;
                    loop {
                        let l = *wire.get(p)? as usize;
                        p += 1;
                        if l == 0 {
                            break;
                        }
                        p += l;
                    }
                    p - 3
                }
                _ => return None,
            };
            if wire.len() == 3 + gwlen && alg != 0 {
                return Some("IPSECKEY|empty-key-with-algorithm|no-presentation-form(reader-rejects-per-RFC-4025)".into());
            }
            if gt == 0 {
                return Some("IPSECKEY|gateway-none|writer-omits-the-dot".into());
            }
            None
        }
        257 => {
            if *wire.get(1)? == 0 {
                return Some("CAA|empty-tag|no-presentation-form".into());
            }
            None
        }
        50 => {
            let sl = *wire.get(4)? as usize;
            if *wire.get(5 + sl)? == 0 {
                return Some("NSEC3|empty-next-hashed-owner|no-presentation-form".into());
            }
            None
        }
        _ => None,
    }
}

// ===================================================================
// Collecting
// ===================================================================

/// Signature components of the thing a case probes.
#[derive(Clone, Debug, PartialEq, Eq, PartialOrd, Ord)]
struct Focus {
    ty: String,
    field: String,
    oct: String,
}

impl Focus {
    fn new(ty: &str, field: &str, oct: &str) -> Focus {
        Focus { ty: ty.into(), field: field.into(), oct: oct.into() }
    }
}

struct FailClass {
    count: u64,
    what: String,
    replay: J,
    key: (usize, String),
}

struct Collector {
    stats: Stats,
    fails: Mutex<BTreeMap<String, FailClass>>,
    /// plain `Display` (informational): class -> (count, example)
    info: Mutex<BTreeMap<String, (u64, String)>>,
    /// (field focus, kind) that failed in the single-octet phase
    failing_singles: Mutex<BTreeSet<(String, String, String, usize)>>,
}

struct CaseMeta<'a> {
    sweep: &'static str,
    focus: &'a Focus,
    /// include the detail class (error message) in the signature
    sig_detail: bool,
    /// the probed field is a domain name (written by the label writer)
    is_name: bool,
    note: &'a str,
}

impl Collector {
    fn new() -> Collector {
        Collector {
            stats: Stats::new(),
            fails: Mutex::new(BTreeMap::new()),
            info: Mutex::new(BTreeMap::new()),
            failing_singles: Mutex::new(BTreeSet::new()),
        }
    }

    /// Evaluate one case and file the result. Returns true if it passed.
    fn case(&self, lc: &mut Local, m: &CaseMeta, rec: &Rec, refwire: &[u8], kind: usize, origin: bool) -> bool {
        self.case_ex(lc, m, rec, refwire, kind, origin, 0, None)
    }

    #[allow(clippy::too_many_arguments)]
    fn case_ex(&self, lc: &mut Local, m: &CaseMeta, rec: &Rec, refwire: &[u8], kind: usize, origin: bool, reader: usize, text: Option<&str>) -> bool {
        let text_override = text.is_some();
        let ev = if reader == 0 && text.is_none() { eval(rec, refwire, kind, origin) } else { eval_ex(rec, refwire, kind, origin, reader, text) };
        lc.evals += 1;
        let kname = KINDS[kind];
        if let Some(t) = &ev.text {
            let mut h = fnv(t.as_bytes());
            h ^= (kind as u64 + 1).wrapping_mul(0x9E37_79B9_7F4A_7C15) ^ ((origin as u64) << 63) ^ ((reader as u64) << 48) ^ ((text.is_some() as u64) << 47);
            if ev.fail.is_none() {
                lc.distinct.push(h);
            }
        }
        match ev.fail {
            None => {
                lc.inc(format!("{}:{}:pass", m.sweep, kname));
                lc.inc(format!("type:{}:pass", m.focus.ty));
                if lc.samples.len() < 2 {
                    if let Some(t) = &ev.text {
                        if t.len() < 300 {
                            lc.samples.push(json!({"sweep": m.sweep, "kind": kname, "origin": origin, "text": t, "result": "one equal record, then EOF"}));
                        }
                    }
                }
                true
            }
            Some((coarse, detail, human)) => {
                lc.inc(format!("{}:{}:fail", m.sweep, kname));
                lc.inc(format!("outcome:{}:{}", if kind < GATED_KINDS { "gated" } else { "plain-display" }, coarse));
                // A failure explained by one of the known root causes gets
                // that cause's signature (one per cause, independent of
                // type / field / kind). Anything else: (type, field-or-owner,
                // octet class, display kind) is ONE class; the value sweep
                // has no field/octet class and uses the outcome detail
                // instead; panics are always set apart.
                let is_name = m.is_name || (m.focus.ty == "owner" && m.focus.field == "label");
                let cause = if kind < GATED_KINDS && !coarse.ends_with("panic") { root_cause(m.focus, is_name, rec, refwire, coarse) } else { None };
                let mut sig = if let Some(c) = cause {
                    format!("C06|{c}")
                } else if m.sig_detail {
                    format!("C06|{}|{}|{}|{}", m.focus.ty, m.focus.field, if detail.is_empty() { coarse.to_string() } else { format!("{coarse}:{detail}") }, kname)
                } else {
                    format!("C06|{}|{}|{}|{}", m.focus.ty, m.focus.field, m.focus.oct, kname)
                };
                if coarse.ends_with("panic") && !m.sig_detail {
                    sig.push_str(&format!("|{coarse}:{detail}"));
                }
                let text = ev.text.clone().unwrap_or_default();
                if kind >= GATED_KINDS {
                    let mut g = self.info.lock().unwrap();
                    let e = g.entry(sig).or_insert((0, String::new()));
                    e.0 += 1;
                    if e.1.is_empty() || text.len() < e.1.len() {
                        e.1 = format!("{text:?}: {human}");
                    }
                    return false;
                }
                let key = (text.len(), format!("{}\u{0}{}\u{0}{}\u{0}{}", kind, text, origin as u8, m.note));
                let mut g = self.fails.lock().unwrap();
                let better = match g.get(&sig) {
                    None => true,
                    Some(fc) => key < fc.key,
                };
                if better {
                    let mut rd = Vec::new();
                    let _ = rec.data().compose_rdata(&mut rd);
                    let shown: String = text.chars().take(400).collect();
                    let note: String = if m.note.chars().count() > 260 {
                        m.note.chars().take(120).chain(" ... ".chars()).chain(m.note.chars().skip(m.note.chars().count() - 120)).collect()
                    } else {
                        m.note.to_string()
                    };
                    let what = format!(
                        "{} [{}{}] text {:?}{}: {}",
                        note,
                        kname,
                        if origin { ", under $ORIGIN" } else { "" },
                        shown,
                        if text.len() > 400 { format!(" (+{} more)", text.len() - 400) } else { String::new() },
                        human
                    );
                    let replay = json!({
                        "sweep": m.sweep,
                        "focus": [m.focus.ty, m.focus.field, m.focus.oct],
                        "owner": hex(rec.owner().as_slice()),
                        "class": rec.class().to_int(),
                        "ttl": rec.ttl().as_secs(),
                        "rtype": rec.data().rtype().to_int(),
                        "rdata": hex(refwire),
                        "kind": kind,
                        "origin": origin,
                        "reader": reader,
                        "harness_text": text_override,
                        "text": if text.len() <= 4096 || text_override { J::String(text.clone()) } else { J::Null },
                    });
                    let count = g.get(&sig).map(|f| f.count).unwrap_or(0);
                    g.insert(sig, FailClass { count: count + 1, what, replay, key });
                } else if let Some(fc) = g.get_mut(&sig) {
                    fc.count += 1;
                }
                false
            }
        }
    }

    fn merge(&self, lc: Local) {
        self.stats.evaluations.fetch_add(lc.evals, std::sync::atomic::Ordering::Relaxed);
        self.stats.merge_counts(&lc.counts);
        self.stats.distinct_many(lc.distinct);
        for s in lc.samples {
            self.stats.sample(12, || s);
        }
    }
}

#[derive(Default)]
struct Local {
    evals: u64,
    counts: BTreeMap<String, u64>,
    distinct: Vec<u64>,
    samples: Vec<J>,
}

impl Local {
    fn inc(&mut self, k: String) {
        *self.counts.entry(k).or_insert(0) += 1;
    }
    fn add(&mut self, k: String, n: u64) {
        *self.counts.entry(k).or_insert(0) += n;
    }
}

// ===================================================================
// Menus
// ===================================================================

fn name_of(labels: &[&[u8]]) -> Nm {
    let l: Vec<Vec<u8>> = labels.iter().map(|l| l.to_vec()).collect();
    Name::from_octets(to_wire(&l)).expect("menu name is valid")
}

/// The hostile octets of the DESIGN section (plus CR, '#', ',', '=', '*').
const HOSTILE: [u8; 14] = [b' ', b'"', b';', b'(', b')', b'\\', b'.', b'@', b'$', 0x00, 0x7F, 0xFF, b'\n', b'\t'];

fn oct_class(b: u8) -> &'static str {
    match b {
        b' ' => "space",
        b'"' => "dquote",
        b';' => "semicolon",
        b'(' => "lparen",
        b')' => "rparen",
        b'\\' => "backslash",
        b'.' => "dot",
        b'@' => "at",
        b'$' => "dollar",
        0x00 => "nul",
        0x7F => "del",
        0xFF => "ff",
        b'\n' => "lf",
        b'\t' => "tab",
        b'\r' => "cr",
        b'#' => "hash",
        b',' => "comma",
        b'=' => "equals",
        b'*' => "star",
        b'0'..=b'9' => "digit",
        0x21..=0x7E => "printable",
        0x01..=0x1F => "control",
        _ => "high",
    }
}

/// One textual payload with the octet class it probes.
#[derive(Clone)]
struct Payload {
    oct: String,
    pos: &'static str,
    bytes: Vec<u8>,
    /// part of the single-octet phase (false: combination phase)
    single: bool,
}

/// Payloads for a field of at most `max` octets (`min1`: not empty).
fn payloads(max: usize, min1: bool, thorough: bool) -> Vec<Payload> {
    let mut v = Vec::new();
    let mut p = |oct: &str, pos: &'static str, bytes: Vec<u8>, single: bool| {
        if bytes.len() <= max && !(min1 && bytes.is_empty()) {
            v.push(Payload { oct: oct.to_string(), pos, bytes, single });
        }
    };
    p("empty", "empty", vec![], true);
    p("printable", "plain", b"Ab".to_vec(), true);
    for b in 0..=255u8 {
        p(oct_class(b), "alone", vec![b], true);
        p(oct_class(b), "middle", vec![b'x', b, b'y'], true);
    }
    let mut extra = HOSTILE.to_vec();
    extra.extend_from_slice(b"\r#,=*0");
    for &b in &extra {
        p(oct_class(b), "start", vec![b, b'x'], true);
        p(oct_class(b), "end", vec![b'x', b], true);
        p(oct_class(b), "doubled", vec![b, b], true);
        p(oct_class(b), "full", vec![b; max.min(255)], true);
    }
    // named combinations (class = the named interaction)
    let named: [(&str, &[u8]); 14] = [
        ("backslash", b"\\1"),
        ("backslash", b"\\123"),
        ("backslash", b"\\#"),
        ("backslash", b"\\\""),
        ("dquote", b"a\" b"),
        ("dquote", b"\"a\""),
        ("semicolon", b"a ;b"),
        ("dollar", b"$ORIGIN"),
        ("dollar", b"$TTL"),
        ("dollar", b"$INCLUDE"),
        ("lparen", b"(a)"),
        ("rparen", b")("),
        ("at", b"@"),
        ("hash", b"\\# 0"),
    ];
    for (oct, b) in named {
        p(oct, "named", b.to_vec(), false);
    }
    if thorough {
        // every string of length 2 and 3 over the hostile alphabet
        let alpha: [u8; 14] = [b' ', b'"', b';', b'(', b')', b'\\', b'.', b'@', b'$', 0x00, b'\n', b'\t', b'x', b'1'];
        for n in 2..=3usize {
            let mut s = Vec::new();
            for k in 0..pow(alpha.len(), n) {
                nth_string(&alpha, n, k, &mut s);
                p("combo", "combo", s.clone(), false);
            }
        }
    }
    v
}

/// One owner of the owner menu.
struct OwnerCase {
    name: Nm,
    focus: Focus,
    desc: String,
    /// the probing label, if the owner is a hostile-octet probe
    payload: Option<Payload>,
    /// member of the reduced menu crossed with all values/classes/TTLs
    reduced: bool,
}

/// Owner menu.
fn owner_menu(thorough: bool) -> Vec<OwnerCase> {
    let mut v: Vec<OwnerCase> = Vec::new();
    let mut base = |name: Nm, field: &str, oct: &str, desc: String| {
        v.push(OwnerCase { name, focus: Focus::new("owner", field, oct), desc, payload: None, reduced: true })
    };
    for s in &rgen::name_specs() {
        base(s.name(), s.tag, "-", format!("owner {}", s.tag));
    }
    base(name_of(&[b"*", b"a"]), "wildcard", "star", "owner *.a.".into());
    base(name_of(&[b"*"]), "wildcard", "star", "owner *.".into());
    base(name_of(&[b"a", b"B"]), "mixed-case", "-", "owner a.B.".into());
    base(name_of(&[&[b'X'; 63]]), "label63", "-", "owner X{63}.".into());
    // 255-octet names made of one hostile octet only
    for &b in &[0xFFu8, b'"', b'.', b'\\'] {
        base(name_of(&[&[b; 63], &[b; 63], &[b; 63], &[b; 61]]), "label", oct_class(b), format!("255-octet owner of octet {b:#04x} only"));
    }
    for p in payloads(63, true, thorough) {
        let f = Focus::new("owner", "label", &p.oct);
        let d = format!("owner label {} ({}, {})", hex(&p.bytes), p.oct, p.pos);
        let reduced = p.single && p.pos == "alone" && HOSTILE.contains(&p.bytes[0]);
        // as first label below z., as the only label, as the last label
        v.push(OwnerCase { name: name_of(&[&p.bytes, b"z"]), focus: f.clone(), desc: format!("{d} + .z."), payload: Some(p.clone()), reduced });
        if p.single {
            v.push(OwnerCase { name: name_of(&[&p.bytes]), focus: f.clone(), desc: format!("{d} alone"), payload: Some(p.clone()), reduced: false });
            v.push(OwnerCase { name: name_of(&[b"z", &p.bytes]), focus: f.clone(), desc: format!("z. + {d}"), payload: Some(p.clone()), reduced: false });
        }
    }
    v
}

// ===================================================================
// Building values from reference wire (fields / binary sweeps, replay)
// ===================================================================

/// Library value for reference RDATA, through the library's parser; checked
/// to compose back to exactly the reference (else: not a usable case).
fn value_from_wire(rtype: u16, wire: &[u8]) -> Result<ZRd, String> {
    let r = guard(|| -> Result<ZRd, String> {
        let mut p = Parser::from_ref(wire);
        let z = ZoneRecordData::<&[u8], ParsedName<&[u8]>>::parse_rdata(Rtype::from_int(rtype), &mut p)
            .map_err(|e| format!("parse_rdata: {e}"))?
            .ok_or("parse_rdata returned None")?;
        if p.remaining() != 0 {
            return Err("octets left unparsed".into());
        }
        let z: ZRd = z.try_flatten_into().map_err(|_: std::convert::Infallible| String::new())?;
        let mut back = Vec::new();
        z.compose_rdata(&mut back).map_err(|_| "append")?;
        if back != wire {
            return Err("compose(parse(wire)) != wire".into());
        }
        Ok(z)
    });
    match r {
        Ok(r) => r,
        Err(p) => Err(format!("panic: {p}")),
    }
}

#[derive(Clone, Copy, PartialEq, Eq)]
enum FK {
    /// the payload is a label of a domain name (builder gets the name wire)
    Name,
    /// a character string (<= 255 octets)
    CharStr,
    /// an opaque text-like value (no length bound below the RDATA limit)
    Opaque,
}

struct FieldDef {
    ty: &'static str,
    rtype: u16,
    field: &'static str,
    fk: FK,
    build: Box<dyn Fn(&[u8]) -> Vec<u8> + Send + Sync>,
}

fn cs_wire(b: &[u8]) -> Vec<u8> {
    cs(b)
}

fn cs(b: &[u8]) -> Vec<u8> {
    let mut v = vec![b.len() as u8];
    v.extend_from_slice(b);
    v
}

fn cat(parts: &[&[u8]]) -> Vec<u8> {
    parts.concat()
}

fn svc_param(key: u16, value: &[u8]) -> Vec<u8> {
    let mut v = key.to_be_bytes().to_vec();
    v.extend_from_slice(&(value.len() as u16).to_be_bytes());
    v.extend_from_slice(value);
    v
}

fn field_defs() -> Vec<FieldDef> {
    let mz: Vec<u8> = to_wire(&[b"m".to_vec(), b"z".to_vec()]);
    let mut v: Vec<FieldDef> = Vec::new();
    macro_rules! f {
        ($ty:expr, $rt:expr, $field:expr, $fk:expr, $b:expr) => {
            v.push(FieldDef { ty: $ty, rtype: $rt, field: $field, fk: $fk, build: Box::new($b) })
        };
    }
    for (ty, rt) in [("NS", 2u16), ("MD", 3), ("MF", 4), ("CNAME", 5), ("MB", 7), ("MG", 8), ("MR", 9), ("PTR", 12), ("DNAME", 39)] {
        f!(ty, rt, "name", FK::Name, |n: &[u8]| n.to_vec());
    }
    for (ty, rt, a, b) in [("MINFO", 14u16, "rmailbx", "emailbx"), ("RP", 17, "mbox", "txt")] {
        let m = mz.clone();
        f!(ty, rt, a, FK::Name, move |n: &[u8]| cat(&[n, &m]));
        let m = mz.clone();
        f!(ty, rt, b, FK::Name, move |n: &[u8]| cat(&[&m, n]));
    }
    f!("MX", 15, "exchange", FK::Name, |n: &[u8]| cat(&[&[0, 10], n]));
    let soa_tail: Vec<u8> = [1u32, 2, 3, 4, 5].iter().flat_map(|x| x.to_be_bytes()).collect();
    {
        let (m, t) = (mz.clone(), soa_tail.clone());
        f!("SOA", 6, "mname", FK::Name, move |n: &[u8]| cat(&[n, &m, &t]));
        let (m, t) = (mz.clone(), soa_tail.clone());
        f!("SOA", 6, "rname", FK::Name, move |n: &[u8]| cat(&[&m, n, &t]));
    }
    f!("SRV", 33, "target", FK::Name, |n: &[u8]| cat(&[&[0, 1, 0, 2, 0, 3], n]));
    f!("NAPTR", 35, "replacement", FK::Name, |n: &[u8]| cat(&[&[0, 1, 0, 2], &cs(b"u"), &cs(b"s"), &cs(b"r"), n]));
    f!("RRSIG", 46, "signer", FK::Name, |n: &[u8]| {
        cat(&[&[0, 1, 8, 2], &3600u32.to_be_bytes(), &1_700_000_000u32.to_be_bytes(), &1_600_000_000u32.to_be_bytes(), &[0x12, 0x34], n, &[1, 2, 3, 4]])
    });
    f!("NSEC", 47, "next", FK::Name, |n: &[u8]| cat(&[n, &[0, 1, 0x40]]));
    f!("SVCB", 64, "target", FK::Name, |n: &[u8]| cat(&[&[0, 1], n]));
    f!("HTTPS", 65, "target", FK::Name, |n: &[u8]| cat(&[&[0, 1], n, &svc_param(3, &[1, 187])]));
    f!("IPSECKEY", 45, "gateway", FK::Name, |n: &[u8]| cat(&[&[10, 3, 2], n, &[1, 2, 3]]));
    // character strings
    f!("TXT", 16, "string", FK::CharStr, |s: &[u8]| cs(s));
    f!("TXT", 16, "string[1]of3", FK::CharStr, |s: &[u8]| cat(&[&cs(b"a"), &cs(s), &cs(b"b")]));
    f!("HINFO", 13, "cpu", FK::CharStr, |s: &[u8]| cat(&[&cs(s), &cs(b"os")]));
    f!("HINFO", 13, "os", FK::CharStr, |s: &[u8]| cat(&[&cs(b"cpu"), &cs(s)]));
    let root = [0u8];
    f!("NAPTR", 35, "flags", FK::CharStr, move |s: &[u8]| cat(&[&[0, 1, 0, 2], &cs(s), &cs(b"s"), &cs(b"r"), &root]));
    f!("NAPTR", 35, "services", FK::CharStr, move |s: &[u8]| cat(&[&[0, 1, 0, 2], &cs(b"u"), &cs(s), &cs(b"r"), &root]));
    f!("NAPTR", 35, "regexp", FK::CharStr, move |s: &[u8]| cat(&[&[0, 1, 0, 2], &cs(b"u"), &cs(b"s"), &cs(s), &root]));
    f!("CAA", 257, "value", FK::Opaque, |s: &[u8]| cat(&[&[0], &cs(b"issue"), s]));
    f!("SVCB", 64, "alpn-id", FK::CharStr, |s: &[u8]| cat(&[&[0, 1, 0], &svc_param(1, &cs(s))]));
    f!("SVCB", 64, "alpn-id[0]of2", FK::CharStr, |s: &[u8]| cat(&[&[0, 1, 0], &svc_param(1, &cat(&[&cs(s), &cs(b"h2")]))]));
    f!("HTTPS", 65, "alpn-id", FK::CharStr, |s: &[u8]| cat(&[&[0, 1, 0], &svc_param(1, &cs(s))]));
    f!("SVCB", 64, "dohpath", FK::Opaque, |s: &[u8]| cat(&[&[0, 1, 0], &svc_param(7, s)]));
    f!("SVCB", 64, "key65280", FK::Opaque, |s: &[u8]| cat(&[&[0, 1, 0], &svc_param(65280, s)]));
    f!("SVCB", 64, "key65280+port", FK::Opaque, |s: &[u8]| cat(&[&[0, 1, 0], &svc_param(3, &[0, 53]), &svc_param(65280, s)]));
    v
}

/// Binary fields: (type, rtype, field, builder from the field's octets).
fn binary_defs() -> Vec<FieldDef> {
    let mut v: Vec<FieldDef> = Vec::new();
    macro_rules! f {
        ($ty:expr, $rt:expr, $field:expr, $b:expr) => {
            v.push(FieldDef { ty: $ty, rtype: $rt, field: $field, fk: FK::Opaque, build: Box::new($b) })
        };
    }
    for (ty, rt) in [("DS", 43u16), ("CDS", 59)] {
        f!(ty, rt, "digest", |d: &[u8]| cat(&[&[0x12, 0x34, 8, 2], d]));
    }
    for (ty, rt) in [("DNSKEY", 48u16), ("CDNSKEY", 60)] {
        f!(ty, rt, "key", |d: &[u8]| cat(&[&[1, 1, 3, 8], d]));
    }
    f!("RRSIG", 46, "signature", |d: &[u8]| {
        cat(&[&[0, 1, 8, 2], &3600u32.to_be_bytes(), &1_700_000_000u32.to_be_bytes(), &1_600_000_000u32.to_be_bytes(), &[0x12, 0x34], &[1, b'z', 0], d])
    });
    f!("NSEC3", 50, "salt", |d: &[u8]| cat(&[&[1, 0, 0, 2], &cs(d), &cs(&[7u8; 20]), &[0, 1, 0x40]]));
    f!("NSEC3", 50, "next-hash", |d: &[u8]| cat(&[&[1, 0, 0, 2], &cs(&[0xab]), &cs(d), &[0, 1, 0x40]]));
    f!("NSEC3", 50, "next-hash(empty-bitmap)", |d: &[u8]| cat(&[&[1, 0, 0, 2], &cs(&[0xab]), &cs(d)]));
    f!("NSEC3PARAM", 51, "salt", |d: &[u8]| cat(&[&[1, 0, 0, 2], &cs(d)]));
    f!("TLSA", 52, "data", |d: &[u8]| cat(&[&[3, 1, 1], d]));
    f!("SSHFP", 44, "fingerprint", |d: &[u8]| cat(&[&[4, 2], d]));
    f!("OPENPGPKEY", 61, "key", |d: &[u8]| d.to_vec());
    f!("ZONEMD", 63, "digest", |d: &[u8]| cat(&[&[0, 0, 0, 9, 1, 1], d]));
    f!("IPSECKEY", 45, "key(no-gateway)", |d: &[u8]| cat(&[&[10, 0, 2], d]));
    f!("IPSECKEY", 45, "key(v4-gateway)", |d: &[u8]| cat(&[&[10, 1, 2, 192, 0, 2, 1], d]));
    f!("SVCB", 64, "ech", |d: &[u8]| cat(&[&[0, 1, 0], &svc_param(5, d)]));
    f!("CAA", 257, "value", |d: &[u8]| cat(&[&[128], &cs(b"issue"), d]));
    f!("TXT", 16, "string", |d: &[u8]| cs(d));
    for (ty, rt) in [("TYPE65280", 65280u16), ("TYPE99", 99), ("TYPE65535", 65535)] {
        f!(ty, rt, "data", |d: &[u8]| d.to_vec());
    }
    v
}

// ===================================================================
// Sweeps
// ===================================================================

const KIND_RANGE: std::ops::Range<usize> = 0..4;

/// `values`: every generator value of the tier.
fn sweep_values(col: &Collector, tier: GTier) {
    let gens: Vec<rgen::TypeGen> = rgen::generators().into_iter().filter(|g| g.zone).collect();
    let nshards = 64usize;
    let jobs: Vec<(usize, usize)> = (0..gens.len()).flat_map(|g| (0..nshards).map(move |s| (g, s))).collect();
    let env0 = (name_of(&[b"a"]), Class::IN, 3600u32);
    let env1 = (rgen::name_specs()[3].name(), Class::CH, 0x7FFF_FFFFu32);
    jobs.par_iter().for_each(|&(gi, sh)| {
        let g = gens[gi];
        let mut lc = Local::default();
        let focus = Focus::new(g.mnemonic, "value", "-");
        g.run(tier, sh, nshards, &mut |ev| match ev {
            Event::Value(v) => {
                let z: Result<ZRd, rgen::Rd> = v.data.into();
                let z = match z {
                    Ok(z) => z,
                    Err(_) => {
                        lc.inc(format!("values:{}:not-zone-data", g.mnemonic));
                        return;
                    }
                };
                lc.inc(format!("values:{}:generated", g.mnemonic));
                let note = format!("value {}", v.desc);
                let m = CaseMeta { sweep: "values", focus: &focus, sig_detail: true, is_name: false, note: &note };
                let rec0 = Record::new(env0.0.clone(), env0.1, Ttl::from_secs(env0.2), z);
                let mut ok0 = [true; 4];
                for k in KIND_RANGE {
                    ok0[k] = col.case(&mut lc, &m, &rec0, &v.wire, k, false);
                }
                let z = rec0.into_data();
                let rec1 = Record::new(env1.0.clone(), env1.1, Ttl::from_secs(env1.2), z);
                let f1 = Focus::new(g.mnemonic, "value+long-owner/CH/maxttl", "-");
                let m1 = CaseMeta { sweep: "values-env1", focus: &f1, sig_detail: true, is_name: false, note: &note };
                for k in KIND_RANGE {
                    if ok0[k] {
                        col.case(&mut lc, &m1, &rec1, &v.wire, k, true);
                    } else {
                        lc.inc("values-env1:skipped-baseline-fails".into());
                    }
                }
            }
            Event::Refused { .. } => lc.inc(format!("values:{}:constructor-refused", g.mnemonic)),
            Event::AcceptedUnrepresentable { .. } => lc.inc(format!("values:{}:accepted-unrepresentable(C05)", g.mnemonic)),
            Event::CtorPanic { .. } => lc.inc(format!("values:{}:constructor-panic(C05)", g.mnemonic)),
        });
        col.merge(lc);
    });
}

/// Attribution of a combination payload: the class of the first octet that
/// already fails alone for this (type, field, kind); else a combination
/// class of its own (a new interaction).
fn attribute(col: &Collector, ty: &str, field: &str, p: &Payload, kind: usize) -> String {
    if p.single {
        return p.oct.clone();
    }
    let fs = col.failing_singles.lock().unwrap();
    let hit = p.bytes.iter().map(|b| oct_class(*b)).find(|c| fs.contains(&(ty.to_string(), field.to_string(), c.to_string(), kind)));
    match hit {
        Some(c) => c.to_string(),
        None => {
            let mut cl: Vec<&str> = p.bytes.iter().map(|b| oct_class(*b)).collect();
            cl.sort();
            cl.dedup();
            format!("combo:{}", cl.join("+"))
        }
    }
}

/// `envelope`: (a) every owner x probe values x kinds x origin;
/// (b) compact values x reduced owner menu x classes x TTLs x kinds x origin.
fn sweep_envelope(col: &Collector, thorough: bool) {
    let (vals, _) = rgen::values_ex(GTier::Compact);
    let vals: Vec<(rgen::Value, ZRd)> = vals
        .into_iter()
        .filter_map(|v| {
            let z: Result<ZRd, rgen::Rd> = v.data.clone().into();
            z.ok().map(|z| (v, z))
        })
        .collect();
    let base_owner = name_of(&[b"a"]);
    let mut classes = vec![Class::IN, Class::CH, Class::HS, Class::from_int(4660)];
    if thorough {
        // the remaining classes with a mnemonic (the `tokens` sweep crosses
        // every class with every type / TTL / layout in both tiers)
        classes.extend([Class::from_int(254), Class::from_int(255), Class::from_int(0), Class::from_int(65535)]);
    }
    let mut ttls = vec![0u32, 1, 3600, 0x7FFF_FFFF];
    // pre-pass: each class / TTL alone on the first value
    {
        let mut lc = Local::default();
        let (v0, z0) = &vals[0];
        classes.retain(|c| {
            let f = Focus::new("class", class_cat(c.to_int()), "-");
            let note = format!("class {} on {}", c.to_int(), v0.desc);
            let m = CaseMeta { sweep: "envelope-class", focus: &f, sig_detail: true, is_name: false, note: &note };
            let rec = Record::new(base_owner.clone(), *c, Ttl::from_secs(3600), z0.clone());
            (0..GATED_KINDS).fold(true, |ok, k| col.case(&mut lc, &m, &rec, &v0.wire, k, false) && ok)
        });
        ttls.retain(|t| {
            let f = Focus::new("ttl", &t.to_string(), "-");
            let note = format!("TTL {t} on {}", v0.desc);
            let m = CaseMeta { sweep: "envelope-ttl", focus: &f, sig_detail: true, is_name: false, note: &note };
            let rec = Record::new(base_owner.clone(), Class::IN, Ttl::from_secs(*t), z0.clone());
            (0..GATED_KINDS).fold(true, |ok, k| col.case(&mut lc, &m, &rec, &v0.wire, k, false) && ok)
        });
        lc.add("envelope:classes-in-product".into(), classes.len() as u64);
        lc.add("envelope:ttls-in-product".into(), ttls.len() as u64);
        col.merge(lc);
    }
    // baselines: every compact value with the plain envelope
    let baseline: Vec<[bool; 4]> = vals
        .par_iter()
        .map(|(v, z)| {
            let mut lc = Local::default();
            let fv = Focus::new(v.mnemonic, "value", "-");
            let note = format!("compact value {}", v.desc);
            let m = CaseMeta { sweep: "envelope-baseline", focus: &fv, sig_detail: true, is_name: false, note: &note };
            let rec = Record::new(base_owner.clone(), Class::IN, Ttl::from_secs(3600), z.clone());
            let mut ok = [true; 4];
            for k in KIND_RANGE {
                ok[k] = col.case(&mut lc, &m, &rec, &v.wire, k, false);
            }
            col.merge(lc);
            ok
        })
        .collect();
    let owners = owner_menu(thorough);
    // probe values for the owner sweep: the first value of a few types whose
    // baseline passes in all gated kinds (address, name, quoted string,
    // generic data)
    let probes: Vec<usize> = ["A", "NS", "TXT", "TYPE65280"]
        .iter()
        .filter_map(|t| (0..vals.len()).find(|&i| vals[i].0.mnemonic == *t && baseline[i][..GATED_KINDS].iter().all(|b| *b)))
        .collect();
    {
        let mut lc = Local::default();
        lc.add("envelope:owners".into(), owners.len() as u64);
        lc.add("envelope:owners-reduced-menu".into(), owners.iter().filter(|o| o.reduced).count() as u64);
        lc.add("envelope:compact-values".into(), vals.len() as u64);
        lc.add("envelope:probe-values".into(), probes.len() as u64);
        col.merge(lc);
    }
    // (a) every owner; single-octet probes first so that combinations can be
    // attributed
    for phase_single in [true, false] {
        owners.par_iter().filter(|o| o.payload.as_ref().map(|p| p.single).unwrap_or(true) == phase_single).for_each(|o| {
            let mut lc = Local::default();
            for &vi in &probes {
                let (v, z) = &vals[vi];
                let rec = Record::new(o.name.clone(), Class::IN, Ttl::from_secs(3600), z.clone());
                let note = format!("{}, data {}", o.desc, v.desc);
                for k in KIND_RANGE {
                    let focus = match &o.payload {
                        Some(p) => Focus::new("owner", "label", &attribute(col, "owner", "label", p, k)),
                        None => o.focus.clone(),
                    };
                    let m = CaseMeta { sweep: "envelope-owners", focus: &focus, sig_detail: false, is_name: false, note: &note };
                    for origin in [false, true] {
                        let ok = col.case(&mut lc, &m, &rec, &v.wire, k, origin);
                        if !ok && phase_single {
                            col.failing_singles.lock().unwrap().insert(("owner".into(), "label".into(), focus.oct.clone(), k));
                        }
                    }
                }
            }
            col.merge(lc);
        });
    }
    // (b) the full product over the reduced owner menu
    let reduced: Vec<&OwnerCase> = owners.iter().filter(|o| o.reduced).collect();
    let jobs: Vec<(usize, usize)> = (0..vals.len()).flat_map(|vi| (0..reduced.len()).map(move |oi| (vi, oi))).collect();
    jobs.par_iter().for_each(|&(vi, oi)| {
        let mut lc = Local::default();
        let (v, z) = &vals[vi];
        let o = reduced[oi];
        for &class in &classes {
            for &ttl in &ttls {
                let rec = Record::new(o.name.clone(), class, Ttl::from_secs(ttl), z.clone());
                let note = format!("{}, class {class}, TTL {ttl}, data {}", o.desc, v.desc);
                let m = CaseMeta { sweep: "envelope", focus: &o.focus, sig_detail: false, is_name: false, note: &note };
                for k in KIND_RANGE {
                    if !baseline[vi][k] {
                        lc.add("envelope:skipped-baseline-fails".into(), 2);
                        continue;
                    }
                    for origin in [false, true] {
                        col.case(&mut lc, &m, &rec, &v.wire, k, origin);
                    }
                }
            }
        }
        col.merge(lc);
    });
}

/// `fields`: hostile octets in every textual field.
fn sweep_fields(col: &Collector, thorough: bool) {
    let defs = field_defs();
    let owner = name_of(&[b"a"]);
    for phase_single in [true, false] {
        defs.par_iter().for_each(|d| {
            let mut lc = Local::default();
            let (max, min1) = match d.fk {
                FK::Name => (63, true),
                FK::CharStr => (255, false),
                FK::Opaque => (255, false),
            };
            for p in payloads(max, min1, thorough).into_iter().filter(|p| p.single == phase_single) {
                // the RDATA variants for this payload
                let mut variants: Vec<(String, Vec<u8>)> = Vec::new();
                match d.fk {
                    FK::Name => {
                        let l = p.bytes.clone();
                        variants.push(("first label of <l>.z.".into(), (d.build)(&to_wire(&[l.clone(), b"z".to_vec()]))));
                        if p.single {
                            variants.push(("only label".into(), (d.build)(&to_wire(&[l.clone()]))));
                            variants.push(("last label of z.<l>.".into(), (d.build)(&to_wire(&[b"z".to_vec(), l.clone()]))));
                        }
                    }
                    _ => variants.push((String::new(), (d.build)(&p.bytes))),
                }
                for (vdesc, wire) in variants {
                    let z = match value_from_wire(d.rtype, &wire) {
                        Ok(z) => z,
                        Err(e) => {
                            lc.inc(format!("fields:{}.{}:not-a-library-value({})", d.ty, d.field, blank_digits(&e)));
                            continue;
                        }
                    };
                    lc.inc(format!("fields:{}.{}:values", d.ty, d.field));
                    let rec = Record::new(owner.clone(), Class::IN, Ttl::from_secs(3600), z);
                    for k in KIND_RANGE {
                        let oct = attribute(col, d.ty, d.field, &p, k);
                        let focus = Focus::new(d.ty, d.field, &oct);
                        let note = format!("{} {} = {} ({}, {}) {}", d.ty, d.field, hex(&p.bytes), p.oct, p.pos, vdesc);
                        let m = CaseMeta { sweep: "fields", focus: &focus, sig_detail: false, is_name: d.fk == FK::Name, note: &note };
                        for origin in [false, true] {
                            let ok = col.case(&mut lc, &m, &rec, &wire, k, origin);
                            if !ok && p.single {
                                col.failing_singles.lock().unwrap().insert((d.ty.to_string(), d.field.to_string(), p.oct.clone(), k));
                            }
                        }
                    }
                }
            }
            col.merge(lc);
        });
    }
}

/// `binary`: every binary field at every small length.
fn sweep_binary(col: &Collector, thorough: bool) {
    let defs = binary_defs();
    let owner = name_of(&[b"a"]);
    let mut lens: Vec<usize> = (0..=8).collect();
    lens.extend([11, 12, 20, 32, 33]);
    if thorough {
        lens.extend(34..=70);
        lens.extend([254, 255, 256, 257, 1000]);
    }
    defs.par_iter().for_each(|d| {
        let mut lc = Local::default();
        for &n in &lens {
            for (pname, bytes) in [("fill", rgen::fill(n, 3)), ("ff", vec![0xFFu8; n]), ("zero", vec![0u8; n])] {
                if n == 0 && pname != "fill" {
                    continue;
                }
                let wire = (d.build)(&bytes);
                let z = match value_from_wire(d.rtype, &wire) {
                    Ok(z) => z,
                    Err(e) => {
                        lc.inc(format!("binary:{}.{}:not-a-library-value({})", d.ty, d.field, blank_digits(&e)));
                        continue;
                    }
                };
                lc.inc(format!("binary:{}.{}:values", d.ty, d.field));
                let focus = Focus::new(d.ty, d.field, if n == 0 { "empty" } else { "binary" });
                let note = format!("{} {} of {} octets ({})", d.ty, d.field, n, pname);
                let m = CaseMeta { sweep: "binary", focus: &focus, sig_detail: false, is_name: false, note: &note };
                let rec = Record::new(owner.clone(), Class::IN, Ttl::from_secs(3600), z);
                for k in KIND_RANGE {
                    for origin in [false, true] {
                        col.case(&mut lc, &m, &rec, &wire, k, origin);
                    }
                }
            }
        }
        col.merge(lc);
    });
}

/// `codes`: every record type number through the RFC 3597 generic form,
/// every class number, every SVCB parameter key number, and TTL digit
/// boundaries.
fn sweep_codes(col: &Collector, thorough: bool) {
    use domain::base::rdata::UnknownRecordData;
    let owner = name_of(&[b"a"]);
    // record types that are not data types (RFC 6895 section 3.1: Q and Meta
    // types) cannot appear in a zone file: not gated, only counted
    let not_zone_type = |t: u16| t == 0 || t == 41 || (128..=255).contains(&t);
    let chunks: Vec<u32> = (0..256).collect();
    chunks.par_iter().for_each(|&c| {
        let mut lc = Local::default();
        for t in (c * 256)..((c + 1) * 256) {
            let t = t as u16;
            if not_zone_type(t) {
                lc.inc("codes:rtype:skipped-q-or-meta-type".into());
                continue;
            }
            let data = vec![0xab, t as u8];
            let z = match UnknownRecordData::from_octets(Rtype::from_int(t), data.clone()) {
                Ok(u) => ZRd::Unknown(u),
                Err(_) => continue,
            };
            let rec = Record::new(owner.clone(), Class::IN, Ttl::from_secs(3600), z);
            // one class per mnemonic, one for all TYPEnnn spellings
            let tn = Rtype::from_int(t).to_string();
            let focus = Focus::new("rtype", "generic-form", if tn.starts_with("TYPE") { "TYPEnnn" } else { &tn });
            let note = format!("type {t} with RFC 3597 generic data");
            let m = CaseMeta { sweep: "codes-rtype", focus: &focus, sig_detail: false, is_name: false, note: &note };
            for k in KIND_RANGE {
                col.case(&mut lc, &m, &rec, &data, k, false);
            }
        }
        // classes: every number, the ones with a mnemonic (IN, CH, HS and
        // the RFC 2136 / RFC 1035 classes NONE 254 and ANY 255) included -
        // the property quantifies over all classes
        for cl in (c * 256)..((c + 1) * 256) {
            let cl = cl as u16;
            let wire = vec![192, 0, 2, 1];
            let z = value_from_wire(1, &wire).expect("A");
            let rec = Record::new(owner.clone(), Class::from_int(cl), Ttl::from_secs(3600), z);
            let focus = Focus::new("class", "number", class_cat(cl));
            let note = format!("class {cl}");
            let m = CaseMeta { sweep: "codes-class", focus: &focus, sig_detail: false, is_name: false, note: &note };
            for k in KIND_RANGE {
                col.case(&mut lc, &m, &rec, &wire, k, false);
            }
        }
        // SVCB parameter keys without a defined meaning
        for key in (c * 256)..((c + 1) * 256) {
            let key = key as u16;
            if key < 10 || (!thorough && (1100..65000).contains(&key) && key % 1111 != 0) {
                continue;
            }
            let wire = cat(&[&[0, 1, 0], &svc_param(key, b"ab")]);
            let z = match value_from_wire(64, &wire) {
                Ok(z) => z,
                Err(e) => {
                    lc.inc(format!("codes:svcb-key:not-a-library-value({})", blank_digits(&e)));
                    continue;
                }
            };
            let rec = Record::new(owner.clone(), Class::IN, Ttl::from_secs(3600), z);
            let ks = key.to_string();
            let oct = if ks.contains('9') { "number-with-digit-9" } else { "number" };
            let focus = Focus::new("SVCB", "param-key", oct);
            let note = format!("SVCB with parameter key {key}");
            let m = CaseMeta { sweep: "codes-svcb-key", focus: &focus, sig_detail: false, is_name: false, note: &note };
            for k in KIND_RANGE {
                col.case(&mut lc, &m, &rec, &wire, k, false);
            }
        }
        col.merge(lc);
    });
    // TTL digit boundaries
    let mut lc = Local::default();
    let mut ttls: Vec<u32> = vec![0, 0x7FFF_FFFF];
    let mut p = 1u64;
    while p <= 0x7FFF_FFFF {
        ttls.extend([(p - 1) as u32, p as u32]);
        p *= 10;
    }
    for b in 0..31 {
        ttls.extend([(1u32 << b) - 1, 1u32 << b]);
    }
    ttls.sort();
    ttls.dedup();
    let wire = vec![192, 0, 2, 1];
    for t in ttls {
        let z = value_from_wire(1, &wire).expect("A");
        let rec = Record::new(owner.clone(), Class::IN, Ttl::from_secs(t), z);
        let focus = Focus::new("ttl", "number", "-");
        let note = format!("TTL {t}");
        let m = CaseMeta { sweep: "codes-ttl", focus: &focus, sig_detail: false, is_name: false, note: &note };
        for k in KIND_RANGE {
            col.case(&mut lc, &m, &rec, &wire, k, false);
        }
    }
    col.merge(lc);
}

/// The harness's own name of a class (RFC 6895 section 3.2 registry); never
/// the library's text, so that signatures do not move with the writer.
fn class_cat(c: u16) -> &'static str {
    match c {
        1 => "IN",
        3 => "CH",
        4 => "HS",
        254 => "NONE",
        255 => "ANY",
        _ => "CLASSnnn",
    }
}

/// The forms of the `tokens` sweep. 0..=3 are the record formatter's display
/// kinds; the others are lines assembled by the harness from the library's
/// token writers in the other layouts RFC 1035 section 5.1 allows
/// (`[class] [TTL] type`, either of class / TTL omitted).
struct TokForm {
    name: &'static str,
    /// 0: owner TTL class type (record formatter); 1: owner class TTL type;
    /// 2: `$TTL` line, owner class type; 3: owner TTL type, class from the
    /// reader's default class; 4: `$TTL` line, owner type, default class
    layout: usize,
    kind: usize,
    sep: char,
    /// tokens written by `Display` instead of `ZonefileFmt`
    disp: bool,
}

fn tok_forms() -> Vec<TokForm> {
    let mut v = Vec::new();
    for kind in KIND_RANGE {
        v.push(TokForm { name: "record-formatter", layout: 0, kind, sep: ' ', disp: false });
    }
    for (layout, lname) in [(1usize, "class-ttl-type"), (2, "$TTL+class-type"), (3, "ttl-type+default-class"), (4, "$TTL+type+default-class")] {
        for (sep, disp, vname) in [(' ', false, "blank/ZonefileFmt"), ('\t', false, "tab/ZonefileFmt"), (' ', true, "blank/Display")] {
            let name: &'static str = Box::leak(format!("{lname}({vname})").into_boxed_str());
            v.push(TokForm { name, layout, kind: 0, sep, disp });
        }
    }
    v
}

/// The text of a hand-assembled form: every token is written by the
/// library (owner: `fmt_with_dot`; class / type: `ZonefileFmt` or `Display`;
/// data: `ZonefileFmt`, simple kind); the TTL is a decimal number.
fn tok_text(rec: &Rec, f: &TokForm) -> Result<String, String> {
    guard(|| {
        let zf = DisplayKind::Simple;
        let owner = rec.owner().fmt_with_dot().to_string();
        let rt = rec.data().rtype();
        let (class, rtype, ttl) = if f.disp {
            (rec.class().to_string(), rt.to_string(), rec.ttl().as_secs().to_string())
        } else {
            (rec.class().display_zonefile(zf).to_string(), rt.display_zonefile(DisplayKind::Simple).to_string(), rec.ttl().display_zonefile(DisplayKind::Simple).to_string())
        };
        let data = rec.data().display_zonefile(DisplayKind::Simple).to_string();
        let s = f.sep;
        match f.layout {
            1 => format!("{owner}{s}{class}{s}{ttl}{s}{rtype}{s}{data}"),
            2 => format!("$TTL{s}{ttl}\n{owner}{s}{class}{s}{rtype}{s}{data}"),
            3 => format!("{owner}{s}{ttl}{s}{rtype}{s}{data}"),
            _ => format!("$TTL{s}{ttl}\n{owner}{s}{rtype}{s}{data}"),
        }
    })
}

/// `tokens`: the three tokens between owner and data. Every class that has
/// a mnemonic (from the registry and from what the library prints) and the
/// numeric neighbours of each x every data type that has a mnemonic (generic
/// RFC 3597 data) plus TYPEnnn types whose numbers are class / TTL numbers
/// plus typed A / NS / TXT data x TTLs that are also class / type numbers
/// x the four display kinds and the other RFC 1035 layouts. Single axes
/// first, so that a failure of the product is attributed to the axis value
/// that already fails alone in the same form.
fn sweep_tokens(col: &Collector, thorough: bool) {
    use domain::base::rdata::UnknownRecordData;
    let owner = name_of(&[b"a"]);
    let forms = tok_forms();
    // --- menus
    let mut classes: BTreeSet<u16> = [0u16, 1, 2, 3, 4, 5, 253, 254, 255, 256, 4660, 65279, 65280, 65535].into_iter().collect();
    for c in 0..=65535u16 {
        // whatever else the library writes as a mnemonic, and its neighbours
        if !Class::from_int(c).to_string().starts_with("CLASS") {
            classes.extend([c.saturating_sub(1), c, c.saturating_add(1)]);
        }
    }
    let classes: Vec<u16> = classes.into_iter().collect();
    let mut ttls: Vec<u32> = vec![0, 1, 4, 255, 3600, 65535, 0x7FFF_FFFF];
    if thorough {
        ttls.extend([2, 3, 5, 253, 254, 256, 4660, 65280, 65536, 99999, 1_000_000_000]);
    }
    ttls.sort();
    // types: (type, value, reference RDATA, description)
    let not_zone_type = |t: u16| t == 0 || t == 41 || (128..=255).contains(&t);
    let mut types: Vec<(u16, ZRd, Vec<u8>, String)> = Vec::new();
    for (rt, wire, desc) in [(1u16, vec![192, 0, 2, 1], "A 192.0.2.1"), (2, to_wire(&[b"m".to_vec(), b"z".to_vec()]), "NS m.z."), (16, cat(&[&cs(b"a b"), &cs(b"")]), "TXT \"a b\" \"\"")] {
        let z = value_from_wire(rt, &wire).expect("menu value");
        types.push((rt, z, wire, format!("typed {desc}")));
    }
    let numberlike: BTreeSet<u16> = classes.iter().copied().chain(ttls.iter().filter(|t| **t <= 65535).map(|t| *t as u16)).collect();
    for t in 0..=65535u16 {
        if not_zone_type(t) {
            continue;
        }
        let mnemonic = !Rtype::from_int(t).to_string().starts_with("TYPE");
        if !(mnemonic || numberlike.contains(&t) || (thorough && t % 257 == 0)) {
            continue;
        }
        let data = vec![0xab, t as u8];
        if let Ok(u) = UnknownRecordData::from_octets(Rtype::from_int(t), data.clone()) {
            types.push((t, ZRd::Unknown(u), data, format!("type {t} with RFC 3597 generic data")));
        }
    }
    let tcat = |t: u16| -> String {
        let tn = Rtype::from_int(t).to_string();
        if tn.starts_with("TYPE") { "TYPEnnn".into() } else { tn }
    };
    {
        let mut lc = Local::default();
        lc.add("tokens:classes".into(), classes.len() as u64);
        lc.add("tokens:types".into(), types.len() as u64);
        lc.add("tokens:ttls".into(), ttls.len() as u64);
        lc.add("tokens:forms".into(), forms.len() as u64);
        col.merge(lc);
    }
    // one case; returns whether it passed
    let run = |lc: &mut Local, sweep: &'static str, focus: &Focus, rec: &Rec, wire: &[u8], f: &TokForm, note: &str| -> bool {
        let m = CaseMeta { sweep, focus, sig_detail: false, is_name: false, note };
        if f.layout == 0 {
            return col.case(lc, &m, rec, wire, f.kind, false);
        }
        match tok_text(rec, f) {
            Ok(text) => col.case_ex(lc, &m, rec, wire, f.kind, false, if f.layout >= 3 { 8 } else { 0 }, Some(&text)),
            Err(p) => {
                lc.evals += 1;
                piece_fail(col, lc, format!("C06|{}|{}|{}|token-writer-panic", focus.ty, focus.field, focus.oct), format!("{note}: a token writer panicked: {p}"), json!({"sweep": sweep, "class": rec.class().to_int(), "ttl": rec.ttl().as_secs(), "rtype": rec.data().rtype().to_int(), "rdata": hex(wire), "form": f.name}));
                false
            }
        }
    };
    let form_oct = |f: &TokForm| f.name.to_string();
    // --- single axes: (axis, category, form name) that fail alone
    let failing: Mutex<BTreeSet<(&'static str, String, &'static str, usize)>> = Mutex::new(BTreeSet::new());
    {
        let mut lc = Local::default();
        let (_, za, wa, _) = &types[0];
        for &c in &classes {
            let rec = Record::new(owner.clone(), Class::from_int(c), Ttl::from_secs(3600), za.clone());
            for f in &forms {
                let focus = Focus::new("class", class_cat(c), &form_oct(f));
                if !run(&mut lc, "tokens-single", &focus, &rec, wa, f, &format!("class {c} alone (IN-typed A record, TTL 3600), form {}", f.name)) && f.kind < GATED_KINDS {
                    failing.lock().unwrap().insert(("class", class_cat(c).into(), f.name, f.kind));
                }
            }
        }
        for (t, z, w, d) in &types {
            let rec = Record::new(owner.clone(), Class::IN, Ttl::from_secs(3600), z.clone());
            for f in &forms {
                let focus = Focus::new("rtype", &tcat(*t), &form_oct(f));
                if !run(&mut lc, "tokens-single", &focus, &rec, w, f, &format!("{d} alone (class IN, TTL 3600), form {}", f.name)) && f.kind < GATED_KINDS {
                    failing.lock().unwrap().insert(("rtype", tcat(*t), f.name, f.kind));
                }
            }
        }
        for &ttl in &ttls {
            let rec = Record::new(owner.clone(), Class::IN, Ttl::from_secs(ttl), za.clone());
            for f in &forms {
                let focus = Focus::new("ttl", "number", &form_oct(f));
                if !run(&mut lc, "tokens-single", &focus, &rec, wa, f, &format!("TTL {ttl} alone (class IN, A record), form {}", f.name)) && f.kind < GATED_KINDS {
                    failing.lock().unwrap().insert(("ttl", "number".into(), f.name, f.kind));
                }
            }
        }
        col.merge(lc);
    }
    let failing = failing.into_inner().unwrap();
    // --- the product
    let jobs: Vec<(usize, usize)> = (0..classes.len()).flat_map(|ci| (0..types.len()).map(move |ti| (ci, ti))).collect();
    jobs.par_chunks(16).for_each(|chunk| {
        let mut lc = Local::default();
        for &(ci, ti) in chunk {
            let c = classes[ci];
            let (t, z, w, d) = &types[ti];
            for &ttl in &ttls {
                let rec = Record::new(owner.clone(), Class::from_int(c), Ttl::from_secs(ttl), z.clone());
                let note = format!("class {c} x {d} x TTL {ttl}");
                for f in &forms {
                    let focus = if failing.contains(&("class", class_cat(c).into(), f.name, f.kind)) {
                        Focus::new("class", class_cat(c), &form_oct(f))
                    } else if failing.contains(&("rtype", tcat(*t), f.name, f.kind)) {
                        Focus::new("rtype", &tcat(*t), &form_oct(f))
                    } else if failing.contains(&("ttl", "number".into(), f.name, f.kind)) {
                        Focus::new("ttl", "number", &form_oct(f))
                    } else {
                        Focus::new("class+type+ttl", &format!("{}+{}", class_cat(c), tcat(*t)), &form_oct(f))
                    };
                    run(&mut lc, "tokens", &focus, &rec, w, f, &format!("{note}, form {}", f.name));
                }
            }
        }
        col.merge(lc);
    });
}

/// `readers`: every way of constructing / configuring / driving the reader,
/// and records over the `Bytes` octets type.
fn sweep_readers(col: &Collector) {
    use octseq::OctetsFrom;
    let (vals, _) = rgen::values_ex(GTier::Compact);
    let vals: Vec<(rgen::Value, ZRd)> = vals
        .into_iter()
        .filter_map(|v| {
            let z: Result<ZRd, rgen::Rd> = v.data.clone().into();
            z.ok().map(|z| (v, z))
        })
        .collect();
    let envs: Vec<(Nm, Class, u32, &str)> = vec![
        (name_of(&[b"a"]), Class::IN, 3600, "a. IN 3600"),
        (rgen::name_specs()[3].name(), Class::CH, 0x7FFF_FFFF, "255-octet owner, CH, 2^31-1"),
        (name_of(&[b"x\" ;()@$\\.y\x00\xff", b"z"]), Class::HS, 0, "owner with every special octet, HS, 0"),
    ];
    vals.par_iter().for_each(|(v, z)| {
        let mut lc = Local::default();
        for (owner, class, ttl, edesc) in &envs {
            let rec = Record::new(owner.clone(), *class, Ttl::from_secs(*ttl), z.clone());
            // the same record over Bytes
            let zb = ZoneRecordData::<bytes::Bytes, Name<bytes::Bytes>>::try_octets_from(z.clone());
            let ob = Name::<bytes::Bytes>::try_octets_from(owner.clone());
            let recb = match (zb, ob) {
                (Ok(zb), Ok(ob)) => Some(Record::new(ob, *class, Ttl::from_secs(*ttl), zb)),
                _ => None,
            };
            for k in 0..GATED_KINDS {
                let fv = Focus::new(v.mnemonic, "value", "-");
                let note = format!("compact value {} ({edesc})", v.desc);
                let m0 = CaseMeta { sweep: "readers-baseline", focus: &fv, sig_detail: true, is_name: false, note: &note };
                if !col.case(&mut lc, &m0, &rec, &v.wire, k, false) {
                    lc.add("readers:skipped-baseline-fails".into(), (READERS.len() - 1) as u64 * 2 + 1);
                    continue;
                }
                for reader in 1..READERS.len() {
                    let focus = Focus::new("reader", READERS[reader], "-");
                    let m = CaseMeta { sweep: "readers", focus: &focus, sig_detail: false, is_name: false, note: &note };
                    for origin in [false, true] {
                        col.case_ex(&mut lc, &m, &rec, &v.wire, k, origin, reader, None);
                    }
                }
                // octets type: the Bytes-typed record must be written as
                // the very same text
                lc.evals += 1;
                let tv = guard(|| format_record(&rec, k));
                let tb = guard(|| {
                    recb.as_ref().map(|r| {
                        let mut s = String::new();
                        let w = match k {
                            0 => write!(s, "{}", r.display_zonefile(DisplayKind::Simple)),
                            1 => write!(s, "{}", r.display_zonefile(DisplayKind::Tabbed)),
                            _ => write!(s, "{}", r.display_zonefile(DisplayKind::Multiline)),
                        };
                        w.map(|_| s).map_err(|_| ())
                    })
                });
                let same = match (&tv, &tb) {
                    (Ok(Ok(a)), Ok(Some(Ok(b)))) => a == b,
                    _ => false,
                };
                if same {
                    lc.inc(format!("readers-octets-type:{}:pass", KINDS[k]));
                } else {
                    lc.inc(format!("readers-octets-type:{}:fail", KINDS[k]));
                    let sig = format!("C06|octets-type|Bytes-record-written-differently|{}|{}", v.mnemonic, KINDS[k]);
                    let what = format!("{note}: Vec-typed record writes {tv:?}, Bytes-typed record writes {tb:?}");
                    let mut g = col.fails.lock().unwrap();
                    let e = g.entry(sig).or_insert(FailClass { count: 0, what: what.clone(), replay: json!({"sweep": "readers-octets-type", "owner": hex(owner.as_slice()), "class": class.to_int(), "ttl": ttl, "rtype": v.rtype, "rdata": hex(&v.wire), "kind": k, "origin": false}), key: (what.len(), what) });
                    e.count += 1;
                }
            }
        }
        col.merge(lc);
    });
}

/// File a failure of a piece-level check (no record involved).
fn piece_fail(col: &Collector, lc: &mut Local, sig: String, what: String, case: J) {
    lc.inc("pieces:piece-check:fail".into());
    let what: String = if what.chars().count() > 420 { what.chars().take(200).chain(" ... ".chars()).chain(what.chars().skip(what.chars().count() - 200)).collect() } else { what };
    let mut g = col.fails.lock().unwrap();
    let key = (what.len(), what.clone());
    match g.get_mut(&sig) {
        Some(fc) => {
            fc.count += 1;
            if key < fc.key {
                fc.what = what;
                fc.replay = case;
                fc.key = key;
            }
        }
        None => {
            g.insert(sig, FailClass { count: 1, what, replay: case, key });
        }
    }
}

/// `pieces`: the presentation writers and readers of single fields that the
/// record formatter does not use itself: the unquoted character-string form
/// (inside hand-assembled TXT / HINFO / NAPTR lines read by the zone-file
/// reader), `CharStr: FromStr` over `Display` and the unquoted form,
/// `OwnedLabel: FromStr` / `from_chars` over `Label: Display`, `FromStr` of
/// the single-name record data types over their zone-file form, and TXT
/// values made with the octet-wise builder over `BytesMut`.
fn sweep_pieces(col: &Collector, thorough: bool) {
    use domain::base::charstr::CharStr;
    use domain::base::name::{Label, OwnedLabel};
    use std::str::FromStr;
    let owner = name_of(&[b"a"]);
    let pl = payloads(255, false, thorough);
    let chunks: Vec<&[Payload]> = pl.chunks(64).collect();
    chunks.par_iter().for_each(|chunk| {
        let mut lc = Local::default();
        for p in chunk.iter() {
            let cs = match CharStr::from_octets(p.bytes.clone()) {
                Ok(c) => c,
                Err(_) => continue,
            };
            let unq = cs.display_unquoted().to_string();
            let plain = cs.to_string();
            // (1) FromStr over both text forms: exact octets
            for (form, text) in [("Display", &plain), ("display_unquoted", &unq)] {
                lc.evals += 1;
                let r = guard(|| CharStr::<Vec<u8>>::from_str(text).map(|c| c.as_slice().to_vec()).map_err(|e| e.to_string()));
                let ok = matches!(&r, Ok(Ok(b)) if *b == p.bytes);
                if ok {
                    lc.inc(format!("pieces:charstr-from_str({form}):pass"));
                    lc.distinct.push(fnv(text.as_bytes()) ^ 0x51);
                } else {
                    piece_fail(
                        col,
                        &mut lc,
                        format!("C06|CharStr|from_str({form})|{}", p.oct),
                        format!("CharStr {} written by {form} as {text:?} is read by CharStr::from_str as {r:?}", hex(&p.bytes)),
                        json!({"sweep": "pieces", "piece": "charstr-from_str", "form": form, "octets": hex(&p.bytes), "text": text}),
                    );
                }
            }
            // (2) the unquoted form inside records read by the zone-file
            // reader (an empty string has no unquoted form)
            if p.bytes.is_empty() {
                lc.inc("pieces:unquoted:skipped-empty-string".into());
                continue;
            }
            let q = |b: &[u8]| CharStr::from_octets(b.to_vec()).expect("short").display_quoted().to_string();
            let lines: Vec<(&str, u16, Vec<u8>, String)> = vec![
                ("TXT", 16, cs_wire(&p.bytes), format!("a. 3600 IN TXT {unq}")),
                ("TXT", 16, cat(&[&cs_wire(b"a"), &cs_wire(&p.bytes), &cs_wire(b"b c")]), format!("a. 3600 IN TXT a {unq} {}", q(b"b c"))),
                ("HINFO", 13, cat(&[&cs_wire(&p.bytes), &cs_wire(b"os")]), format!("a. 3600 IN HINFO {unq} os")),
                ("HINFO", 13, cat(&[&cs_wire(b"cpu"), &cs_wire(&p.bytes)]), format!("a. 3600 IN HINFO {} {unq}", q(b"cpu"))),
                ("NAPTR", 35, cat(&[&[0, 1, 0, 2], &cs_wire(&p.bytes), &cs_wire(&p.bytes), &cs_wire(&p.bytes), &[0]]), format!("a. 3600 IN NAPTR 1 2 {unq} {unq} {unq} .")),
            ];
            for (ty, rtype, wire, text) in lines {
                let z = match value_from_wire(rtype, &wire) {
                    Ok(z) => z,
                    Err(_) => continue,
                };
                let rec = Record::new(owner.clone(), Class::IN, Ttl::from_secs(3600), z);
                let oct = attribute(col, ty, "unquoted-string", p, 0);
                let focus = Focus::new(ty, "unquoted-string", &oct);
                let note = format!("{ty} with string {} ({}, {}) written by CharStr::display_unquoted into a hand-assembled line", hex(&p.bytes), p.oct, p.pos);
                let m = CaseMeta { sweep: "pieces-unquoted", focus: &focus, sig_detail: false, is_name: false, note: &note };
                for origin in [false, true] {
                    let ok = col.case_ex(&mut lc, &m, &rec, &wire, 0, origin, 0, Some(&text));
                    if !ok && p.single {
                        col.failing_singles.lock().unwrap().insert((ty.to_string(), "unquoted-string".to_string(), p.oct.clone(), 0));
                    }
                }
            }
        }
        col.merge(lc);
    });
    // labels and single-name record data
    let lp = payloads(63, true, thorough);
    let lchunks: Vec<&[Payload]> = lp.chunks(64).collect();
    lchunks.par_iter().for_each(|chunk| {
        let mut lc = Local::default();
        for p in chunk.iter() {
            let label = match Label::from_slice(&p.bytes) {
                Ok(l) => l,
                Err(_) => continue,
            };
            let text = label.to_string();
            for (entry, r) in [
                ("from_str", guard(|| OwnedLabel::from_str(&text).map(|l| l.as_label().as_slice().to_vec()).map_err(|e| e.to_string()))),
                ("from_chars", guard(|| OwnedLabel::from_chars(text.chars()).map(|l| l.as_label().as_slice().to_vec()).map_err(|e| e.to_string()))),
            ] {
                lc.evals += 1;
                if matches!(&r, Ok(Ok(b)) if *b == p.bytes) {
                    lc.inc(format!("pieces:label-{entry}:pass"));
                    lc.distinct.push(fnv(text.as_bytes()) ^ 0x71);
                } else {
                    piece_fail(
                        col,
                        &mut lc,
                        format!("C06|OwnedLabel|{entry}(Display)|{}", p.oct),
                        format!("label {} written as {text:?} is read by OwnedLabel::{entry} as {r:?}", hex(&p.bytes)),
                        json!({"sweep": "pieces", "piece": "label", "entry": entry, "octets": hex(&p.bytes), "text": text}),
                    );
                }
            }
            // OwnedLabel's own Display must write what Label's does
            lc.evals += 1;
            let ot = OwnedLabel::from_label(label).to_string();
            if ot == text {
                lc.inc("pieces:ownedlabel-display:pass".into());
            } else {
                piece_fail(col, &mut lc, format!("C06|OwnedLabel|Display-differs-from-Label|{}", p.oct), format!("label {}: Label writes {text:?}, OwnedLabel writes {ot:?}", hex(&p.bytes)), json!({"sweep": "pieces", "piece": "ownedlabel-display", "octets": hex(&p.bytes)}));
            }
            // FromStr of the single-name record data types
            macro_rules! name_type {
                ($ty:ident, $mn:expr) => {{
                    for labels in [vec![p.bytes.clone(), b"z".to_vec()], vec![p.bytes.clone()], vec![b"z".to_vec(), p.bytes.clone()]] {
                        let w = to_wire(&labels);
                        let n: Nm = match Name::from_octets(w.clone()) {
                            Ok(n) => n,
                            Err(_) => continue,
                        };
                        let d = domain::rdata::$ty::new(n);
                        let text = d.display_zonefile(DisplayKind::Simple).to_string();
                        lc.evals += 1;
                        let r = guard(|| domain::rdata::$ty::<Nm>::from_str(&text).map(|d| { let mut v = Vec::new(); let _ = d.compose_rdata(&mut v); v }).map_err(|e| e.to_string()));
                        if matches!(&r, Ok(Ok(b)) if *b == w) {
                            lc.inc(format!("pieces:{}-from_str:pass", $mn));
                            lc.distinct.push(fnv(text.as_bytes()) ^ fnv($mn.as_bytes()));
                        } else {
                            piece_fail(
                                col,
                                &mut lc,
                                format!("C06|{}|from_str(zonefile-form)|{}", $mn, p.oct),
                                format!("{} {} written as {text:?} is read by FromStr as {r:?}", $mn, hex(&w)),
                                json!({"sweep": "pieces", "piece": "name-type-from_str", "type": $mn, "name": hex(&w), "text": text}),
                            );
                        }
                    }
                }};
            }
            name_type!(Ns, "NS");
            name_type!(Md, "MD");
            name_type!(Mf, "MF");
            name_type!(Cname, "CNAME");
            name_type!(Mb, "MB");
            name_type!(Mg, "MG");
            name_type!(Mr, "MR");
            name_type!(Ptr, "PTR");
            name_type!(Dname, "DNAME");
        }
        col.merge(lc);
    });
    // TXT built octet by octet over BytesMut
    let mut lc = Local::default();
    let mut lens: Vec<usize> = vec![0, 1, 254, 255, 256, 509, 510, 511, 765, 766];
    if thorough {
        lens.extend([2, 3, 253, 257, 1020, 1021, 4000]);
    }
    for n in lens {
        for (pname, data) in [("fill", rgen::fill(n, 9)), ("quote", vec![b'"'; n]), ("blank", vec![b' '; n])] {
            use octseq::OctetsFrom;
            let built = guard(|| -> Result<ZRd, String> {
                let mut b = domain::rdata::rfc1035::TxtBuilder::new_bytes();
                for ch in &data {
                    b.append_u8(*ch).map_err(|e| e.to_string())?;
                }
                let t = b.finish().map_err(|e| e.to_string())?;
                let t = domain::rdata::Txt::<Vec<u8>>::try_octets_from(t).map_err(|_| "octets".to_string())?;
                Ok(ZRd::Txt(t))
            });
            let z = match built {
                Ok(Ok(z)) => z,
                other => {
                    lc.inc(format!("pieces:txt-builder:not-built({:?})", other.err()));
                    continue;
                }
            };
            // reference: 255-octet chunks; no data at all is one empty string
            let mut wire = Vec::new();
            if data.is_empty() {
                wire.push(0);
            }
            for c in data.chunks(255) {
                wire.extend_from_slice(&cs_wire(c));
            }
            let focus = Focus::new("TXT", "append_u8-over-BytesMut", "-");
            let note = format!("TXT of {n} octets ({pname}) built with TxtBuilder::new_bytes + append_u8");
            let m = CaseMeta { sweep: "pieces-txt-builder", focus: &focus, sig_detail: false, is_name: false, note: &note };
            let rec = Record::new(owner.clone(), Class::IN, Ttl::from_secs(3600), z);
            for k in KIND_RANGE {
                for origin in [false, true] {
                    col.case(&mut lc, &m, &rec, &wire, k, origin);
                }
            }
        }
    }
    col.merge(lc);
}

// ===================================================================
// Replay
// ===================================================================

fn replay(ctx: &Ctx, path: &str) -> ! {
    let text = std::fs::read_to_string(path).unwrap_or_else(|e| {
        eprintln!("MACHINERY: cannot read {path}: {e}");
        std::process::exit(2)
    });
    let v: J = serde_json::from_str(&text).unwrap_or_else(|e| {
        eprintln!("MACHINERY: bad replay file: {e}");
        std::process::exit(2)
    });
    let c = &v["case"];
    let owner = Name::from_octets(unhex(c["owner"].as_str().unwrap_or(""))).expect("owner in replay file");
    let class = Class::from_int(c["class"].as_u64().unwrap_or(1) as u16);
    let ttl = c["ttl"].as_u64().unwrap_or(0) as u32;
    let rtype = c["rtype"].as_u64().unwrap_or(0) as u16;
    let wire = unhex(c["rdata"].as_str().unwrap_or(""));
    let kind = c["kind"].as_u64().unwrap_or(0) as usize;
    let origin = c["origin"].as_bool().unwrap_or(false);
    let z = match value_from_wire(rtype, &wire) {
        Ok(z) => z,
        Err(e) => {
            eprintln!("MACHINERY: cannot rebuild the value of the replay case: {e}");
            std::process::exit(2)
        }
    };
    let rec = Record::new(owner, class, Ttl::from_secs(ttl), z);
    let reader = (c["reader"].as_u64().unwrap_or(0) as usize).min(READERS.len() - 1);
    let harness_text = if c["harness_text"].as_bool().unwrap_or(false) { c["text"].as_str().map(|s| s.to_string()) } else { None };
    let ev = eval_ex(&rec, &wire, kind.min(3), origin, reader, harness_text.as_deref());
    println!("replay {path}");
    println!("  kind: {}, origin: {}, reader: {}{}", KINDS[kind.min(3)], origin, READERS[reader], if harness_text.is_some() { ", text assembled by the harness from piece writers" } else { "" });
    match &ev.text {
        Some(t) => println!("  text written: {:?}", t.chars().take(600).collect::<String>()),
        None => println!("  no text written"),
    }
    match &ev.fail {
        None => println!("  result: one equal record read back, then EOF (property holds for this case)"),
        Some((coarse, detail, human)) => {
            println!("  result: {coarse} {detail}: {human}");
            let sig = v["signature"].as_str().unwrap_or("C06|replay").to_string();
            ctx.violation(&sig, human, c.clone());
        }
    }
    ctx.finish(
        json!({"evaluations": 1, "distinct_nontrivial": 2, "rule": "replay of a single case", "samples": [c.clone()], "exhaustive": false}),
        &["replay mode"],
    );
}

// ===================================================================
// main
// ===================================================================

fn main() {
    let ctx = Ctx::new("C06", "exploration");
    if let Some(p) = ctx.replay.clone() {
        replay(&ctx, &p);
    }
    let thorough = !ctx.quick();
    let tier = if thorough { GTier::Thorough } else { GTier::Quick };
    let col = Collector::new();

    let t0 = std::time::Instant::now();
    sweep_fields(&col, thorough);
    let t_fields = t0.elapsed().as_secs_f64();
    sweep_binary(&col, thorough);
    sweep_codes(&col, thorough);
    sweep_tokens(&col, thorough);
    sweep_readers(&col);
    sweep_pieces(&col, thorough);
    let t_binary = t0.elapsed().as_secs_f64();
    sweep_envelope(&col, thorough);
    let t_env = t0.elapsed().as_secs_f64();
    sweep_values(&col, tier);
    let t_values = t0.elapsed().as_secs_f64();

    // report
    let fails = std::mem::take(&mut *col.fails.lock().unwrap());
    let mut by_cause: BTreeMap<String, u64> = BTreeMap::new();
    for (sig, fc) in &fails {
        ctx.violation(sig, &fc.what, fc.replay.clone());
        for _ in 1..fc.count {
            ctx.violation(sig, &fc.what, J::Null);
        }
        let parts: Vec<&str> = sig.split('|').collect();
        *by_cause.entry(parts.get(3).unwrap_or(&"").to_string()).or_insert(0) += 1;
    }
    let info = col.info.lock().unwrap();
    let info_list: Vec<J> = info.iter().take(400).map(|(s, (n, ex))| json!({"class": s, "instances": n, "example": ex})).collect();
    let counters = col.stats.counters_json();
    let cmap = col.stats.counters.lock().unwrap().clone();
    let sum = |suffix: &str, gated: bool| -> u64 {
        cmap.iter()
            .filter(|(k, _)| k.ends_with(suffix) && (k.contains(":plain-display:") != gated) && !k.starts_with("type:") && !k.starts_with("outcome:"))
            .map(|(_, v)| *v)
            .sum()
    };
    let outcomes: BTreeMap<String, u64> = cmap.iter().filter(|(k, _)| k.starts_with("outcome:")).map(|(k, v)| (k.clone(), *v)).collect();
    ctx.finish(
        json!({
            "evaluations": col.stats.evals(),
            "distinct_nontrivial": col.stats.distinct_count(),
            "rule": "a case is one (record, display kind, origin) triple; non-trivial = the text was written, read back as exactly one record equal in owner/class/TTL/type/data (== and wire octets) followed by EOF, counted once per distinct (text, kind, origin)",
            "exhaustive": true,
            "bound": if thorough {
                "rgen Thorough menus x 3 kinds x 2 envelopes; compact values x owner menu (incl. all hostile strings <=3) x 8 classes x 4 TTLs x kinds x origin; every textual field x all single octets + all hostile strings <=3; binary lengths 0..70,254..257,1000; all rtypes/classes/SVCB keys; tokens: every mnemonic class and its numeric neighbours x every mnemonic data type + number-like TYPEnnn + typed A/NS/TXT x 18 TTLs x 16 forms (4 kinds + 4 hand-assembled RFC 1035 layouts x 3 token-writer variants); 11 reader entry points x compact values x 3 envelopes; field-level writers/readers (unquoted strings, FromStr of CharStr/OwnedLabel/name types) x the payload menu incl. hostile strings <=3"
            } else {
                "rgen Quick menus x 3 kinds x 2 envelopes; compact values x owner menu x 4 classes x 4 TTLs x kinds x origin; every textual field x all single octets, hostile octets at 6 positions, named combinations; binary lengths 0..8,11,12,20,32,33; all rtypes/classes, a subset of SVCB keys; tokens: every mnemonic class and its numeric neighbours x every mnemonic data type + number-like TYPEnnn + typed A/NS/TXT x 7 TTLs x 16 forms (4 kinds + 4 hand-assembled RFC 1035 layouts x 3 token-writer variants); 11 reader entry points x compact values x 3 envelopes; field-level writers/readers (unquoted strings, FromStr of CharStr/OwnedLabel/name types) x the payload menu"
            },
            "gated_cases_passed": sum(":pass", true),
            "gated_cases_failed": sum(":fail", true),
            "plain_display_cases_passed": sum(":pass", false),
            "plain_display_cases_failed": sum(":fail", false),
            "distinct_oracle_outcomes": outcomes,
            "failing_signature_classes": fails.len(),
            "failing_classes_by_octet_class_or_outcome": by_cause,
            "plain_display_nonconforming_classes(informational, not gated)": info.len(),
            "plain_display_examples": info_list,
            "phase_wall_s": {"fields": t_fields, "binary": t_binary - t_fields, "envelope": t_env - t_binary, "values": t_values - t_env},
            "counters": counters,
            "samples": col.stats.samples(),
        }),
        &[
            "the formatter has no relative-to-origin output (Record::fmt always prints absolute names with a trailing dot), so the origin axis only places a $ORIGIN line before the absolute text",
            "plain Display of Record/record data is not documented to be zone-file syntax (Name's Display is documented as 'common display format'); it is exercised and its failures are listed but not reported as violations",
            "large values (rgen quick/thorough menus, up to 65535 octets of RDATA) are crossed with two envelopes only; the full owner x class x TTL product uses rgen's compact values",
            "values of the fields/binary sweeps are built from harness-written reference RDATA through the library's parser (checked to compose back to the reference); rgen values are built through the constructors",
            "TTLs above 2^31-1 (RFC 2181 section 8) are not part of the menus; the classes NONE and ANY are (codes and tokens sweeps; envelope product in the thorough tier): the property quantifies over all classes; record types that are not data types (0, OPT, 128..=255) are not",
            "the hand-assembled layouts of the tokens sweep (class before TTL, TTL and/or class omitted) are built from the library's own token writers and the simple-kind data text; with the class omitted the reader is given the record's class as its default class",
            "an empty character string has no unquoted form and is skipped there; IterScanner (a token-level scanner, not the zone-file reader) and the string-level Base16/32/64 codecs (property C18) are not driven by this harness",
        ],
    );
}
