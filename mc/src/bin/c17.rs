//! C17 — RFC 1982 serial arithmetic: flat exhaustive sweep.
//! For each base b: all 2^32 values c.
use domain::base::Serial;
use domain::rdata::dnssec::Timestamp;
use mc::*;
use rayon::prelude::*;
use serde_json::json;
use std::cmp::Ordering;
use std::sync::atomic::{AtomicU64, Ordering as AO};

fn reference(a: u32, b: u32) -> Option<Ordering> {
    // RFC 1982 section 3.2, computed in u64
    let (i1, i2) = (a as u64, b as u64);
    const H: u64 = 1 << 31;
    if i1 == i2 {
        Some(Ordering::Equal)
    } else if (i1 < i2 && i2 - i1 < H) || (i1 > i2 && i1 - i2 > H) {
        Some(Ordering::Less)
    } else if (i1 < i2 && i2 - i1 > H) || (i1 > i2 && i1 - i2 < H) {
        Some(Ordering::Greater)
    } else {
        None
    }
}

fn main() {
    let ctx = Ctx::new("C17", "exploration");
    let bases: Vec<u32> = if ctx.quick() {
        vec![0x7FFF_FFFF, 0xFFFF_FFFE]
    } else {
        vec![
            0, 1, 0x7FFF_FFFF, 0x8000_0000, 0x8000_0001, 0xFFFF_FFFF, 0xFFFF_FFFE, 0x1234_5679,
            0xDEAD_BEEF, 0x7FFF_FFFE, 0x4000_0001, 0xC000_0003, 0x00FF_FF01, 0xFF00_00FF,
        ]
    };
    let ks: [u32; 3] = [1, 0x7FFF_FFFF, 0x8000_0001];
    let evals = AtomicU64::new(0);
    let nontriv = AtomicU64::new(0);
    let outcomes = [AtomicU64::new(0), AtomicU64::new(0), AtomicU64::new(0), AtomicU64::new(0)];
    let stats = Stats::new();
    const CHUNK: u64 = 1 << 22;
    for &b in &bases {
        (0..(1u64 << 32) / CHUNK).into_par_iter().for_each(|ch| {
            let mut local_out = [0u64; 4];
            let mut viol: Option<(String, String, u32)> = None;
            let sb = Serial::from(b);
            let tb = Timestamp::from(b);
            for c64 in ch * CHUNK..(ch + 1) * CHUNK {
                let c = c64 as u32;
                let sc = Serial::from(c);
                let r = reference(b, c);
                let got = sb.partial_cmp(&sc);
                let rev = sc.partial_cmp(&sb);
                local_out[match got {
                    Some(Ordering::Less) => 0,
                    Some(Ordering::Equal) => 1,
                    Some(Ordering::Greater) => 2,
                    None => 3,
                }] += 1;
                if got != r {
                    viol.get_or_insert(("cmp-vs-rfc1982".into(), format!("partial_cmp({b},{c})={got:?}, RFC 1982 says {r:?}"), c));
                }
                if rev != r.map(Ordering::reverse) {
                    viol.get_or_insert(("antisymmetry".into(), format!("partial_cmp({c},{b})={rev:?} but partial_cmp({b},{c})={got:?}"), c));
                }
                // undefined exactly at distance 2^31
                if got.is_none() != (b.wrapping_sub(c) == 0x8000_0000) {
                    viol.get_or_insert(("undefined-iff-2^31".into(), format!("partial_cmp({b},{c})={got:?}"), c));
                }
                // operators agree with partial_cmp
                if (sb < sc) != (r == Some(Ordering::Less))
                    || (sb > sc) != (r == Some(Ordering::Greater))
                    || (sb <= sc) != matches!(r, Some(Ordering::Less | Ordering::Equal))
                    || (sb >= sc) != matches!(r, Some(Ordering::Greater | Ordering::Equal))
                    || (sb == sc) != (b == c)
                {
                    viol.get_or_insert(("operators".into(), format!("<,>,<=,>=,== of ({b},{c}) disagree with RFC 1982 {r:?}"), c));
                }
                // Timestamp wraps Serial
                let tc = Timestamp::from(c);
                if tb.partial_cmp(&tc) != r || (tb < tc) != (r == Some(Ordering::Less)) || (tb > tc) != (r == Some(Ordering::Greater)) {
                    viol.get_or_insert(("timestamp-cmp".into(), format!("Timestamp partial_cmp({b},{c}) != RFC 1982 {r:?}"), c));
                }
                // invariance under adding the same amount to both sides
                for k in ks {
                    let (b2, c2) = (b.wrapping_add(k), c.wrapping_add(k));
                    if Serial::from(b2).partial_cmp(&Serial::from(c2)) != got {
                        viol.get_or_insert(("shift-invariance".into(), format!("cmp({b}+{k},{c}+{k}) != cmp({b},{c})"), c));
                    }
                }
                // addition: c as addend
                if c <= 0x7FFF_FFFF {
                    let s = sb.add(c);
                    if s.into_int() != b.wrapping_add(c) {
                        viol.get_or_insert(("add-value".into(), format!("{b}.add({c}) = {}", s.into_int()), c));
                    }
                    if c >= 1 && !(s > sb && sb < s && s.partial_cmp(&sb) == Some(Ordering::Greater)) {
                        viol.get_or_insert(("add-not-greater".into(), format!("{b}.add({c}) = {} is not greater than {b}", s.into_int()), c));
                    }
                    if c == 0 && s != sb {
                        viol.get_or_insert(("add-zero".into(), format!("{b}.add(0) != {b}"), c));
                    }
                }
            }
            evals.fetch_add(CHUNK, AO::Relaxed);
            let lo = ch * CHUNK;
            let hi = (ch + 1) * CHUNK;
            let contains_b = (b as u64) >= lo && (b as u64) < hi;
            nontriv.fetch_add(CHUNK - contains_b as u64, AO::Relaxed);
            for i in 0..4 {
                outcomes[i].fetch_add(local_out[i], AO::Relaxed);
            }
            if let Some((sig, what, c)) = viol {
                ctx.violation(&format!("C17|{sig}"), &what, json!({"base": b, "other": c}));
            }
        });
        stats.sample(6, || json!({"base": b, "swept": "all 2^32 values c: cmp(b,c), cmp(c,b), operators, Timestamp, cmp(b+k,c+k) k in {1,2^31-1,2^31+1}, b.add(c) for c<2^31"}));
        // add() must panic above 2^31-1 (documented precondition)
        for a in [0x8000_0000u32, 0x8000_0001, 0xFFFF_FFFF] {
            let r = guard(|| Serial::from(b).add(a));
            if let Ok(v) = r {
                ctx.violation("C17|add-precondition", &format!("{b}.add({a}) returned {} instead of panicking as documented", v.into_int()), json!({"base": b, "addend": a}));
            }
            evals.fetch_add(1, AO::Relaxed);
        }
    }
    let e = evals.load(AO::Relaxed);
    ctx.finish(
        json!({
            "evaluations": e,
            "distinct_nontrivial": nontriv.load(AO::Relaxed),
            "rule": "pairs (base, c) for every c in 0..2^32 per base; every pair is distinct by construction; non-trivial = c != base (counted per chunk)",
            "exhaustive": true,
            "bases": bases,
            "outcome_counts": {"less": outcomes[0].load(AO::Relaxed), "equal": outcomes[1].load(AO::Relaxed), "greater": outcomes[2].load(AO::Relaxed), "undefined": outcomes[3].load(AO::Relaxed)},
            "samples": stats.samples(),
        }),
        &["the cross-sections {base} x 2^32 contain every branch pair of partial_cmp; the full 2^64 pair space is not swept"],
    );
}
