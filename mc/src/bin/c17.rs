//! C17 — RFC 1982 serial arithmetic: flat exhaustive sweep.
//! For each base b: all 2^32 values c.
use domain::base::Serial;
use domain::rdata::dnssec::Timestamp;
use mc::*;
use rayon::prelude::*;
use serde_json::json;
use std::cmp::Ordering;
use std::sync::atomic::{AtomicU64, Ordering as AO};

fn reference(a: u32, b: u32) -> Option<Ordering> {
    // RFC 1982 section 3.2, computed in u64
    let (i1, i2) = (a as u64, b as u64);
    const H: u64 = 1 << 31;
    if i1 == i2 {
        Some(Ordering::Equal)
    } else if (i1 < i2 && i2 - i1 < H) || (i1 > i2 && i1 - i2 > H) {
        Some(Ordering::Less)
    } else if (i1 < i2 && i2 - i1 > H) || (i1 > i2 && i1 - i2 < H) {
        Some(Ordering::Greater)
    } else {
        None
    }
}

/// RFC 1982 "i2 is newer than i1"
fn newer(i1: u32, i2: u32) -> Option<bool> {
    reference(i1, i2).map(|o| o == Ordering::Less)
}

/// Use site: the direction check of zone diffs (zonetree::types). A diff from
/// serial `start` to serial `end` exists iff `end` is newer by RFC 1982.
fn part_diff_direction(ctx: &Ctx) -> u64 {
    use domain::base::{Name, Ttl};
    use domain::rdata::{Soa, ZoneRecordData};
    use domain::zonetree::types::InMemoryZoneDiffBuilder;
    use domain::zonetree::Rrset;
    use std::str::FromStr;
    let bases: [u32; 14] = [0, 1, 0x7FFF_FFFF, 0x8000_0000, 0x8000_0001, 0xFFFF_FFFF, 0xFFFF_FFFE, 0x1234_5679, 0xDEAD_BEEF, 0x7FFF_FFFE, 0x4000_0001, 0xC000_0003, 0x00FF_FF01, 0xFF00_00FF];
    let mut offsets: Vec<u32> = (0..65536u32).map(|k| k.wrapping_mul(65537)).collect();
    for c in [0u32, 0x8000_0000, 0xFFFF_FFFF] {
        for d in 0..=4u32 {
            offsets.push(c.wrapping_add(d).wrapping_sub(2));
        }
    }
    offsets.sort();
    offsets.dedup();
    let apex: Name<bytes::Bytes> = Name::from_str("z.").unwrap();
    let soa = |serial: u32| {
        let mut r = Rrset::new(domain::base::iana::Rtype::SOA, Ttl::from_secs(60));
        r.push_data(ZoneRecordData::Soa(Soa::new(apex.clone(), apex.clone(), serial.into(), Ttl::from_secs(1), Ttl::from_secs(1), Ttl::from_secs(1), Ttl::from_secs(1))));
        r.into_shared()
    };
    let n = std::sync::atomic::AtomicU64::new(0);
    bases.par_iter().for_each(|&b| {
        for &d in &offsets {
            let e = b.wrapping_add(d);
            let r = guard(|| {
                let mut bld = InMemoryZoneDiffBuilder::new();
                bld.remove(apex.clone(), domain::base::iana::Rtype::SOA, soa(b));
                bld.add(apex.clone(), domain::base::iana::Rtype::SOA, soa(e));
                bld.build().map(|d| (d.start_serial.into_int(), d.end_serial.into_int())).map_err(|e| format!("{e:?}"))
            });
            n.fetch_add(1, AO::Relaxed);
            let case = || json!({"start": b, "end": e, "part": "zone-diff"});
            match (r, newer(b, e)) {
                (Err(p), _) => {
                    ctx.violation(&format!("C17|zone-diff|panic|{}", panic_class(&p)), &p, case());
                }
                (Ok(Ok((s0, e0))), want) => {
                    if want == Some(false) {
                        ctx.violation("C17|zone-diff|diff-made-although-end-is-not-newer", &format!("a zone diff from serial {b} to serial {e} was built although {e} is not newer than {b} (RFC 1982)"), case());
                    } else if (s0, e0) != (b, e) {
                        ctx.violation("C17|zone-diff|serials-of-the-diff-differ", &format!("diff {b}->{e} reports {s0}->{e0}"), case());
                    }
                }
                (Ok(Err(err)), want) => {
                    if want == Some(true) {
                        ctx.violation("C17|zone-diff|refused-although-end-is-newer", &format!("a zone diff from serial {b} to the newer serial {e} was refused: {err}"), case());
                    }
                }
            }
        }
    });
    n.load(AO::Relaxed)
}

/// Bases for the use-site parts: both sides of 0, 2^31 and 2^32.
const USE_BASES: [u32; 12] = [0, 1, 7, 0x7FFF_FFFD, 0x7FFF_FFFF, 0x8000_0000, 0x8000_0001, 0xFFFF_FFFB, 0xFFFF_FFFD, 0xFFFF_FFFE, 0xFFFF_FFFF, 0x1234_5678];

/// Use site: the IXFR interpreter and the zone updater (net::xfr::protocol::interpreter,
/// zonetree::update / in_memory::write). An incremental transfer is a chain of difference sequences
/// old -> new; "new is newer than old" is a matter of RFC 1982, so a chain whose serials step across
/// 2^31 or across the 2^32 wrap is as good as any other: it must be accepted, reported with the
/// serials as sent, and leave the receiving zone at the last serial.
fn part_ixfr_across_the_wrap(ctx: &Ctx) -> u64 {
    use domain::base::iana::{Class, Rcode, Rtype};
    use domain::base::{Message, MessageBuilder, Name};
    use domain::net::xfr::protocol::XfrResponseInterpreter;
    use domain::zonetree::types::ZoneUpdate;
    use domain::zonetree::update::ZoneUpdater;
    use mc::zfix::*;
    let steps_menu: [&[u32]; 6] = [&[1], &[2], &[1, 1], &[1, 1, 1], &[3, 0x7FFF_FFF0], &[0x7FFF_FFFF]];
    let n = AtomicU64::new(0);
    USE_BASES.par_iter().for_each(|&b| {
        for steps in steps_menu {
            let mut serials = vec![b];
            for d in steps {
                serials.push(serials.last().unwrap().wrapping_add(*d));
            }
            let last = *serials.last().unwrap();
            let case = || json!({"part": "ixfr-across-the-wrap", "serials": serials});
            n.fetch_add(1, AO::Relaxed);
            let r = guard(|| -> Result<(), (String, String)> {
                // the response: SOA(last) { SOA(s_i) -A(i) SOA(s_i+1) +A(i+1) }* SOA(last)
                let soa = |ser: u32| record_of(&vec![], &Rd::Soa(ser));
                let a = |k: usize| record_of(&rel("a"), &Rd::A(10 + k as u8));
                let mut recs = vec![soa(last)];
                for i in 0..serials.len() - 1 {
                    recs.push(soa(serials[i]));
                    recs.push(a(i));
                    recs.push(soa(serials[i + 1]));
                    recs.push(a(i + 1));
                }
                recs.push(soa(last));
                let mut qb = MessageBuilder::new_vec().question();
                qb.header_mut().set_qr(true);
                qb.header_mut().set_rcode(Rcode::NOERROR);
                qb.push((Name::<Vec<u8>>::from_octets(vec![1, b'z', 0]).unwrap(), Rtype::IXFR, Class::IN)).unwrap();
                let mut ab = qb.answer();
                for r in &recs {
                    ab.push(r.clone()).map_err(|_| ("harness".to_string(), "push".to_string()))?;
                }
                let msg = Message::from_octets(bytes::Bytes::from(ab.finish())).unwrap();
                // the receiving zone holds the first version
                let mut c = Content::base(b);
                c.add("a", Rd::A(10));
                let zone = build_direct(&c, false);
                let rt = rt();
                let mut it = XfrResponseInterpreter::new();
                let ups = it.interpret_response(msg).map_err(|e| ("interpreter-rejects".to_string(), format!("interpret_response: {e:?}")))?;
                let mut got = Vec::new();
                let mut updates = Vec::new();
                for u in ups {
                    let u = u.map_err(|e| ("interpreter-rejects".to_string(), format!("update iterator: {e:?}")))?;
                    fn soa_of<N>(r: &domain::base::Record<N, domain::rdata::ZoneRecordData<bytes::Bytes, N>>) -> u32 {
                        match r.data() {
                            domain::rdata::ZoneRecordData::Soa(s) => s.serial().into_int(),
                            _ => u32::MAX,
                        }
                    }
                    match &u {
                        ZoneUpdate::BeginBatchDelete(r) => got.push(("del", soa_of(r))),
                        ZoneUpdate::BeginBatchAdd(r) => got.push(("add", soa_of(r))),
                        ZoneUpdate::Finished(r) => got.push(("fin", soa_of(r))),
                        ZoneUpdate::DeleteAllRecords => got.push(("delete-all", 0)),
                        _ => {}
                    }
                    updates.push(u);
                }
                let mut want = Vec::new();
                for i in 0..serials.len() - 1 {
                    want.push(("del", serials[i]));
                    want.push(("add", serials[i + 1]));
                }
                want.push(("fin", last));
                if got != want {
                    return Err(("interpreter-reports-other-serials".into(), format!("difference sequences reported as {:?}, sent {:?}", got, want)));
                }
                if !it.is_finished() {
                    return Err(("interpreter-not-finished".into(), "the transfer is complete but the interpreter wants more".into()));
                }
                // apply to the receiving zone
                rt.block_on(async {
                    let mut up = ZoneUpdater::new(zone.clone()).await.map_err(|e| ("updater-rejects".to_string(), format!("ZoneUpdater::new: {e}")))?;
                    for u in updates {
                        up.apply(u).await.map_err(|e| ("updater-rejects".to_string(), format!("apply: {e}")))?;
                    }
                    Ok::<(), (String, String)>(())
                })?;
                let mut cn = Content::base(last);
                cn.add("a", Rd::A(10 + (serials.len() - 1) as u8));
                let rd = zone.read();
                let (w, _) = walk(rd.as_ref());
                if w != content_as_walk(&cn) {
                    return Err(("receiver-zone-differs".into(), format!("after the transfer the zone does not hold the last version (serial {last})")));
                }
                Ok(())
            });
            match r {
                Ok(Ok(())) => {}
                Ok(Err((kind, what))) => {
                    let crossing = if serials.windows(2).any(|w| w[1] < w[0]) { "2^32" } else if serials.windows(2).any(|w| (w[0] ^ w[1]) & 0x8000_0000 != 0) { "2^31" } else { "none" };
                    ctx.violation(&format!("C17|ixfr|{kind}|chain-crosses={crossing}"), &format!("{what} [serials {:?}]", serials), case());
                }
                Err(p) => {
                    ctx.violation(&format!("C17|ixfr|panic|{}", panic_class(&p)), &p, case());
                }
            }
        }
    });
    n.load(AO::Relaxed)
}

/// Use site: commit(bump_soa_serial = true) of the in-memory zone (in_memory::write): the published SOA
/// serial must be the RFC 1982 successor of the previous one - also at 2^31-1 and at 2^32-1.
fn part_commit_bump(ctx: &Ctx) -> u64 {
    use domain::base::iana::Rtype;
    use mc::zfix::*;
    let n = AtomicU64::new(0);
    USE_BASES.par_iter().for_each(|&b| {
        let case = || json!({"part": "commit-bumps-serial", "start": b});
        let r = guard(|| -> Result<(), (String, String)> {
            let mut c = Content::base(b);
            c.add("a", Rd::A(1));
            let zone = build_direct(&c, false);
            let rt = rt();
            let mut cur = b;
            for k in 0..4u8 {
                n.fetch_add(1, AO::Relaxed);
                rt.block_on(async {
                    let mut w = zone.write().await;
                    let apex = w.open(false).await.unwrap();
                    let node = node_for(apex.as_ref(), &rel("a")).await.unwrap();
                    node.update_rrset(rrset_of(&[Rd::A(2 + k)])).await.unwrap();
                    drop(node);
                    drop(apex);
                    w.commit(true).await.unwrap();
                });
                let o = query(zone.read().as_ref(), &vec![], Rtype::SOA);
                let want = Rd::Soa(cur.wrapping_add(1)).wire();
                let got: Vec<Vec<u8>> = o.answer.iter().filter(|x| x.1 == 6).map(|x| x.2.clone()).collect();
                if got != vec![want] {
                    let serial = got.first().and_then(|g| g.len().checked_sub(20).map(|p| u32::from_be_bytes([g[p], g[p + 1], g[p + 2], g[p + 3]])));
                    return Err(("published-serial-is-not-the-successor".into(), format!("commit(true) on serial {cur} published serial {:?}, RFC 1982 successor is {}", serial, cur.wrapping_add(1))));
                }
                cur = cur.wrapping_add(1);
            }
            Ok(())
        });
        match r {
            Ok(Ok(())) => {}
            Ok(Err((kind, what))) => {
                ctx.violation(&format!("C17|commit-bump|{kind}"), &what, case());
            }
            Err(p) => {
                ctx.violation(&format!("C17|commit-bump|panic|{}", panic_class(&p)), &p, case());
            }
        }
    });
    n.load(AO::Relaxed)
}

fn days_from_civil(y: i64, m: i64, d: i64) -> i64 {
    // proleptic Gregorian calendar, days since 1970-01-01
    let y = if m <= 2 { y - 1 } else { y };
    let era = if y >= 0 { y } else { y - 399 } / 400;
    let yoe = y - era * 400;
    let doy = (153 * (if m > 2 { m - 3 } else { m + 9 }) + 2) / 5 + d - 1;
    let doe = yoe * 365 + yoe / 4 - yoe / 100 + doy;
    era * 146097 + doe - 719468
}

fn days_in_month(y: i64, m: i64) -> i64 {
    match m {
        1 | 3 | 5 | 7 | 8 | 10 | 12 => 31,
        4 | 6 | 9 | 11 => 30,
        2 => {
            if (y % 4 == 0 && y % 100 != 0) || y % 400 == 0 {
                29
            } else {
                28
            }
        }
        _ => 0,
    }
}

/// Use site: signature times in presentation format (RFC 4034 3.2): integer
/// or YYYYMMDDHHmmSS, seconds since the epoch modulo 2^32.
fn part_text_forms(ctx: &Ctx) -> u64 {
    use domain::base::scan::IterScanner;
    use std::str::FromStr;
    // (text, expected: Some(value) accept with that value / None reject)
    let mut cases: Vec<(String, Option<u32>)> = Vec::new();
    let mut add_date = |y: i64, mo: i64, d: i64, h: i64, mi: i64, s: i64| {
        let valid = (1..=12).contains(&mo) && d >= 1 && d <= days_in_month(y, mo) && (0..24).contains(&h) && (0..60).contains(&mi) && (0..60).contains(&s);
        let text = format!("{y:04}{mo:02}{d:02}{h:02}{mi:02}{s:02}");
        if text.len() != 14 {
            return;
        }
        let secs = days_from_civil(y, mo, d) * 86400 + h * 3600 + mi * 60 + s;
        cases.push((text, if valid { Some(secs.rem_euclid(1i64 << 32) as u32) } else { None }));
    };
    // every day 1970..=2500 at the first and the last second
    for y in 1970..=2500 {
        for mo in 1..=12 {
            for d in 1..=days_in_month(y, mo) {
                add_date(y, mo, d, 0, 0, 0);
                add_date(y, mo, d, 23, 59, 59);
            }
        }
    }
    // every second around k * 2^31
    for k in 1..=8i64 {
        for off in -3..=3i64 {
            let t = k * (1i64 << 31) + off;
            let days = t.div_euclid(86400);
            let rem = t.rem_euclid(86400);
            // civil from days
            let z = days + 719468;
            let era = z.div_euclid(146097);
            let doe = z - era * 146097;
            let yoe = (doe - doe / 1460 + doe / 36524 - doe / 146096) / 365;
            let doy = doe - (365 * yoe + yoe / 4 - yoe / 100);
            let mp = (5 * doy + 2) / 153;
            let d = doy - (153 * mp + 2) / 5 + 1;
            let m = if mp < 10 { mp + 3 } else { mp - 9 };
            let y = yoe + era * 400 + if m <= 2 { 1 } else { 0 };
            add_date(y, m, d, rem / 3600, rem % 3600 / 60, rem % 60);
        }
    }
    for y in (1971..=9998).step_by(97) {
        add_date(y, 1, 1, 0, 0, 0);
        add_date(y, 12, 31, 23, 59, 59);
    }
    // (the last days of year 9999 are outside jiff's timestamp range: not asked for)
    // calendar validity: all month x day combinations of a leap and a non-leap year, time edges
    for y in [2023i64, 2024, 2100, 2400] {
        for mo in 0..=13 {
            for d in 0..=32 {
                add_date(y, mo, d, 12, 0, 0);
            }
        }
    }
    for (h, mi, s) in [(24, 0, 0), (23, 60, 0), (0, 0, 0), (23, 59, 59), (12, 59, 0)] {
        add_date(2024, 6, 15, h, mi, s);
    }
    // integer forms
    for v in [0u64, 1, 9, 10, 0x7FFF_FFFF, 0x8000_0000, 0xFFFF_FFFE, 0xFFFF_FFFF, 0x1_0000_0000, 0x1_0000_0001, 9_999_999_999, 10_000_000_000, 99_999_999_999_999] {
        let text = format!("{v}");
        if text.len() == 14 {
            continue; // that is a date form
        }
        cases.push((text, if v <= 0xFFFF_FFFF { Some(v as u32) } else { None }));
    }
    let n = cases.len() as u64 * 2;
    cases.par_iter().for_each(|(text, want)| {
        let r1 = guard(|| domain::rdata::dnssec::Timestamp::from_str(text).map(|t| t.into_int()).ok());
        let r2 = guard(|| {
            let mut sc = IterScanner::<_, Vec<u8>>::new([text.as_str()].into_iter());
            domain::rdata::dnssec::Timestamp::scan(&mut sc).map(|t| t.into_int()).ok()
        });
        for (route, r) in [("from_str", r1), ("scan", r2)] {
            let case = || json!({"text": text, "route": route, "part": "signature-time-text"});
            let kind = if text.len() == 14 { "date" } else { "integer" };
            match (r, want) {
                (Err(p), _) => {
                    ctx.violation(&format!("C17|sigtime-text|{route}|panic|{}", panic_class(&p)), &p, case());
                }
                (Ok(Some(got)), Some(w)) => {
                    if got != *w {
                        ctx.violation(&format!("C17|sigtime-text|{route}|{kind}|value-is-not-seconds-since-epoch-mod-2^32"), &format!("{text} read as {got}, expected {w}"), case());
                    }
                }
                (Ok(Some(got)), None) => {
                    ctx.violation(&format!("C17|sigtime-text|{route}|{kind}|accepted-invalid"), &format!("{text} is not a valid signature time but was read as {got}"), case());
                }
                (Ok(None), Some(w)) => {
                    ctx.violation(&format!("C17|sigtime-text|{route}|{kind}|rejected-valid"), &format!("{text} (= {w}) was rejected"), case());
                }
                (Ok(None), None) => {}
            }
        }
    });
    n
}

fn main() {
    let ctx = Ctx::new("C17", "exploration");
    if let Some(path) = &ctx.replay {
        // replay one stored case without the sweep
        use std::str::FromStr;
        let v: serde_json::Value = serde_json::from_str(&std::fs::read_to_string(path).expect("replay file")).expect("json");
        let c = &v["case"];
        println!("replaying {}", v["signature"]);
        if let Some(t) = c["text"].as_str() {
            println!("Timestamp::from_str({t:?}) = {:?}", guard(|| Timestamp::from_str(t).map(|x| x.into_int()).ok()));
        } else if c["part"] == "zone-diff" {
            let (b, e) = (c["start"].as_u64().unwrap() as u32, c["end"].as_u64().unwrap() as u32);
            println!("RFC 1982: end newer than start = {:?}; Serial({b}).partial_cmp(Serial({e})) = {:?}", newer(b, e), Serial::from(b).partial_cmp(&Serial::from(e)));
            println!("(the diff itself is rebuilt by the zone-diff part of the check: run the check to see the class again)");
        } else {
            let b = c["base"].as_u64().unwrap() as u32;
            let o = c["other"].as_u64().or(c["addend"].as_u64()).unwrap() as u32;
            println!("Serial({b}).partial_cmp(Serial({o})) = {:?}, reverse {:?}, RFC 1982 {:?}", Serial::from(b).partial_cmp(&Serial::from(o)), Serial::from(o).partial_cmp(&Serial::from(b)), reference(b, o));
            println!("Timestamp: {:?}", Timestamp::from(b).partial_cmp(&Timestamp::from(o)));
            println!("Serial({b}).add({o}) = {:?}", guard(|| Serial::from(b).add(o).into_int()));
            let st = Timestamp::from(o).to_system_time(std::time::UNIX_EPOCH + std::time::Duration::from_secs((1u64 << 32) + b as u64));
            println!("Timestamp({o}).to_system_time(2^32+{b}) = {:?}", st.duration_since(std::time::UNIX_EPOCH).map(|d| d.as_secs()));
        }
        ctx.finish_quiet();
    }
    let bases: Vec<u32> = if ctx.quick() {
        vec![0x7FFF_FFFF, 0xFFFF_FFFE]
    } else {
        vec![
            0, 1, 0x7FFF_FFFF, 0x8000_0000, 0x8000_0001, 0xFFFF_FFFF, 0xFFFF_FFFE, 0x1234_5679,
            0xDEAD_BEEF, 0x7FFF_FFFE, 0x4000_0001, 0xC000_0003, 0x00FF_FF01, 0xFF00_00FF,
        ]
    };
    let ks: [u32; 3] = [1, 0x7FFF_FFFF, 0x8000_0001];
    let evals = AtomicU64::new(0);
    let nontriv = AtomicU64::new(0);
    let outcomes = [AtomicU64::new(0), AtomicU64::new(0), AtomicU64::new(0), AtomicU64::new(0)];
    let stats = Stats::new();
    const CHUNK: u64 = 1 << 22;
    for (bi, &b) in bases.iter().enumerate() {
        // quick: one era per base (both eras are swept, over different bases); thorough: both for every base
        let eras: Vec<u64> = if ctx.quick() { vec![(bi as u64 + 1) % 2] } else { vec![0, 1] };
        (0..(1u64 << 32) / CHUNK).into_par_iter().for_each(|ch| {
            let mut local_out = [0u64; 4];
            let mut viol: Option<(String, String, u32)> = None;
            let sb = Serial::from(b);
            let tb = Timestamp::from(b);
            for c64 in ch * CHUNK..(ch + 1) * CHUNK {
                let c = c64 as u32;
                let sc = Serial::from(c);
                let r = reference(b, c);
                let got = sb.partial_cmp(&sc);
                let rev = sc.partial_cmp(&sb);
                local_out[match got {
                    Some(Ordering::Less) => 0,
                    Some(Ordering::Equal) => 1,
                    Some(Ordering::Greater) => 2,
                    None => 3,
                }] += 1;
                if got != r {
                    viol.get_or_insert(("cmp-vs-rfc1982".into(), format!("partial_cmp({b},{c})={got:?}, RFC 1982 says {r:?}"), c));
                }
                if rev != r.map(Ordering::reverse) {
                    viol.get_or_insert(("antisymmetry".into(), format!("partial_cmp({c},{b})={rev:?} but partial_cmp({b},{c})={got:?}"), c));
                }
                // undefined exactly at distance 2^31
                if got.is_none() != (b.wrapping_sub(c) == 0x8000_0000) {
                    viol.get_or_insert(("undefined-iff-2^31".into(), format!("partial_cmp({b},{c})={got:?}"), c));
                }
                // operators agree with partial_cmp
                if (sb < sc) != (r == Some(Ordering::Less))
                    || (sb > sc) != (r == Some(Ordering::Greater))
                    || (sb <= sc) != matches!(r, Some(Ordering::Less | Ordering::Equal))
                    || (sb >= sc) != matches!(r, Some(Ordering::Greater | Ordering::Equal))
                    || (sb == sc) != (b == c)
                {
                    viol.get_or_insert(("operators".into(), format!("<,>,<=,>=,== of ({b},{c}) disagree with RFC 1982 {r:?}"), c));
                }
                // Timestamp wraps Serial
                let tc = Timestamp::from(c);
                if tb.partial_cmp(&tc) != r || (tb < tc) != (r == Some(Ordering::Less)) || (tb > tc) != (r == Some(Ordering::Greater)) {
                    viol.get_or_insert(("timestamp-cmp".into(), format!("Timestamp partial_cmp({b},{c}) != RFC 1982 {r:?}"), c));
                }
                // Timestamp::to_system_time: the documented requirements - (1) the result is congruent
                // to the timestamp modulo 2^32, (2) its distance from the reference fits an i32 -
                // for references in the first two 2^32-second eras (the first one has no earlier era to fall back to) whose low part is the base
                for era in eras.iter().cloned() {
                    let refsecs = era * (1u64 << 32) + b as u64;
                    let st = tc.to_system_time(std::time::UNIX_EPOCH + std::time::Duration::from_secs(refsecs));
                    let got = st.duration_since(std::time::UNIX_EPOCH).map(|d| d.as_secs()).unwrap_or(u64::MAX);
                    if got & 0xFFFF_FFFF != c as u64 {
                        viol.get_or_insert(("to_system_time-not-congruent".into(), format!("Timestamp({c}).to_system_time(reference {refsecs}) = {got}, not congruent to {c} mod 2^32"), c));
                    }
                    let dist = got as i128 - refsecs as i128;
                    let fits = dist >= i32::MIN as i128 && dist <= i32::MAX as i128 + 1; // exactly 2^31 apart has no closer choice
                    // before the epoch there is no SystemTime to return: only demanded when a candidate >= 0 exists
                    let achievable = era > 0 || {
                        let d0 = c as i128 - refsecs as i128;
                        d0 >= i32::MIN as i128 && d0 <= i32::MAX as i128 + 1 || d0 + (1i128 << 32) <= i32::MAX as i128 + 1
                    };
                    if achievable && !fits {
                        viol.get_or_insert(("to_system_time-too-far-from-reference".into(), format!("Timestamp({c}).to_system_time(reference {refsecs}) = {got}: distance {dist} does not fit an i32"), c));
                    }
                }
                // invariance under adding the same amount to both sides
                for k in ks {
                    let (b2, c2) = (b.wrapping_add(k), c.wrapping_add(k));
                    if Serial::from(b2).partial_cmp(&Serial::from(c2)) != got {
                        viol.get_or_insert(("shift-invariance".into(), format!("cmp({b}+{k},{c}+{k}) != cmp({b},{c})"), c));
                    }
                }
                // addition: c as addend
                if c <= 0x7FFF_FFFF {
                    let s = sb.add(c);
                    if s.into_int() != b.wrapping_add(c) {
                        viol.get_or_insert(("add-value".into(), format!("{b}.add({c}) = {}", s.into_int()), c));
                    }
                    if c >= 1 && !(s > sb && sb < s && s.partial_cmp(&sb) == Some(Ordering::Greater)) {
                        viol.get_or_insert(("add-not-greater".into(), format!("{b}.add({c}) = {} is not greater than {b}", s.into_int()), c));
                    }
                    if c == 0 && s != sb {
                        viol.get_or_insert(("add-zero".into(), format!("{b}.add(0) != {b}"), c));
                    }
                }
            }
            evals.fetch_add(CHUNK, AO::Relaxed);
            let lo = ch * CHUNK;
            let hi = (ch + 1) * CHUNK;
            let contains_b = (b as u64) >= lo && (b as u64) < hi;
            nontriv.fetch_add(CHUNK - contains_b as u64, AO::Relaxed);
            for i in 0..4 {
                outcomes[i].fetch_add(local_out[i], AO::Relaxed);
            }
            if let Some((sig, what, c)) = viol {
                ctx.violation(&format!("C17|{sig}"), &what, json!({"base": b, "other": c}));
            }
        });
        stats.sample(6, || json!({"base": b, "swept": "all 2^32 values c: cmp(b,c), cmp(c,b), operators, Timestamp, cmp(b+k,c+k) k in {1,2^31-1,2^31+1}, b.add(c) for c<2^31"}));
        // add() must panic above 2^31-1 (documented precondition)
        for a in [0x8000_0000u32, 0x8000_0001, 0xFFFF_FFFF] {
            let r = guard(|| Serial::from(b).add(a));
            if let Ok(v) = r {
                ctx.violation("C17|add-precondition", &format!("{b}.add({a}) returned {} instead of panicking as documented", v.into_int()), json!({"base": b, "addend": a}));
            }
            evals.fetch_add(1, AO::Relaxed);
        }
    }
    let (diff_cases, text_cases) = (part_diff_direction(&ctx), part_text_forms(&ctx));
    let (ixfr_cases, bump_cases) = (part_ixfr_across_the_wrap(&ctx), part_commit_bump(&ctx));
    evals.fetch_add(diff_cases + text_cases + ixfr_cases + bump_cases, AO::Relaxed);
    nontriv.fetch_add(diff_cases + text_cases + ixfr_cases + bump_cases, AO::Relaxed);
    let e = evals.load(AO::Relaxed);
    ctx.finish(
        json!({
            "evaluations": e,
            "distinct_nontrivial": nontriv.load(AO::Relaxed),
            "rule": "pairs (base, c) for every c in 0..2^32 per base; every pair is distinct by construction; non-trivial = c != base (counted per chunk)",
            "exhaustive": true,
            "bases": bases,
            "use_sites": {"zone_diff_direction_cases": diff_cases, "signature_time_text_cases": text_cases, "ixfr_chains": ixfr_cases, "commit_bumps": bump_cases, "rule": "IXFR: for 12 start serials on both sides of 0, 2^31 and 2^32 x 6 chains of 1-3 difference sequences (steps 1, 2, 2^31-16, 2^31-1) the response is built, interpreted by XfrResponseInterpreter (batches reported with the serials sent) and applied by ZoneUpdater to a zone at the first serial (ends at the last version); commit(true): 4 successive serial-bumping commits from each start serial publish the RFC 1982 successor each time; zone diffs: InMemoryZoneDiffBuilder::build for start = base, end = base + d over 14 bases x a dense offset grid (every multiple of 65537 and +-2 around 0, 2^31, 2^32): a diff is made iff end is newer than start by RFC 1982 (2^31 apart: either), with start/end serials as given; signature times in text: every calendar day 1970-01-01..2500-12-31 at 00:00:00 and 23:59:59, every second +-3 around k*2^31 (k = 1..8), Jan 1/Dec 31 of years 1971..9998 step 97, all month x day combinations of a leap and a non-leap year, hour/minute/second edge values, and integer forms at the u32 boundaries, through Timestamp::from_str and Timestamp::scan: value == seconds since the epoch mod 2^32 (own civil-date arithmetic), invalid dates rejected, integers above 2^32-1 rejected; Timestamp::to_system_time for references in the first two 2^32-second eras for all 2^32 timestamps"},
            "outcome_counts": {"less": outcomes[0].load(AO::Relaxed), "equal": outcomes[1].load(AO::Relaxed), "greater": outcomes[2].load(AO::Relaxed), "undefined": outcomes[3].load(AO::Relaxed)},
            "samples": stats.samples(),
        }),
        &["the cross-sections {base} x 2^32 contain every branch pair of partial_cmp; the full 2^64 pair space is not swept"],
    );
}
